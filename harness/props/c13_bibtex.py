"""C13: a FAITHFUL transcription of BibTeX's own decision "is this word a von word" (bibtex.web, function
von_token_found with its modules "Check the special character (and return)" and "Handle this accented or foreign
character (and return)"), the First/von/Last/Jr partition built on it, and the generator of the class CONTROL SEQUENCES
WITH AND WITHOUT BRACED ARGUMENTS AT EVERY BRACE LEVEL (imported by c13.py only).

Why a second reference.  names_common.word_case (and the Coq spec, which states the same rule) was written next to the
library and agrees with it on every word; on five classes of words it is NOT what BibTeX does (known finding K14):
    D1  a special character whose first letter stands in or behind the braced argument of an accent: {\\v{C}}apek,
        {\\'{E}}douard, {\\c{}Douard}x (BibTeX: that letter decides, upper; in-house / library: the nested group is skipped and
        ends the special character, the letters behind the special character decide, lower -> von)
    D2  one of BibTeX's 13 built-in control words inside a special character (\\i \\j \\oe \\OE \\ae \\AE \\aa \\AA \\o \\O \\l \\L
        \\ss): BibTeX takes the case from the control word itself ({\\O}rsted, {\\L}ukasz, {\\AA}berg upper; {\\ss}X, {\\o}
        lower), in-house / library ignore the control word
    D3  a special character without any letter, followed by letters: {\\'}x, {\\-}x, {\\relax}x (BibTeX: not a von word at
        once; in-house / library: lower-case from x)
    D4  an alphabetic escape inside an ordinary (protecting) group: {Val\\o}, {de \\relax x} (BibTeX: protected, caseless;
        in-house / library: the letter after the backslash decides)
    D5  a brace directly followed by a backslash at brace level >= 2: {{\\'e}}, {a{\\'e}} (BibTeX: only a level-1 group can
        be a special character, this is protected text; in-house / library: treated as a special character)
The VERDICT of the check is this file's transcription.  A case is attributed to K14 exactly when the verdict by this
transcription fails AND the verdict by the in-house reference holds (the implementation does what the in-house rule says
and that differs from BibTeX); every other difference from BibTeX is a violation.

Conventions kept from the property text / the in-house reference (they are not what this finding is about):
  * words are cut at white space and '~' of brace level 0, sections at commas of level 0; a backslash followed by a
    character that is not white space forms one unit with it (so an escaped brace is no brace and an escaped comma no comma);
  * letters are str.isalpha() characters, upper-case ones str.isupper() (BibTeX: A-Z / a-z; the same on ASCII).
The tokenisation below is written independently of names_common; c13.py cross-checks the two on every case.
"""
import itertools

WS = " ~\r\n\t"
BUILTIN_UPPER = ("OE", "AE", "AA", "O", "L")
BUILTIN_LOWER = ("i", "j", "oe", "ae", "aa", "o", "l", "ss")
INF = 10 ** 9


# ---------------------------------------------------------------- tokenisation
def units(s):
    """[(char, kind)]: kind 'b' = a real brace, 'e' = a character that is escaped by the backslash in front of it (never a
    brace, comma or separator), 'c' = any other character (the backslash of an escape included)"""
    out, i, n = [], 0, len(s)
    while i < n:
        c = s[i]
        if c == "\\" and i + 1 < n and s[i + 1] not in WS:
            out.append(("\\", "c"))
            out.append((s[i + 1], "e"))
            i += 2
            continue
        out.append((c, "b" if c in "{}" else "c"))
        i += 1
    return out


def split_name(name):
    """None (unbalanced braces) or the sections of the name, each a list of words, each a list of units"""
    secs, word, level = [[]], [], 0
    for c, k in units(name):
        if k == "b":
            if c == "{":
                level += 1
            else:
                level -= 1
                if level < 0:
                    return None
        elif k == "c" and level == 0 and (c == "," or c in WS):
            if word:
                secs[-1].append(word)
                word = []
            if c == ",":
                secs.append([])
            continue
        word.append((c, k))
    if level:
        return None
    if word:
        secs[-1].append(word)
    return secs


def text(word):
    return "".join(c for c, _ in word)


# ---------------------------------------------------------------- von_token_found
def von_token_found(word):
    """(is a von word, position of the deciding character, context of the decision) for one word (list of units).
    Line by line after bibtex.web; `return` there = not a von word, `return_von_found` = a von word."""
    n = len(word)
    ch = [c for c, _ in word]
    lbrace = [k == "b" and c == "{" for c, k in word]
    rbrace = [k == "b" and c == "}" for c, k in word]
    p = 0
    while p < n:
        c = ch[p]
        if c.isalpha():
            return (not c.isupper()), p, "level0"
        if lbrace[p]:
            level = 1
            p += 1
            if p + 2 < n and ch[p] == "\\":
                # <Check the special character (and return)>
                p += 1
                y = p
                while p < n and ch[p].isalpha():
                    p += 1
                cs = "".join(ch[y:p])
                if cs in BUILTIN_UPPER:
                    return False, y, "builtin"
                if cs in BUILTIN_LOWER:
                    return True, y, "builtin"
                nested = False
                while p < n and level > 0:
                    c = ch[p]
                    if c.isalpha():
                        return (not c.isupper()), p, ("special-nested" if level > 1 else "special-after-nested" if nested else "special1")
                    if rbrace[p]:
                        level -= 1
                    elif lbrace[p]:
                        level += 1
                        nested = True
                    p += 1
                return False, p - 1, "special-noletter"
            # <Skip over name_buf stuff at nm_brace_level > 0>
            while level > 0 and p < n:
                if rbrace[p]:
                    level -= 1
                elif lbrace[p]:
                    level += 1
                p += 1
        else:
            p += 1
    return False, INF, "none"


def is_von(word_text):
    secs = split_name(word_text)
    if not secs or len(secs) != 1 or len(secs[0]) != 1:
        raise ValueError("not one word: %r" % (word_text,))
    return von_token_found(secs[0][0])[0]


# ---------------------------------------------------------------- the partition (property text), on BibTeX's von test
def parse(name):
    """None for an invalid name (unbalanced braces, more than two top-level commas, a trailing comma), else the dict
    first / von / last / jr that BibTeX's rules give"""
    secs = split_name(name)
    if secs is None or len(secs) > 3:
        return None
    if len(secs) > 1 and not secs[-1]:
        return None
    res = {"first": [], "von": [], "last": [], "jr": []}
    if not any(secs):
        return res
    head = secs[0]
    words = [text(w) for w in head]
    von = [von_token_found(w)[0] for w in head]
    n = len(head)
    # von ends with the last von word that is not the final word of its section
    vend = 0
    for i in range(n - 1):
        if von[i]:
            vend = i + 1
    if len(secs) == 1:
        if n <= 2:
            res["first"], res["last"] = words[:-1], words[-1:]
            return res
        nfirst = 0
        while nfirst < n - 1 and not von[nfirst]:
            nfirst += 1
        vend = max(vend, nfirst)
        res["first"], res["von"], res["last"] = words[:nfirst], words[nfirst:vend], words[vend:]
        return res
    res["von"], res["last"] = words[:vend], words[vend:]
    res["first"] = [text(w) for w in secs[-1]]
    if len(secs) == 3:
        res["jr"] = [text(w) for w in secs[1]]
    return res


def sections_text(name):
    secs = split_name(name)
    return None if secs is None else [[text(w) for w in sec] for sec in secs]


# ---------------------------------------------------------------- where the in-house rule decides (for the distribution)
def inhouse_decision(word):
    """names_common.word_case once more, with the position and context of its decision: (lower?, position, context)"""
    mode, d = "top", 0
    p = 0
    n = len(word)
    while p < n:
        c, k = word[p]
        if k == "b":
            if c == "{":
                d += 1
                mode = "start"
            else:
                d = max(0, d - 1)
                mode = "top" if d == 0 else "group"
            p += 1
            continue
        if c == "\\" and p + 1 < n and word[p + 1][1] == "e":
            e = word[p + 1][0]
            if mode == "start":
                mode = "ctrl" if e.isalpha() else "special"
            elif e.isalpha():
                return (not e.isupper()), p + 1, ("escape-top" if d == 0 else "escape-group")
            p += 2
            continue
        if mode in ("top", "special"):
            if c.isalpha():
                return (not c.isupper()), p, ("top" if mode == "top" else "special1" if d == 1 else "special-deep")
        elif mode == "start":
            mode = "group"
        elif mode == "ctrl":
            if not c.isalpha():
                mode = "special"
        p += 1
    return False, INF, "none"


def deviation_class(word):
    """None when BibTeX and the in-house rule agree on whether the word is lower-case, else D1..D5 / Dother"""
    bv, bp, bc = von_token_found(word)
    hv, hp, hc = inhouse_decision(word)
    if bv == hv:
        return None
    if bp <= hp:
        return {"builtin": "D2", "special-nested": "D1", "special-after-nested": "D1", "special-noletter": "D3"}.get(bc, "Dother")
    return {"escape-group": "D4", "special-deep": "D5"}.get(hc, "Dother")


def deviation_classes(name):
    """the classes of the words of a (valid) name on which the two rules differ"""
    secs = split_name(name)
    out = set()
    for sec in secs or []:
        for w in sec:
            k = deviation_class(w)
            if k:
                out.add(k)
    return sorted(out)


# ---------------------------------------------------------------- generator of the class
ACCENT_SYM = ["'", '"', "`", "^", ".", "="]                 # control symbols that take an argument
ACCENT_ALPHA = ["v", "c", "u", "H", "k", "r", "b", "d", "t"]  # control words that take an argument (one is upper-case)
BUILTIN = ["ss", "AA", "aa", "o", "O", "L", "l", "i", "j", "oe", "OE", "ae", "AE"]
OTHER_WORDS = ["relax", "TeX", "textit", "noopsort", "Relax"]
NON_LETTER = ["-", "&", "1", ",", "\\", "/", "_", "%", "#", "$"]
ARG_UP = ["E", "C", "O", "A"]
ARG_LO = ["e", "c", "o", "a"]
ARG_NONE = ["", "1"]


def control_units(rng, quick):
    """(unit text, needs a space before following letters) for every control sequence form of the class: with a braced
    argument, with a bare argument, without argument, followed by {}"""
    out = []
    syms = ACCENT_SYM if not quick else ACCENT_SYM[:2] + [rng.choice(ACCENT_SYM[2:])]
    alphas = ACCENT_ALPHA if not quick else ACCENT_ALPHA[:2] + rng.sample(ACCENT_ALPHA[2:], 2)
    for a in syms:
        args = ARG_UP[:1] + ARG_LO[:1] + [rng.choice(ARG_UP[1:]), rng.choice(ARG_LO[1:])]
        for x in args:
            out.append(("\\%s{%s}" % (a, x), False))      # \'{E}
            out.append(("\\%s%s" % (a, x), False))        # \'E
        out.append(("\\%s{}" % a, False))
        out.append(("\\%s" % a, False))
        out.append(("\\%s{1}" % a, False))
        out.append(("\\%s{\\i}" % a, False))            # \'{\i}
    for a in alphas:
        for x in (ARG_UP[1], ARG_LO[1], rng.choice(ARG_UP), rng.choice(ARG_LO)):
            out.append(("\\%s{%s}" % (a, x), False))      # \v{C}
            out.append(("\\%s %s" % (a, x), False))       # \v C  (two words at level 0, one inside braces)
        out.append(("\\%s{}" % a, False))
        out.append(("\\%s" % a, True))
    for b in BUILTIN:
        out.append(("\\%s" % b, True))                    # \o
        out.append(("\\%s{}" % b, False))                 # \o{}
        out.append(("{\\%s}" % b, False))                 # {\o}  (a special character of its own when at level 0)
    for w in OTHER_WORDS:
        out.append(("\\%s" % w, True))
        out.append(("\\%s X" % w, False))
        out.append(("\\%s x" % w, False))
        out.append(("\\%s{X}" % w, False))
        out.append(("\\%s{x}" % w, False))
        out.append(("\\%s{}" % w, False))
    for c in NON_LETTER:
        out.append(("\\%s" % c, False))
        out.append(("\\%sX" % c, False))
        out.append(("\\%sx" % c, False))
    return out


PRE0 = ["", "", "", "1", "-", "Val", "val", "d'"]
SUF = ["", "", "mile", "Mile", "MILE", "1", "x", "X", "{x}", "{X}y", "-x"]


def class_words(rng, quick):
    """the words of the class, each with its kind (level of the control sequence): cs0 level 0, cs1s special character,
    cs1g inside a protecting group, cs2 level 2.  Compositional: every control unit in every position."""
    out = []
    cu = control_units(rng, quick)

    def glue(u, spc, suf):
        return u + (" " if spc and suf[:1].isalpha() else "") + suf
    for u, spc in cu:
        sufs = SUF if not quick else ["", rng.choice(["mile", "x"]), rng.choice(["Mile", "X", "MILE"]), rng.choice(SUF[5:])]
        # (a) level 0 - the control sequence is NOT a special character
        for suf in sufs:
            if " " in glue(u, spc, suf) and not u.startswith("{"):
                # a blank at level 0 cuts the word: both halves are words of the class in their own right
                for half in glue(u, spc, suf).split(" "):
                    if "\\" in half:
                        out.append(("cs0", half))
                continue
            k0 = "cs1s" if u.startswith("{") else "cs0"
            out.append((k0, rng.choice(PRE0) + glue(u, spc, suf) if suf or rng.random() < 0.5 else glue(u, spc, suf)))
        if u.startswith("{"):
            continue
        # (b) a special character: the brace at level 0 is directly followed by the backslash
        for suf in sufs:
            out.append(("cs1s", "{" + u + "}" + suf))
        out.append(("cs1s", "{" + glue(u, spc, rng.choice(["x", "X", "douard", "Douard"])) + "}" + rng.choice(SUF)))
        out.append(("cs1s", rng.choice(["1", "-", "2."]) + "{" + u + "}" + rng.choice(SUF)))
        out.append(("cs1s", "{" + u + "}{" + rng.choice(["\\'E", "\\'e", "x", "X"]) + "}"))
        # (c) inside an ordinary protecting group (something stands between the brace and the backslash)
        for pre in (["Val", "de Saint-", "val", "1", " ", "{x}"] if not quick else ["Val", rng.choice(["de Saint-", "val", "1", " ", "{x}"])]):
            out.append(("cs1g", "{" + pre + glue(u, spc, rng.choice(["ry", "Ry", "", "tienne"])) + "}" + rng.choice(["", "", "x", "X"])))
        # (d) level 2
        out.append(("cs2", "{{" + u + "}}" + rng.choice(SUF)))
        out.append(("cs2", "{{" + glue(u, spc, rng.choice(["x", "X"])) + "}}"))
        out.append(("cs2", "{" + rng.choice(["a", "A", "1"]) + "{" + u + "}" + rng.choice(["", "x"]) + "}" + rng.choice(["", "x", "X"])))
        out.append(("cs2", "{{" + rng.choice(["Val", "val"]) + u + "}" + rng.choice(["", "x"]) + "}"))
        if not quick or rng.random() < 0.3:
            out.append(("cs2", "{{{" + u + "}}}" + rng.choice(["", "x", "X"])))
    seen, uniq = set(), []
    for kind, w in out:
        if w and w not in seen:
            seen.add(w)
            uniq.append((kind, w))
    return uniq


# the words of the named examples, always present
FIXED_WORDS = [("cs0", "\\'{E}mile"), ("cs0", "\\'{e}mile"), ("cs0", "\\v{C}apek"), ("cs0", "\\\"{O}zg\\\"{u}r"), ("cs0", "\\\"{o}"),
               ("cs0", "\\c{c}a"), ("cs0", "\\'Emile"), ("cs0", "\\'e"), ("cs0", "\\ss{}"), ("cs0", "\\AA"), ("cs0", "\\aa{}"),
               ("cs0", "\\o"), ("cs0", "\\L{}ukasz"), ("cs0", "\\i"), ("cs0", "\\relax"), ("cs0", "\\-x"), ("cs0", "Val\\'{e}ry"),
               ("cs1s", "{\\'{E}}douard"), ("cs1s", "{\\'{e}}douard"), ("cs1s", "{\\v{C}}apek"), ("cs1s", "{\\v{c}}apek"),
               ("cs1s", "{\\'e}"), ("cs1s", "{\\'E}"), ("cs1s", "{\\AA}"), ("cs1s", "{\\aa}"), ("cs1s", "{\\AA}berg"),
               ("cs1s", "{\\O}rsted"), ("cs1s", "{\\L}ukasz"), ("cs1s", "{\\o}x"), ("cs1s", "{\\ss}X"), ("cs1s", "{\\relax X}"),
               ("cs1s", "{\\relax x}Y"), ("cs1s", "{\\relax}x"), ("cs1s", "{\\'}x"), ("cs1s", "{\\-}x"), ("cs1s", "Nov{\\'a}k"),
               ("cs1g", "{Val\\'{e}ry}"), ("cs1g", "{Val\\'{E}ry}"), ("cs1g", "{de Saint-\\'{e}tienne}"), ("cs1g", "{Val\\o}"),
               ("cs1g", "{de \\relax x}"), ("cs1g", "{Val\\'ery}"), ("cs1g", "{x\\ss{}}"),
               ("cs2", "{{\\'E}}"), ("cs2", "{{\\'e}}"), ("cs2", "{{\\'E}}x"), ("cs2", "{a{\\'e}}"), ("cs2", "{{\\v{c}}}apek"),
               ("cs2", "{{Val\\'{e}ry}}"), ("cs2", "{{\\o}}x")]

UPW = ["Aa", "Zz", "Knuth", "Jean", "B."]
LOW = ["bb", "von", "de", "la"]
CLW = ["11", "{Cc}", "--"]
# templates: W = the word of the class, U / L / C = an ordinary upper-case / lower-case / caseless word.  In every template
# marked * the partition depends on the case of W.
TEMPLATES = [
    # comma-free form
    "W U", "U W",
    "U W U*", "W U U*", "U U W", "L W U*", "U W L", "C W U*", "W L U*",
    "U U W U*", "U W U U*", "W U U U*", "U L W U*", "U W L U*", "U W U L", "L U W U*", "U C W U*",
    "U U U W U*", "U W U U U*", "U U W L U*", "U L U W U*", "W U L U U*", "U U U U W",
    # von Last, First
    "W U, U*", "U W, U", "U, W", "W, U",
    "U W U, U*", "L W U, U*", "W L U, U*", "U U W, U", "U, U W", "U, W U", "W U, U U*",
    "U W U, U U*", "U L W U, U*", "W U U, U U*", "U U, W U U",
    # von Last, Jr, First
    "W U, U, U*", "U, W, U", "U, U, W", "U W U, U, U*", "L W U, U, U*", "W U, U, U U*", "U W, U, U U", "U U, W, U U",
]
TEMPLATES_DECISIVE = [t[:-1] for t in TEMPLATES if t.endswith("*")]
TEMPLATES_ALL = [t.rstrip("*") for t in TEMPLATES]
GAPS = [" ", " ", " ", " ", "~", "  ", "\t", "\n"]


def fill(rng, template, word, word2=None):
    out, used_w = [], False
    for piece in template.replace(",", " , ").split():
        if piece == ",":
            out.append(",")
        elif piece == "W":
            out.append(word2 if (used_w and word2 is not None) else word)
            used_w = True
        else:
            out.append(rng.choice({"U": UPW, "L": LOW, "C": CLW}[piece]))
    s = ""
    for i, x in enumerate(out):
        if x == ",":
            s += ","
        else:
            if i:
                s += " " if out[i - 1] == "," else rng.choice(GAPS) if rng.random() < 0.15 else " "
            s += x
    return s


def class_names(rng, tier):
    """[(kind, name)]: every word of the class in the two smallest decisive places (`U W U`, `W U, U`), in further decisive
    templates, in places where its case must NOT matter, and names with two words of the class"""
    quick = tier == "quick"
    words = FIXED_WORDS + [kw for kw in class_words(rng, quick) if kw not in FIXED_WORDS]
    out = []
    for i, (kind, w) in enumerate(words):
        fixed = i < len(FIXED_WORDS)
        out.append((kind, fill(rng, "U W U", w)))
        out.append((kind, fill(rng, "W U, U", w)))
        k_dec, k_all = (6, 3) if (fixed or not quick) else (2, 1)
        for t in rng.sample(TEMPLATES_DECISIVE, k_dec):
            out.append((kind, fill(rng, t, w)))
        for t in rng.sample(TEMPLATES_ALL, k_all):
            out.append((kind, fill(rng, t, w)))
    # two words of the class in one name: one of them takes the place of an ordinary word
    for _ in range(1500 if quick else 15000):
        (k1, w1), (k2, w2) = rng.choice(words), rng.choice(words)
        t = rng.choice(TEMPLATES_ALL)
        s = fill(rng, t, w1)
        parts = s.split(" ")
        cand = [j for j, x in enumerate(parts) if x and x != w1 and x.rstrip(",") in UPW + LOW + CLW]
        if cand:
            j = rng.choice(cand)
            parts[j] = w2 + ("," if parts[j].endswith(",") else "")
        out.append((k1 if k1 == k2 else "csmix", " ".join(parts)))
    return out


REAL_NAMES = ["Jean \\'{E}mile Zola", "Jan {\\v{C}}apek Nov{\\'a}k", "Bent {\\O}rsted Hansen", "{\\'{E}}douard Manet, Claude",
              "\\\"{O}zg\\\"{u}r Kaya, Jr, Ali", "{Val\\'{e}ry} Giscard, Jean", "Anne {de Saint-\\'{e}tienne} Dupont",
              "Paul {\\'E}mile Victor", "Paul {\\'e}mile Victor", "Charles Louis de la Vall{\\'e}e Poussin",
              "Anders Jonas {\\AA}ngstr{\\\"o}m", "Karl Wei{\\ss} Mann", "Stanis{\\l}aw Lem", "Jos\\'e de la Cruz Garc\\'{\\i}a"]
