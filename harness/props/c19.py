"""C19 - an entry behaves like an insertion-ordered mapping of its fields; equality of fields/blocks is structural."""
from props import pubapi
import itertools
import json

ENGINE = "entry"
# per-case limit of the implementation child (default 20 s): the big-multi cases (hundreds of additions / removals on entries
# of ~1000 fields, each O(n)) need ~0.3 s alone and several seconds under the statement-coverage tracer; on a machine shared
# with other checks (load ~100 on 16 cores) they crossed 20 s and were reported as raising Timeout
CASE_TIMEOUT_S = 120
RULE = ("operation sequences (set_field, e[k]=v, pop, del e[k]; then a probe block of get / in / e[k] on every key of the "
        "pool and the reserved names) over the key pool {a, A, b, ab}: all mutator sequences up to depth 3 (quick) / 4 "
        "and 5 on sub-alphabets (thorough) from several start entries, all interleavings of all seven operations to "
        "depth 3 / 4, random interleavings up to depth 30 from constructed and parsed entries (some with duplicate or "
        "reserved keys: model comparison only); equality: every single-attribute perturbation, class change, "
        "copy and deepcopy of parsed and constructed blocks and of fields; several entries holding the same Field objects "
        "(twin built from list(e.fields), a Field placed in two entries, a Field moved over with other.set_field(e.get(k))): "
        "all mutator sequences to depth 2 / 3 over both entries from five sharing set-ups and random programs to depth 25, "
        "every entry compared with its own reference dict after every step, and every Field object ever stored or handed "
        "out keeps the content it had (a dict does not alter the objects stored in it); stored objects of unusual types: "
        "instances of Field subclasses that are sized containers (__len__, empty = falsy), define __bool__ as False, compare "
        "equal to everything / to nothing (__eq__, __hash__), or raise from __bool__/__len__/__eq__/__hash__ (a dict never "
        "asks the objects stored in it for their truth value, length, equality or hash; presence is decided by the key "
        "alone), and falsy values 0 / False / [] / '' / None: all mutator sequences to depth 2 / 3 from three start "
        "entries made of such objects and random programs as above, which also edit the list handed out by e.fields "
        "(append, insert, replace, delete, reverse) or assign e.fields, after which fields_dict, items(), get, in and [] must describe "
        "exactly what e.fields shows; SIZE: entries with 256, 257, 258, 300, 1000, 1025 and a few other / random numbers of "
        "fields (up to ~1200 quick / ~3000 thorough; parsed from one @article, constructed with str and int values, or "
        "grown key by key with set_field / item assignment from 0, 1, 250, 255, 256 fields): the seven operations and probe "
        "blocks on keys at both ends, in the middle, at positions 254..257 and on absent keys (f<n>, F0, f, 'f0 ', '', zz, a) "
        "(entries up to 300 fields also against the Coq model), and programs of single operations, runs of additions "
        "and removals that cross 256 / 512 / 1024 fields in both directions (membership / get / length asked before and "
        "after each one near the thresholds), twins of large entries and Field objects moved between them, every entry "
        "compared with its reference dict after every step (views in full, keyed accessors on the keys named above); "
        "WORLDS of three and more entries obtained in every way the library builds them: parsed (stack [] / default / default in "
        "copy mode; into a fresh library or one of an earlier call; the same text again in a later call) from documents "
        "in random layouts whose entries have the forms @t{k}, @t{k,} and @t{k, fields} (several per document, other blocks "
        "in between), constructed as Entry / uc.SubEntry / uc.CopyFieldsEntry with positional, keyword and mixed arguments "
        "and every parameter left out to which the signature of the tree under test gives a default (inspected at run "
        "time), copy.copy / copy.deepcopy / uc.as_sub / uc.as_copyfields / a twin of a live entry; all pairs of 27 ways "
        "(two entries per way alive together) with every entry written to, random worlds, and worlds where births happen "
        "between the operations; each entry has its own reference dict filled at birth from its text / arguments / "
        "source, EVERY live entry is compared with its own dict after EVERY step, and at the end every parse and constructor "
        "call of the session is repeated: the newborn holds what its text / arguments say (worlds without shallow copies "
        "and without births between operations also against Model/EntryObj.v, op 25). "
        "distinct = distinct (start "
        "entry, operation list) or (block, perturbation); non-trivial = at least one call replaces, removes or misses an "
        "existing key (several entries: a key whose Field object is also held by another entry), or the pair differs in "
        "exactly one attribute / is a copy; worlds: a new key is written to an entry while another entry built the same way is alive; odd streams: an operation addresses a key bound to an object of a Field subclass, or "
        "the caller edits e.fields; edit streams: an edit was made after at least one lookup; "
        "IDENTITY of arguments (ident-* streams, props/c19_ident.py): pop(k, d) / get(k, d) whose default d IS the Field "
        "stored under k / under another key / in another entry / popped or replaced earlier, an equal copy of one of these, "
        "the value object of one, None, a falsy value, a falsy / equal-to-everything / comparison-refusing Field object, the "
        "entry itself, another entry, the list e.fields; set_field(f) with f already a field of this entry (every position, "
        "after a rename by the caller), of another entry, popped earlier, an equal copy; e[k] = v with v a stored Field or a "
        "stored value object; the same object in two calls in a row: every such call on a present and an absent key alone, "
        "twice, once more after the key was removed in between, after three to six preparations and followed by a write "
        "(thorough: every changing call followed by every call), eleven scripts around earlier results, "
        "random programs to depth 18 over one to three entries (constructed, sharing Field objects, parsed); what each "
        "argument was relative to the entry and key is read off the objects at run time (tags ident:...); non-trivial = an "
        "argument coincided with (or equalled) something an entry held; "
        "EQUALITY ACROSS THE CLASS HIERARCHY (hier-* streams, props/c19_hier.py): every public model class (Field, Entry, "
        "String, Preamble, ExplicitComment, ImplicitComment, ParsingFailedBlock, MiddlewareErrorBlock, DuplicateBlockKeyBlock, "
        "DuplicateFieldKeyBlock; Library when the tree gives it an __eq__) - constructed, parsed with and without the "
        "default stack from fixed and random documents, failed blocks built and produced by the splitter - against an "
        "object with the very same attribute values of (a) a direct subclass that overrides nothing (built by the "
        "constructor or by assigning __class__ to a copy; also one with the name of its base, one that adds a method), "
        "(b) a subclass of that subclass, (c) sibling classes (two subclasses of one base; the library's own siblings, "
        "sub- and superclasses), (d) unrelated classes with the same __dict__ (one with the same name), a namespace of "
        "the public attributes, the attribute dict, None, repr, the class ..., (e) copy / deepcopy / rebuilt instances of "
        "the class and of its subclasses; nested: an Entry one of whose fields is a SubField, a failed block around a "
        "SubEntry; subclass twins differing in one attribute: == and != in both operand orders, inside lists / tuples / "
        "dict values, in / index / count on lists at several positions, entry.fields, fields_dict views and dict "
        "equality, library.blocks, the typed views and entries_dict / strings_dict views; expected equal exactly when "
        "type(x) is type(y) and the public attributes agree (with the exact class of nested fields / blocks); "
        "non-trivial = the property fixes the answer")
TRUSTED = ["field identity is observed through unique start_line tags given to every Field the harness creates",
           "the several-entries streams have no counterpart in the Coq model (the model has no object identity across "
           "entries): they are judged by the Python oracle alone",
           "Field subclasses overriding __len__/__bool__/__eq__/__hash__ and direct edits of the list handed out by "
           "e.fields have no counterpart in the Coq model either (odd-* streams, Python oracle alone)",
           "worlds (world-* streams): judged by the Python oracle; those whose births all precede the program and that "
           "contain no shallow copy are built a second time and recorded for Model/EntryObj.v (op 25) as well.  A shallow "
           "copy shares the field list of its source (copy.copy copies attributes): after a write through one of the two the "
           "other's reference dict is re-read from e.fields (convention of the caller-edit steps); what a newly parsed entry "
           "holds is read off the generator's own description of the text (simple braced / quoted / numeric values)",
           "caller edits through the list e.fields / the fields setter (edit-list stream, most of edit-exh) have no counterpart in "
           "the Coq model (its entries have no list object of their own): Python oracle alone, with the convention of the "
           "odd-* streams that the reference dict is re-read from e.fields after such an edit; edits through Field objects "
           "(rename, value, exchange of keys) are run a second time on fresh objects and compared with Model/EntryObj.v",
           "entries with more than 300 fields (big-ops stream) and the big-multi stream are not sent to the Coq model (the "
           "extracted model needs seconds per such case): Python oracle alone",
           "ident-* streams: defaults and values that are objects (Field objects, entries, lists) are beyond the values of "
           "the Coq model: Python oracle alone (reference dict per entry, results compared by identity); programs made of "
           "set_field of existing / new objects, renames and plain values are run a second time on fresh objects and "
           "compared with Model/EntryObj.v (op 25)",
           "hier-* streams: subclasses, foreign objects and failed blocks are beyond the class tags of the executable equality "
           "model: Python oracle alone; pairs of plain Entry / String / Preamble / comment / Field objects are compared with py_eq "
           "(op 21) as well.  Failed blocks hold an exception object: with the very same exception object on both sides the "
           "rule of the property is applied, otherwise (deep copies) only symmetry and `!=` = not `==` are required.  A Library "
           "without an __eq__ of its own (identity) is held to the class half of the rule only",
           "values containing dicts or foreign objects are outside the executable equality model (skipped for the model "
           "comparison, still checked by the Python oracle)"]
ASSUMPTIONS = ["str keys; CPython dict preserves insertion order (the reference mapping of the oracle is a dict)"]

POOL = ["a", "A", "b", "ab"]
RESERVED = ["ENTRYTYPE", "ID"]
O_SETFIELD, O_SETITEM, O_POP, O_DEL, O_GET, O_IN, O_GETITEM = range(7)
MUTATORS = (O_SETFIELD, O_SETITEM, O_POP, O_DEL)

START = [
    {"type": "article", "key": "k1", "fields": []},
    {"type": "book", "key": "k2", "fields": [["a", "x", 1], ["b", "y", 2]]},
    {"type": "misc", "key": "k3", "fields": [["ab", "p", 1], ["A", "q", 2], ["a", "r", 3]]},
]
BIB = ("@article{smith2020,\n  author = {Smith, J.},\n  Title = \"On things\",\n  year = 2020,\n  a = {1},\n}\n"
       "@string{me = \"My Name\"}\n@preamble{\"\\newcommand{\\x}{y}\"}\n@comment{hello world}\nsome free text\n"
       "@book{b1, A = {up}, a = {low}, ab = me # { x }}\n")


def probe_ops(keys):
    ops = []
    for k in keys:
        ops.append([O_GET, k, None])
        ops.append([O_IN, k])
        ops.append([O_GETITEM, k])
    ops += [[O_GETITEM, "ENTRYTYPE"], [O_GETITEM, "ID"], [O_GET, "ID", {"v": "dflt"}], [O_IN, "ENTRYTYPE"],
            [O_GET, "zz", {"v": 7}], [O_GETITEM, "zz"]]
    return ops


def mk_op(code, k, n):
    """n: unique tag (used as start_line / value suffix)"""
    if code == O_SETFIELD:
        return [O_SETFIELD, k, "v%d" % n, 100 + n]
    if code == O_SETITEM:
        return [O_SETITEM, k, "w%d" % n]
    if code == O_POP:
        return [O_POP, k, None] if n % 2 == 0 else [O_POP, k, {"v": "d%d" % n}]
    if code == O_DEL:
        return [O_DEL, k]
    if code == O_GET:
        return [O_GET, k, None] if n % 2 else [O_GET, k, {"v": n}]
    if code == O_IN:
        return [O_IN, k]
    return [O_GETITEM, k]


def seqs(alphabet, depth):
    for d in range(1, depth + 1):
        for combo in itertools.product(alphabet, repeat=d):
            yield [mk_op(c, k, i) for i, (c, k) in enumerate(combo)]


def generate(rng, tier):
    cases = []
    quick = tier == "quick"
    rng_obj = __import__("random").Random(rng.random())      # own generator: the streams below keep their draws
    for _ in range(600 if quick else 20000):
        cases.append({"stream": "objprog", "input": gen_obj_program(rng_obj)})
    mut16 = [(c, k) for c in MUTATORS for k in POOL]
    # 0. several entries holding the same Field objects: all mutator sequences over both entries (shortest first)
    mkeys = POOL if quick else ["a", "A", "b"]
    alpha = [(t, c, k) for t in (0, 1) for c in MUTATORS for k in mkeys]
    for d in range(1, (2 if quick else 3) + 1):
        for name, ents, setup in SHARED_SETUPS:
            for combo in itertools.product(alpha, repeat=d):
                steps = [["op", t, mk_op(c, k, i)] for i, (t, c, k) in enumerate(combo)]
                cases.append({"stream": "multi-exh", "input": {"multi": name, "entries": ents, "steps": setup + steps}})
    # 0b. entries made of Field objects of unusual types (see field_class): all mutator sequences on one entry
    okeys = ["a", "A", "b"]
    oalpha = ([(O_SETFIELD, k, kind) for k in okeys for kind in ("sized", "strict", "eqall")]
              + [(c, k, None) for c in (O_SETITEM, O_POP, O_DEL) for k in okeys])
    for d in range(1, (2 if quick else 3) + 1):
        for name, ents in ODD_SETUPS:
            for combo in itertools.product(oalpha, repeat=d):
                steps = [["op", 0, odd_op(c, k, i, kind)] for i, (c, k, kind) in enumerate(combo)]
                cases.append({"stream": "odd-exh", "input": {"multi": name, "entries": ents, "steps": steps}})
    # 1. all mutator sequences, probes at the end
    for si, st in enumerate(START if not quick else START[1:]):
        for ops in seqs(mut16, 3 if quick else 4):
            cases.append({"stream": "exh-mut", "input": {"entry": st, "ops": ops + probe_ops(POOL)}})
    if not quick:
        sub = [(c, k) for c in MUTATORS for k in ("a", "A")]
        for st in START[:2]:
            for combo in itertools.product(sub, repeat=5):
                ops = [mk_op(c, k, i) for i, (c, k) in enumerate(combo)]
                cases.append({"stream": "exh-mut5", "input": {"entry": st, "ops": ops + probe_ops(["a", "A"])}})
    # 2. all interleavings of all seven operations
    keys = ["a", "A", "b"] if quick else ["a", "A"]
    full = [(c, k) for c in range(7) for k in keys]
    for combo in itertools.product(full, repeat=3 if quick else 4):
        ops = [mk_op(c, k, i) for i, (c, k) in enumerate(combo)]
        cases.append({"stream": "exh-all", "input": {"entry": START[1], "ops": ops}})
    # 3. random interleavings, incl. start entries outside the hypothesis (duplicate / reserved keys)
    n_rand = 600 if quick else 20000
    for i in range(n_rand):
        kind = rng.random()
        pool = list(POOL)
        nf = rng.randint(0, 4)
        if kind < 0.7:
            ks = rng.sample(POOL, nf)
        elif kind < 0.85:
            ks = [rng.choice(POOL) for _ in range(nf + 1)]                  # duplicates likely
        else:
            pool = POOL + RESERVED
            ks = rng.sample(pool, min(nf, len(pool)))
        vals = ["s", "", {"int": 3}, {"list": ["x", "y"]}, None, {"bool": True}, "ß"]
        st = {"type": rng.choice(["article", "Book", ""]), "key": rng.choice(["k", "ID", "a"]),
              "fields": [[k, rng.choice(vals), j + 1] for j, k in enumerate(ks)]}
        depth = rng.randint(1, 30)
        ops = []
        for j in range(depth):
            c = rng.choice([0, 0, 1, 1, 2, 2, 3, 3, 4, 5, 6])
            k = rng.choice(pool) if rng.random() < 0.95 else rng.choice(["zz", "", "ID"])
            op = mk_op(c, k, j)
            if c in (O_SETFIELD, O_SETITEM) and rng.random() < 0.3:
                op[2] = rng.choice(vals)
            ops.append(op)
        cases.append({"stream": "random", "input": {"entry": st, "ops": ops + (probe_ops(POOL) if i % 4 == 0 else [])}})
    # 4. parsed start entries
    for i in range(40 if quick else 400):
        depth = rng.randint(1, 12)
        pool = ["author", "Title", "title", "year", "a", "A", "ab"]
        ops = [mk_op(rng.choice([0, 1, 2, 3, 4, 5, 6]), rng.choice(pool), j) for j in range(depth)]
        cases.append({"stream": "parsed", "input": {"bib": BIB, "index": rng.choice([0, 5]), "ops": ops + probe_ops(pool)}})
    # 5. equality
    cases += eq_cases(rng, tier)
    # 6. random programs over several entries that hold the same Field objects
    cases += multi_random(rng, tier)
    # 7. the same with Field objects of unusual types, falsy values and direct edits of the list handed out by e.fields
    cases += multi_random(rng, tier, odd=True)
    # 8. SIZE: entries with hundreds / thousands of fields (parsed, constructed, grown and shrunk across 256 / 512 / 1024)
    cases += big_cases(rng, tier)
    # 9. worlds of entries obtained in every way (parsed from every layout, constructed with every argument form, copies,
    #    subclasses), every live entry compared with its own reference dict after every step
    cases += world_cases(__import__("random").Random(rng.random()), tier)
    # 10. caller edits of the public objects (Field.key / Field.value setters, the list e.fields, the fields setter) BETWEEN
    #     mapping operations, above all the length-preserving ones, then lookups / writes of the new and the old key
    from props import c19_edit
    cases += c19_edit.edit_cases(__import__("random").Random(rng.random()), tier)
    # 11. arguments that ARE objects the entry already holds (the Field stored under the key / under another key / in
    #     another entry / popped earlier, its value object, the entry itself, the object of the call before) and equal
    #     copies of them, as the default of pop / get, the argument of set_field and the value of an item assignment
    from props import c19_ident
    cases += c19_ident.ident_cases(__import__("random").Random(rng.random()), tier, BIB)
    # 12. equality across the class hierarchy: every public model class against trivial subclasses (direct, second level,
    #     siblings, same name), the library's own sub- / super- / sibling classes, unrelated classes with the same __dict__,
    #     same-class copies; both operand orders, == and !=, in / index / count, the views the library hands out
    from props import c19_hier
    cases += c19_hier.hier_cases(__import__("random").Random(rng.random()), tier, __import__("sys").modules[__name__])
    return cases


# ------------------------------------------------------------------ large entries
# The property quantifies over all entries; nothing in it depends on the number of fields.  CPython does (small ints up
# to 256 are shared objects, larger ones are not; dicts and lists are re-allocated at size thresholds), so a handful of
# entries with 257 and more fields go through the same operations against the same reference dict.
# {"n": N, "via": "parsed" | "built"}: the entry @article{key, f0 = {v0}, ..., f<N-1> = {v<N-1>}} parsed without
# middlewares, or constructed from Field("f<i>", "v<i>" / the int i, line i + 1).
BIG_FIXED = [257, 300, 1000, 256, 258, 1025]          # always present; then sizes drawn from BIG_MORE / at random
BIG_MODEL_MAX = 300          # larger entries are not sent to the Coq model (big-ops stream), see impl_ops
BIG_MORE = [255, 259, 384, 511, 512, 513, 683, 1023, 1024, 1366, 2049]


def big_spec(n, via):
    return {"n": n, "via": via}


def big_entry(spec):
    from bibtexparser.model import Entry, Field
    n = spec["n"]
    if spec["via"] == "parsed":
        bib = "@article{key,\n" + "".join("  f%d = {v%d},\n" % (i, i) for i in range(n)) + "}\n"
        blocks = parsed_blocks(bib)
        assert len(blocks) == 1 and type(blocks[0]) is Entry and len(blocks[0].fields) == n, "generator: big entry did not parse"
        return blocks[0]
    return Entry("book", "big%d" % n, [Field("f%d" % i, ("v%d" % i) if i % 2 == 0 else i, i + 1) for i in range(n)], start_line=0, raw=None)


def big_keys(rng, n):
    """(keys present at the start, keys absent at the start) worth addressing in an entry f0 .. f<n-1>"""
    pos = sorted({i for i in (0, 1, n // 2, 254, 255, 256, 257, n - 2, n - 1, rng.randrange(max(n, 1))) if 0 <= i < n})
    present = ["f%d" % i for i in pos]
    absent = ["f%d" % n, "f%d" % (n + 1), "F0", "f", "f0 ", "zz", "a", "", "f%d" % (n + rng.randint(2, 2000))]
    return present, absent


def big_cases(rng, tier):
    cases = []
    quick = tier == "quick"
    sizes = list(BIG_FIXED) + rng.sample(BIG_MORE[:-2] if quick else BIG_MORE, 1 if quick else len(BIG_MORE))
    sizes += [rng.randint(259, 1200 if quick else 3000) for _ in range(1 if quick else 12)]
    # a. one entry, the seven operations, compared with the Coq model as well
    for rep in range(1 if quick else 4):
        for i, n in enumerate(sizes):
            present, absent = big_keys(rng, n)
            keys = present + absent
            ops = []
            for j in range(rng.randint(2, 8)):
                c = rng.choice([0, 1, 2, 3, 4, 5, 5, 6])
                ops.append(mk_op(c, rng.choice(keys), j))
            # every present key is probed before it may have been removed, every absent key before it may have been added
            ops = (probe_ops(rng.sample(present, 2) + rng.sample(absent, 2)) + ops
                   + probe_ops(present[-1:] + rng.sample(present[:-1], 3) + absent[:1] + rng.sample(absent[1:], 3)))
            cases.append({"stream": "big-ops", "input": {"big": big_spec(n, "parsed" if (i + rep) % 2 == 0 else "built"), "ops": ops}})
    # b. entries that grow and shrink across the thresholds, twins of large entries, Field objects moved between them
    for rep in range(1 if quick else 4):
        for i, n in enumerate(sizes):
            via = ("built", "parsed", "grown")[(i + rep) % 3]
            if via == "grown":
                start = rng.choice([0, 1, 250, 255, 256, n - 1 if n < 1200 else 1020])
                start = min(start, n)
                big = [big_spec(start, rng.choice(["built", "parsed"]))]
                steps = [["grow", 0, n - start, rng.choice(["set_field", "setitem", "mixed"])]]
                cur = n
            else:
                big = [big_spec(n, via)]
                steps = []
                cur = n
            ne = 1
            present, absent = big_keys(rng, n)
            keys = present + absent
            for j in range(rng.randint(3, 10)):
                p = rng.random()
                if p < 0.15:
                    cnt = rng.choice([1, 2, 3, 10, 45])
                    steps.append(["grow", rng.randrange(ne), cnt, rng.choice(["set_field", "setitem", "mixed"])])
                elif p < 0.3:
                    cnt = rng.choice([1, 2, 3, 10, 45, max(1, cur - 256), max(1, cur - 255)])
                    steps.append(["shrink", rng.randrange(ne), cnt, rng.choice(["pop-front", "pop-back", "del-front", "del-back", "pop-middle"])])
                elif p < 0.38 and ne < 3:
                    steps.append(["twin", rng.randrange(ne)])
                    ne += 1
                elif p < 0.48 and ne > 1:
                    t, s_ = rng.sample(range(ne), 2)
                    steps.append(["xfer", t, s_, rng.choice(keys)])
                else:
                    c = rng.choice([0, 1, 2, 3, 4, 5, 5, 6])
                    steps.append(["op", rng.randrange(ne), mk_op(c, rng.choice(keys), j)])
            cases.append({"stream": "big-multi", "input": {"multi": "big", "big": big, "absent": absent, "steps": steps}})
    return cases


# ------------------------------------------------------------------ several entries holding the same Field objects
# entry specs as in START; a field spec {"share": [i, j]} is the very Field object number j of (earlier) entry i.
# steps: ["op", target, op] one of the seven operations on entries[target]; ["twin", src] a new entry built from
# list(entries[src].fields) (equal, not identical, same Field objects); ["xfer", target, src, key]
# entries[target].set_field(entries[src].get(key)) when the key is present in entries[src].
SHARED_SETUPS = [
    ("twin", [START[1]], [["twin", 0]]),
    ("twin3", [START[2]], [["twin", 0]]),
    ("same-field", [START[1], {"type": "misc", "key": "k9", "fields": [["ab", "p", 7], {"share": [0, 0]}, {"share": [0, 1]}]}], []),
    ("xfer", [START[1], START[2]], [["xfer", 1, 0, "a"], ["xfer", 1, 0, "b"]]),
    ("xfer-new", [START[2], START[0]], [["xfer", 1, 0, "A"], ["xfer", 1, 0, "ab"]]),
]
MULTI_PARSED_POOL = ["author", "Title", "title", "year", "a", "A", "ab"]

# Field objects of unusual types.  A field spec / a set_field operation may carry a kind as last element; the object
# is then an instance of a subclass of Field (see field_class).  The reference of the property is a dict key -> object:
# a dict decides presence by the key alone and never asks a stored object for its truth value, length, equality or hash.
ODD_KINDS = ["sized", "false", "eqall", "eqnone", "strict"]
ODD_SETUPS = [
    ("odd-falsy", [{"type": "book", "key": "k2", "fields": [["a", {"list": []}, 1, "sized"], ["b", "y", 2], ["A", "q", 3, "false"]]}]),
    ("odd-eq", [{"type": "misc", "key": "k3", "fields": [["a", "x", 1, "eqall"], ["b", "y", 2, "eqall"], ["A", "x", 1, "eqnone"]]}]),
    ("odd-strict", [{"type": "article", "key": "k1", "fields": [["A", {"list": ["p"]}, 1, "sized"], ["a", "", 2, "strict"],
                                                                 ["b", {"int": 0}, 3]]}]),
]
ODD_VALS = [{"int": 0}, {"bool": False}, {"list": []}, "", None, "0", " "]


def odd_op(code, k, n, kind):
    op = mk_op(code, k, n)
    if code == O_SETFIELD and kind:
        if kind == "sized":
            op[2] = {"list": []} if n % 2 == 0 else {"list": ["x%d" % n]}
        op.append(kind)
    elif code == O_SETITEM and n % 2:
        op[2] = ODD_VALS[n % len(ODD_VALS)]
    return op


_FIELD_CLASSES = {}


def field_class(kind):
    """Field, or the subclass of Field named by kind."""
    from bibtexparser.model import Field
    if not _FIELD_CLASSES:
        def refuse(self, *a):
            raise TypeError("a mapping has no business asking a stored object for this")

        class SizedField(Field):
            """a list-valued field that is a sized container, like the value it wraps"""
            def __len__(self):
                return len(self.value) if hasattr(self.value, "__len__") else 0

            def __iter__(self):
                return iter(self.value)

        class FalseField(Field):
            def __bool__(self):
                return False

        class EqAllField(Field):
            def __eq__(self, other):
                return True

            def __ne__(self, other):
                return False

            def __hash__(self):
                return 0

        class EqNoneField(Field):
            def __eq__(self, other):
                return False

            def __ne__(self, other):
                return True

            __hash__ = None

        class StrictField(Field):
            __bool__ = __len__ = __eq__ = __ne__ = __hash__ = __iter__ = refuse

        _FIELD_CLASSES.update({None: Field, "plain": Field, "sized": SizedField, "false": FalseField, "eqall": EqAllField,
                               "eqnone": EqNoneField, "strict": StrictField})
    return _FIELD_CLASSES[kind]


def mk_field(spec):
    """[key, value, line] or [key, value, line, kind]"""
    return field_class(spec[3] if len(spec) > 3 else None)(spec[0], unjv(spec[1]), spec[2])


def multi_random(rng, tier, odd=False):
    cases = []
    quick = tier == "quick"
    vals = ["s", "", {"int": 3}, {"list": ["x", "y"]}, None, {"bool": True}, "\u00df"]
    if odd:
        vals = vals + ODD_VALS
    for i in range(300 if quick else 10000):
        parsed = i % 6 == 5
        if parsed:
            ne, pool = 2, MULTI_PARSED_POOL
            inp = {"multi": "parsed", "bib": BIB, "indexes": [0, 5]}
        else:
            ne, pool = rng.randint(1, 3), POOL
            ents, line = [], 0
            for j in range(ne):
                fs = []
                for k in rng.sample(POOL, rng.randint(0, 4)):
                    line += 1
                    src = [(a, b) for a in range(j) for b, f in enumerate(ents[a]["_keys"]) if f == k]
                    if src and rng.random() < 0.6:
                        fs.append({"share": list(rng.choice(src))})
                    else:
                        fs.append([k, rng.choice(vals), line])
                        if odd and rng.random() < 0.5:
                            fs[-1].append(rng.choice(ODD_KINDS))
                ents.append({"type": rng.choice(["article", "Book", ""]), "key": rng.choice(["k", "ID", "a"]), "fields": fs,
                             "_keys": [f[0] if isinstance(f, list) else ents[f["share"][0]]["_keys"][f["share"][1]] for f in fs]})
            for e in ents:
                del e["_keys"]
            inp = {"multi": "random", "entries": ents}
        steps = []
        for j in range(rng.randint(1, 25)):
            p = rng.random()
            if odd and rng.random() < 0.12:
                # the caller edits the list handed out by e.fields / assigns e.fields
                how = rng.choice(["append", "insert", "replace", "del", "reverse", "assign"])
                f = [rng.choice(pool + ["zz"]), rng.choice(vals), 300 + j] + ([rng.choice(ODD_KINDS)] if rng.random() < 0.5 else [])
                steps.append(["edit", rng.randrange(ne), how, f if how in ("append", "insert", "replace") else rng.randrange(6)])
            elif p < 0.12 and ne < 4:
                steps.append(["twin", rng.randrange(ne)])
                ne += 1
            elif p < 0.32 and ne > 1:
                t, s = rng.sample(range(ne), 2)
                steps.append(["xfer", t, s, rng.choice(pool)])
            else:
                c = rng.choice([0, 0, 1, 1, 1, 2, 2, 3, 3, 4, 5, 6])
                k = rng.choice(pool) if rng.random() < 0.95 else rng.choice(["zz", ""])
                op = mk_op(c, k, j)
                if c in (O_SETFIELD, O_SETITEM) and rng.random() < 0.3:
                    op[2] = rng.choice(vals)
                if odd and c == O_SETFIELD and rng.random() < 0.5:
                    op.append(rng.choice(ODD_KINDS))
                steps.append(["op", rng.randrange(ne), op])
        inp["steps"] = steps
        if odd:
            inp["multi"] = "odd-" + inp["multi"]
        cases.append({"stream": ("odd-" if odd else "multi-") + ("parsed" if parsed else "random"), "input": inp})
    return cases


# ------------------------------------------------------------------ worlds of entries obtained in every way
# The property speaks about "an entry"; how the entry came to be is not part of it.  An implementation may however make
# entries that were BUILT in a certain way share something the caller never sees (a list created once, a cached parse
# result, a class attribute): each of them alone is a perfect mapping, and a write to one shows up in another.  So the
# operations run in a session (a "world") of three and more entries obtained in every way the library offers:
#   ["parse", d, stack, into]   every entry of document d (see world_doc: every layout of an entry, incl. the field-less
#                               forms @t{k} and @t{k,}; several entries per document; other blocks in between); stack: "raw"
#                               parse_stack=[] | "default" the default stack | "copymw" the default stack in copy mode;
#                               into: None, or the number of an earlier parse call whose library is passed as library=
#                               (the same document may be parsed several times in a session: separate parse calls)
#   ["ctor", cls, spec, form]   cls(...) for Entry, uc.SubEntry, uc.CopyFieldsEntry; form = {"npos": how many leading
#                               arguments are positional, "omit": per parameter whether it is left out WHEN THE SIGNATURE
#                               OF THE TREE UNDER TEST GIVES IT A DEFAULT (inspected at run time), "sl", "raw"}
#   ["copy", i] ["deepcopy", i] ["as_sub", i] ["as_copyfields", i] ["twin", i]   from the live entry number i
# Births happen before the program ("births") and, in the world-births stream, also between its operations (a step
# ["birth", spec]).  Every entry has its own reference dict, filled at birth from what its text / arguments / source
# say; after EVERY step EVERY live entry is compared with its own dict (entry_vs_dict).  At the end every parse call and
# constructor call of the session is made once more: the newborn must again be what its text / arguments say.
WKEYS = ["a", "A", "b", "ab", "title", "Title", "year", "note", "x"]
WVALS = ["s", "", {"int": 3}, "ß", None]
W_TYPES = ["article", "Article", "BOOK", "inProceedings", "misc", "a", "x_1", "techreport"]
W_HWS = ["", "", "", " ", "\t", "  "]
W_WS = ["", "", " ", " ", "\n", "\n  ", "\t", "\r\n ", "  "]
W_GAP = ["\n", "\n\n", " ", "", "\r\n", "\t\n", "\n \n"]
W_INNER = ["v1", "On things", "a, b", "x = y", "{N}ested", "1999", "ß", "A {B} c", "k"]
W_OTHER = ['@string{s%s = "x"}', "@STRING{S%s = {y}}", '@preamble{"\\newcommand{\\x}{y}"}', "@comment{hello world}",
           "some free text", "% a remark", "@Comment{nothing, here = {x}}"]
W_FORMS = ["nocomma", "comma", "fields"]
W_STACKS = ["raw", "default", "copymw"]
W_CLASSES = ["Entry", "SubEntry", "CopyFieldsEntry"]
W_DERIVED = ["copy", "deepcopy", "as_sub", "as_copyfields", "twin"]


def world_entry_text(rng, key, form, names):
    """One entry in a random layout -> (text, spec).  spec["fields"]: [name, value text as written, value without its
    enclosing] in order."""
    typ = rng.choice(W_TYPES)
    buf = ["@", typ, rng.choice(W_HWS), "{", rng.choice(W_WS), key, rng.choice(W_WS)]
    fields = []
    if form == "nocomma":
        buf.append("}")
    elif form == "comma":
        buf += [",", rng.choice(W_WS), "}"]
    else:
        buf.append(",")
        for i, name in enumerate(names):
            inner = rng.choice(W_INNER)
            r = rng.random()
            if inner.isdigit() and r < 0.5:
                val = inner
            elif r < 0.75:
                val = "{" + inner + "}"
            else:
                val = '"' + inner + '"'
            buf += [rng.choice(W_WS), name, rng.choice(W_WS), "=", rng.choice(W_WS), val, rng.choice(W_WS)]
            fields.append([name, val, inner])
            if i < len(names) - 1 or rng.random() < 0.5:
                buf.append(",")
        if buf[-1] == ",":
            buf.append(rng.choice(W_WS))
        buf.append("}")
    return "".join(buf), {"type": typ, "key": key, "form": form, "fields": fields}


def world_doc(rng, keys, forms):
    """A document with one entry per key (forms[i]: its form), other blocks and free text in between."""
    parts, entries = [rng.choice(W_GAP)], []

    def other(tag):
        t = rng.choice(W_OTHER)
        return t % "".join(c for c in tag if c.isalnum()) if "%s" in t else t          # @string names are unique in a session
    for key, form in zip(keys, forms):
        if rng.random() < 0.25:
            parts += [other(key), "\n", rng.choice(W_GAP)]
        names = rng.sample(WKEYS, rng.randint(1, 3)) if form == "fields" else []
        text, spec = world_entry_text(rng, key, form, names)
        parts += [text, rng.choice(W_GAP)]
        entries.append(spec)
    if rng.random() < 0.2:
        parts += ["\n", other("z" + keys[-1]), rng.choice(W_GAP)]
    return {"text": "".join(parts), "entries": entries}


class WorldGen:
    """Book-keeping of the generator: documents, births, how many entries are alive and of which class."""

    def __init__(self, rng):
        self.rng = rng
        self.docs, self.births, self.steps = [], [], []
        self.classes = []          # class name of every live entry
        self.calls = []            # per parse call: (stack, set of documents in its library)
        self.nkey = 0
        self.line = 0

    def key(self):
        self.nkey += 1
        return "k%d%s" % (self.nkey, self.rng.choice(["", "", ":x", ".y", "-z", "_1", "2020"]))

    def new_doc(self, forms):
        self.docs.append(world_doc(self.rng, [self.key() for _ in forms], forms))
        return len(self.docs) - 1

    def parse(self, d, stack, into=None):
        if into is None:
            self.calls.append((stack, {d}))
        else:
            self.calls[into][1].add(d)
            self.calls.append(self.calls[into])
        self.classes += ["Entry"] * len(self.docs[d]["entries"])
        return ["parse", d, stack, into]

    def rand_parse(self):
        rng = self.rng
        # a document parsed before, once more (a separate call on the same text) - or a new document
        if self.docs and rng.random() < 0.2:
            return self.parse(rng.randrange(len(self.docs)), rng.choice(W_STACKS))
        n = rng.choice([1, 1, 2, 2, 3, 4])
        forms = [rng.choice(["nocomma", "nocomma", "comma", "comma", "fields", "fields", "fields"]) for _ in range(n)]
        d = self.new_doc(forms)
        raw_calls = [i for i, (st, _) in enumerate(self.calls) if st == "raw"]
        if raw_calls and rng.random() < 0.25:
            return self.parse(d, "raw", rng.choice(raw_calls))
        return self.parse(d, rng.choice(W_STACKS))

    def ctor(self, cls, nf, form):
        rng = self.rng
        fs = []
        for k in rng.sample(WKEYS, nf):
            self.line += 1
            fs.append([k, rng.choice(WVALS), self.line])
        self.classes.append(cls)
        return ["ctor", cls, {"type": rng.choice(W_TYPES), "key": self.key(), "fields": fs}, form]

    def rand_form(self):
        rng = self.rng
        return {"npos": rng.choice([0, 0, 2, 3, 5, rng.randint(0, 5)]), "omit": [rng.random() < 0.6 for _ in range(5)],
                "sl": rng.choice([None, 0, 7]), "raw": rng.choice([None, "", "@x{y}"])}

    def rand_ctor(self):
        rng = self.rng
        return self.ctor(rng.choice(W_CLASSES), rng.choice([0, 0, 0, 1, 2, 3]), self.rand_form())

    def derived(self, kind, src):
        cls = self.classes[src]
        if kind in ("as_sub", "as_copyfields") and cls != "Entry":
            kind = "twin"          # the helpers rebuild plain entries only
        self.classes.append({"as_sub": "SubEntry", "as_copyfields": "CopyFieldsEntry", "twin": "Entry"}.get(kind, cls))
        return [kind, src]

    def rand_birth(self):
        rng = self.rng
        p = rng.random()
        if p < 0.4 or not self.classes:
            return self.rand_parse()
        if p < 0.7:
            return self.rand_ctor()
        return self.derived(rng.choice(W_DERIVED), rng.randrange(len(self.classes)))

    def rand_op(self, j, keys=WKEYS):
        rng = self.rng
        ne = len(self.classes)
        if ne > 1 and rng.random() < 0.08:
            t, s = rng.sample(range(ne), 2)
            return ["xfer", t, s, rng.choice(keys)]
        c = rng.choice([0, 0, 0, 1, 1, 1, 1, 2, 2, 3, 3, 4, 5, 6])
        k = rng.choice(keys) if rng.random() < 0.95 else rng.choice(["zz", ""])
        op = mk_op(c, k, 500 + j)
        if c in (O_SETFIELD, O_SETITEM) and rng.random() < 0.4:
            op[2] = rng.choice(WVALS)
        return ["op", rng.randrange(ne), op]

    def case(self, stream):
        return {"stream": stream, "input": {"multi": "world", "world": stream, "docs": self.docs, "births": self.births,
                                            "steps": self.steps, "absent": WKEYS}}


def world_ways():
    """The catalogue of the exhaustive part: every way of obtaining an entry from nothing."""
    ways = [("parse", form, stack) for form in W_FORMS for stack in W_STACKS]
    ways += [("ctor", cls, nf, style) for cls in W_CLASSES for nf in (0, 2) for style in ("pos", "kw", "min")]
    return ways


def world_cases(rng, tier):
    """rng: the generator of this stream alone"""
    cases = []
    quick = tier == "quick"
    ways = world_ways()

    def born(g, way):
        if way[0] == "parse":
            return g.parse(g.new_doc([way[1]]), way[2])
        style = way[3]
        form = {"npos": {"pos": 5, "kw": 0, "min": rng.choice([0, 2])}[style],
                "omit": [style == "min"] * 5, "sl": rng.choice([None, 4]), "raw": rng.choice([None, "@r{}"])}
        return g.ctor(way[1], way[2], form)

    # a. every pair of ways (twice each: A, B, A, B - so two entries built the same way and two built differently are
    #    alive together), one derived entry, every entry written to, then a few random operations
    for rep in range(1 if quick else 4):
        for i, wa in enumerate(ways):
            for j, wb in enumerate(ways[i:]):
                g = WorldGen(rng)
                if wa[0] == wb[0] == "parse" and wa[2] == wb[2]:
                    # the same stack: both forms in ONE document, and a second such document in a later call
                    g.births = [g.parse(g.new_doc([wa[1], wb[1]]), wa[2]), g.parse(g.new_doc([wa[1], wb[1]]), wa[2])]
                else:
                    g.births = [born(g, wa), born(g, wb), born(g, wa), born(g, wb)]
                g.births.append(g.derived(W_DERIVED[(i + j + rep) % len(W_DERIVED)], rng.randrange(4)))
                ne = len(g.classes)
                order = list(range(ne))
                rng.shuffle(order)
                for n, t in enumerate(order):
                    op = mk_op(O_SETFIELD if (n + rep) % 2 else O_SETITEM, rng.choice(WKEYS), 400 + n)
                    g.steps.append(["op", t, op])
                for n in range(rng.randint(2, 6)):
                    g.steps.append(g.rand_op(n))
                cases.append(g.case("world-exh"))
    # b. random worlds, all births before the program (compared with Model/EntryObj.v as well unless a shallow copy is
    #    among the entries); c. births between the operations (Python oracle alone)
    for stream, n_cases in (("world-random", 500 if quick else 10000), ("world-births", 350 if quick else 7000)):
        for _ in range(n_cases):
            g = WorldGen(rng)
            while len(g.classes) < 3 or (len(g.classes) < 7 and rng.random() < 0.3):
                g.births.append(g.rand_birth())
            keys = WKEYS if rng.random() < 0.5 else rng.sample(WKEYS, 3)          # a small pool: keys collide more often
            for n in range(rng.randint(3, 14)):
                if stream == "world-births" and len(g.classes) < 10 and rng.random() < 0.22:
                    g.steps.append(["birth", g.rand_birth()])
                else:
                    g.steps.append(g.rand_op(n, keys))
            if stream == "world-births" and not any(st[0] == "birth" for st in g.steps):
                g.steps.append(["birth", g.rand_birth()])
                g.steps.append(g.rand_op(99, keys))
            cases.append(g.case(stream))
    return cases


# ------------------------------------------------------------------ equality cases
BLOCK_SPECS = [
    {"cls": "Entry", "type": "article", "key": "k", "fields": [["a", "x", 1], ["b", {"int": 2}, 2], ["c", {"list": ["p", "q"]}, None]],
     "sl": 3, "raw": "@article{k,...}", "meta": [["m1", "u"], ["m2", {"int": 1}]]},
    {"cls": "Entry", "type": "book", "key": "", "fields": [], "sl": None, "raw": None, "meta": []},
    {"cls": "Entry", "type": "misc", "key": "n", "fields": [["author", {"parts": [["J"], [], ["Smith"], []]}, 1], ["t", {"tuple": ["a", {"int": 1}]}, 2]],
     "sl": 0, "raw": "", "meta": []},
    {"cls": "String", "key": "me", "value": "My Name", "sl": 1, "raw": "@string{me = \"My Name\"}", "meta": []},
    {"cls": "String", "key": "n", "value": {"int": 5}, "sl": None, "raw": None, "meta": [["x", None]]},
    {"cls": "Preamble", "value": "pre", "sl": 2, "raw": "@preamble{pre}", "meta": []},
    {"cls": "ExplicitComment", "comment": "c", "sl": 4, "raw": "@comment{c}", "meta": [["k", "v"]]},
    {"cls": "ImplicitComment", "comment": "c", "sl": 4, "raw": "@comment{c}", "meta": [["k", "v"]]},
]
PERTURB_COMMON = ["start_line", "start_line_none", "raw", "raw_none", "meta_add", "meta_value", "meta_drop"]
PERTURB = {
    "Entry": ["key", "type", "field_value", "field_value_type", "field_key", "field_line", "field_drop", "field_add", "field_swap",
              "field_dup_last"],
    "String": ["key", "value", "value_type"],
    "Preamble": ["value"],
    "ExplicitComment": ["comment", "class_swap"],
    "ImplicitComment": ["comment", "class_swap"],
}
EQUAL_VARIANTS = ["copy", "deepcopy", "rebuild", "meta_reorder"]


def eq_cases(rng, tier):
    cases = []
    for bi, spec in enumerate(BLOCK_SPECS):
        for p in EQUAL_VARIANTS + PERTURB_COMMON + PERTURB[spec["cls"]]:
            for pos in ((0, 1, 2) if p.startswith("field") else (0,)):
                cases.append({"stream": "eq-built", "input": {"eq": "block", "spec": spec, "perturb": p, "pos": pos}})
    # pairs of different base blocks (several attributes / class differ)
    for i, a in enumerate(BLOCK_SPECS):
        for j, b in enumerate(BLOCK_SPECS):
            if i != j:
                cases.append({"stream": "eq-cross", "input": {"eq": "pair", "a": a, "b": b}})
    # parsed blocks
    for idx in range(6):
        for p in EQUAL_VARIANTS + PERTURB_COMMON + sum(PERTURB.values(), []):
            for pos in ((0, 1, 2) if p.startswith("field") else (0,)):
                cases.append({"stream": "eq-parsed", "input": {"eq": "block", "bib": BIB, "index": idx, "perturb": p, "pos": pos}})
    # fields
    fvals = ["x", "", {"int": 1}, {"int": 0}, None, {"list": ["x"]}, {"list": []}, {"tuple": ["x"]}, "1", {"parts": [["a"], [], ["b"], []]}]
    for v in fvals:
        base = ["k", v, 3]
        for p in ["copy", "deepcopy", "rebuild", "key", "key_case", "value", "line", "line_none"]:
            cases.append({"stream": "eq-field", "input": {"eq": "field", "field": base, "perturb": p}})
        for w in fvals:
            cases.append({"stream": "eq-field", "input": {"eq": "fieldpair", "a": base, "b": ["k", w, 3]}})
    # Python's numeric tower: 1 == True (recorded, model comparison only)
    for a, b in [({"int": 1}, {"bool": True}), ({"int": 0}, {"bool": False}), ({"int": 2}, {"bool": True}),
                 ({"list": [{"int": 1}]}, {"list": [{"bool": True}]})]:
        cases.append({"stream": "eq-quirk", "input": {"eq": "fieldpair", "a": ["k", a, 1], "b": ["k", b, 1], "no_oracle": True}})
    n = 100 if tier == "quick" else 3000
    for _ in range(n):
        spec = json.loads(json.dumps(rng.choice(BLOCK_SPECS)))
        plist = EQUAL_VARIANTS + PERTURB_COMMON + PERTURB[spec["cls"]]
        if spec["cls"] == "Entry":
            spec["fields"] = [[rng.choice(POOL), rng.choice(["x", {"int": 1}, None]), rng.choice([None, 1, 2])]
                              for _ in range(rng.randint(0, 4))]
        cases.append({"stream": "eq-random", "input": {"eq": "block", "spec": spec, "perturb": rng.choice(plist),
                                                        "pos": rng.randint(0, 3)}})
    return cases


# ------------------------------------------------------------------ JSON <-> Python values
def unjv(v):
    if isinstance(v, dict):
        if "int" in v:
            return v["int"]
        if "bool" in v:
            return v["bool"]
        if "list" in v:
            return [unjv(x) for x in v["list"]]
        if "tuple" in v:
            return tuple(unjv(x) for x in v["tuple"])
        if "parts" in v:
            from bibtexparser.middlewares.names import NameParts
            f, vo, la, jr = v["parts"]
            return NameParts(first=list(f), von=list(vo), last=list(la), jr=list(jr))
        if "dict" in v:
            return {k: unjv(x) for k, x in v["dict"]}
    return v


def build_entry(st):
    from bibtexparser.model import Entry, Field
    return Entry(st["type"], st["key"], [Field(k, unjv(v), ln) for k, v, ln in st["fields"]], start_line=0, raw=None)


def build_block(spec):
    from bibtexparser import model as M
    c = spec["cls"]
    if c == "Entry":
        b = M.Entry(spec["type"], spec["key"], [M.Field(k, unjv(v), ln) for k, v, ln in spec["fields"]], spec["sl"], spec["raw"])
    elif c == "String":
        b = M.String(spec["key"], unjv(spec["value"]), spec["sl"], spec["raw"])
    elif c == "Preamble":
        b = M.Preamble(spec["value"], spec["sl"], spec["raw"])
    elif c == "ExplicitComment":
        b = M.ExplicitComment(spec["comment"], spec["sl"], spec["raw"])
    else:
        b = M.ImplicitComment(spec["comment"], spec["sl"], spec["raw"])
    for k, v in spec["meta"]:
        b.set_parser_metadata(k, unjv(v))
    return b


def parsed_blocks(bib):
    import bibtexparser
    lib = bibtexparser.parse_string(bib, parse_stack=[])
    return lib.blocks


# ------------------------------------------------------------------ implementation + oracle: operation sequences
def enc_res(kind, x=None):
    import enc
    if kind == "none":
        return [0]
    if kind == "field":
        return [1, enc.enc_field(x)]
    if kind == "value":
        return [2, enc.enc_value(x)]
    if kind == "bool":
        return [3, int(x)]
    return [4, x]


def classify(r, Field):
    """result of a call -> wire form"""
    if r is None:
        return enc_res("none")
    if isinstance(r, Field):
        return enc_res("field", r)
    if isinstance(r, bool):
        return enc_res("bool", r)
    return enc_res("value", r)


def enc_views(e):
    import enc
    return [[enc.enc_field(f) for f in e.fields],
            [[enc.enc_str(k), enc.enc_field(f)] for k, f in e.fields_dict.items()],
            [[enc.enc_str(k), enc.enc_value(v)] for k, v in e.items()]]


def value_modelled(v):
    if isinstance(v, (list, tuple)):
        return all(value_modelled(x) for x in v)
    return v is None or isinstance(v, (str, int, bool)) or type(v).__name__ == "NameParts"


def same_value(a, b):
    """identical in type and content (stricter than ==: 1 is not True)"""
    if type(a) is not type(b):
        return False
    if isinstance(a, (list, tuple)):
        return len(a) == len(b) and all(same_value(x, y) for x, y in zip(a, b))
    return a == b


def impl_ops(case):
    import enc
    import implutil
    from bibtexparser.model import Entry, Field
    inp = case["input"]
    if "bib" in inp:
        blocks = parsed_blocks(inp["bib"])
        e = blocks[inp["index"] % len(blocks)]
        assert type(e) is Entry, "generator: parsed block %d is not an entry" % inp["index"]
    elif "big" in inp:
        e = big_entry(inp["big"])
    else:
        e = build_entry(inp["entry"])
    etype, ekey = e.entry_type, e.key
    init = list(e.fields)
    sx_ops, outs = [], []
    # ---- reference mapping of the property: an insertion-ordered dict key -> Field
    ref = {}
    init_keys = [f.key for f in init]
    hyp = len(set(init_keys)) == len(init_keys) and not any(k in RESERVED for k in init_keys)
    log = FieldLog()          # Field objects stored in / handed out by the entry keep their content (see FieldLog)
    for f in init:
        ref[f.key] = f
        log.see(f, "that the entry started with")
    ok, detail = True, ""
    interesting = False
    sx_in = [20, enc.enc_block(e), sx_ops]
    ops = inp["ops"]
    unmodelled = not all(value_modelled(f.value) for f in init)
    for n, op in enumerate(ops):
        code, k = op[0], op[1]
        exp = None           # ("none",) | ("obj", field) | ("newfield", k, v) | ("value", v) | ("bool", b) | ("exc", name)
        if code == O_SETFIELD:
            f = Field(k, unjv(op[2]), op[3])
            log.see(f, "passed to set_field in call %d" % n)
            unmodelled |= not value_modelled(f.value)
            sx_ops.append([0, enc.enc_field(f)])
            r = implutil.guarded(lambda: e.set_field(f))
            if k in RESERVED:
                hyp = False
            interesting |= k in ref
            ref[k] = f
            exp = ("none",)
        elif code == O_SETITEM:
            v = unjv(op[2])
            unmodelled |= not value_modelled(v)
            sx_ops.append([1, enc.enc_str(k), enc.enc_value(v)])

            def do_set():
                e[k] = v
            r = implutil.guarded(do_set)
            if k in RESERVED:
                hyp = False
            interesting |= k in ref
            ref[k] = ("new", k, v)
            exp = ("none",)
        elif code == O_POP:
            d = op[2]
            sx_ops.append([2, enc.enc_str(k), [] if d is None else [enc.enc_value(unjv(d["v"]))]])
            r = implutil.guarded((lambda: e.pop(k)) if d is None else (lambda: e.pop(k, unjv(d["v"]))))
            interesting |= k in ref
            got = ref.pop(k, None if d is None else ("dflt", unjv(d["v"])))
            exp = ("none",) if got is None else (got if isinstance(got, tuple) else ("obj", got))
        elif code == O_DEL:
            sx_ops.append([3, enc.enc_str(k)])

            def do_del():
                del e[k]
            r = implutil.guarded(do_del)
            interesting |= k in ref
            ref.pop(k, None)          # docstring: shorthand for pop -> an absent key is no error
            exp = ("none",)
        elif code == O_GET:
            d = op[2]
            sx_ops.append([4, enc.enc_str(k), [] if d is None else [enc.enc_value(unjv(d["v"]))]])
            r = implutil.guarded((lambda: e.get(k)) if d is None else (lambda: e.get(k, unjv(d["v"]))))
            got = ref.get(k, None if d is None else ("dflt", unjv(d["v"])))
            exp = ("none",) if got is None else (got if isinstance(got, tuple) else ("obj", got))
        elif code == O_IN:
            sx_ops.append([5, enc.enc_str(k)])
            r = implutil.guarded(lambda: k in e)
            exp = ("bool", k in ref)
        else:
            sx_ops.append([6, enc.enc_str(k)])
            r = implutil.guarded(lambda: e[k])
            if k == "ENTRYTYPE":
                exp = ("value", etype)
            elif k == "ID":
                exp = ("value", ekey)
            elif k in ref:
                x = ref[k]
                exp = ("value", x[2] if isinstance(x, tuple) else x.value)
            else:
                exp = ("exc", "KeyError")
        # ---- wire form of the result
        if r[0] == "exc":
            out = [enc_res("exc", r[1])]
        elif code == O_GETITEM:
            out = [enc_res("value", r[1])]          # e[k] returns a value (possibly None / a bool)
        else:
            out = [classify(r[1], Field)]
        last = n == len(ops) - 1
        if code in MUTATORS or last:
            out += enc_views(e)
        outs.append(out)
        # ---- oracle
        if not ok:
            continue
        reserved_lookup = code == O_GETITEM and k in RESERVED
        if not (hyp or reserved_lookup):
            continue
        where = "call %d %r: " % (n, op)
        if r[0] == "exc":
            if not (exp[0] == "exc" and exp[1] == r[2]):
                ok, detail = False, where + "raised %s, the mapping gives %r" % (r[2], exp)
        else:
            got = r[1]
            if exp[0] == "none":
                good = got is None
            elif exp[0] == "exc":
                good = False
            elif exp[0] == "bool":
                good = got is exp[1]
            elif exp[0] == "value":
                good = same_value(got, exp[1])
            elif exp[0] == "dflt":
                good = same_value(got, exp[1])
            elif exp[0] == "new":
                good = isinstance(got, Field) and got.key == exp[1] and same_value(got.value, exp[2])
            else:
                good = got is exp[1]
            if not good:
                ok, detail = False, where + "returned %r, the mapping gives %r" % (got, exp)
        if ok and hyp:
            # the three views describe the reference mapping, in its order
            fs = e.fields
            want = list(ref.values())
            if len(fs) != len(want) or not all((f is w) if not isinstance(w, tuple) else
                                               (f.key == w[1] and same_value(f.value, w[2])) for f, w in zip(fs, want)):
                ok, detail = False, where + "fields are %r, the mapping holds %r" % (brief([(f.key, f.value) for f in fs]), brief(ref))
            else:
                fd = e.fields_dict
                if list(fd.keys()) != [f.key for f in fs] or not all(a is b for a, b in zip(fd.values(), fs)):
                    ok, detail = False, where + "fields_dict %r does not list the fields %r" % (brief(fd), brief([f.key for f in fs]))
                its = e.items()
                wi = [("ENTRYTYPE", etype), ("ID", ekey)] + [(f.key, f.value) for f in fs]
                if len(its) != len(wi) or not all(a[0] == b[0] and a[1] is b[1] for a, b in zip(its, wi)):
                    ok, detail = False, where + "items() %r does not list the fields" % (brief(its),)
            if ok and (code in MUTATORS or last):
                msg = log.altered()
                if msg:
                    ok, detail = False, where + msg
    rec = {"sx_in": sx_in, "sx_out": implutil.r_ok(outs), "oracle": {"ok": ok, "detail": detail},
           "key": json.dumps(inp, sort_keys=True), "nontrivial": bool(interesting),
           "tags": ["ops", "hyp" if hyp else "outside-hypothesis"] + (["ops:more-than-256-fields"] if len(init) > 256 else []),
           "summary": repr([(f.key, f.value) for f in e.fields])[:200]}
    if unmodelled:
        rec["skip"] = True
    if len(init) > BIG_MODEL_MAX:
        # the extracted model needs seconds for entries of this size: judged by the Python oracle alone
        rec["sx_in"] = rec["sx_out"] = None
        rec.pop("skip", None)
    return rec


# ------------------------------------------------------------------ implementation + oracle: shared Field objects
class FieldLog:
    """Every Field object the harness has stored in an entry or received from one, with the content it had when first
    seen.  The reference mappings of the oracle are dicts key -> Field object; no operation on a dict alters an object
    stored in it (or stored earlier, or stored in another dict as well), so the content must stay what it was."""

    def __init__(self):
        self.seen = {}

    def see(self, f, origin):
        import copy
        if id(f) not in self.seen:
            self.seen[id(f)] = (f, f.key, copy.deepcopy(f.value), f.start_line, origin)

    def content(self, f):
        return self.seen[id(f)][1:4]

    def intact(self, f):
        _, k, v, ln, _ = self.seen[id(f)]
        return type(f.key) is type(k) and f.key == k and same_value(f.value, v) and f.start_line == ln

    def altered(self):
        for f, k, v, ln, origin in self.seen.values():
            if not self.intact(f):
                return "the Field object %s was (%r, %r, line %r) and now reads (%r, %r, line %r)" % (
                    origin, k, v, ln, f.key, f.value, f.start_line)
        return None


FIVE = ("the default handed to get",)


def brief(xs):
    """a long list shortened for a complaint"""
    xs = list(xs)
    return xs if len(xs) <= 16 else xs[:5] + ["... %d more ..." % (len(xs) - 10)] + xs[-5:]


def entry_vs_dict(e, ref, log, etype, ekey, Field, absent):
    """Everything entry e reports equals what its reference dict ref (key -> Field object) holds; None or a complaint."""
    fs = e.fields
    want = list(ref.values())
    shown = [(f.key, f.value) if isinstance(f, Field) else f for f in fs]
    held = [log.content(w)[:2] for w in want]
    if len(fs) != len(want) or not all(f is w for f, w in zip(fs, want)):
        return "fields are %r, the mapping holds %r%s" % (brief(shown), brief(held),
                                                        " (other Field objects than the ones stored)" if shown == held else "")
    if not all(log.intact(f) for f in fs):
        return "fields read %r, the mapping holds %r" % (brief(shown), brief(held))
    fd = e.fields_dict
    if list(fd.keys()) != list(ref.keys()) or not all(a is b for a, b in zip(fd.values(), want)):
        return "fields_dict %r, the mapping holds %r" % (brief([(k, f.value) for k, f in fd.items()]), brief(held))
    its = e.items()
    wi = [("ENTRYTYPE", etype), ("ID", ekey)] + held
    if len(its) != len(wi) or not all(type(a) is tuple and len(a) == 2 and a[0] == b[0] and same_value(a[1], b[1])
                                      for a, b in zip(its, wi)):
        return "items() %r, the mapping gives %r" % (brief(its), brief(wi))
    ks = list(ref)
    if len(ks) > 48:
        # large mapping: the views above were compared in full; the keyed accessors are asked about the keys at both
        # ends, in the middle, around position 256 and about every key an operation of the case addresses
        n = len(ks)
        at = {i for i in (0, n // 2, 255, 256, 257, n - 2, n - 1) if 0 <= i < n}
        ks = [k for i, k in enumerate(ks) if i in at] + [k for k in absent if k in ref]
    for k in ks:
        w = ref[k]
        if e.get(k, FIVE) is not w or (len(ks) == len(ref) and e.get(k) is not w):
            return "get(%r) returned %r, the mapping holds %r" % (k, e.get(k), log.content(w))
        if k not in e:
            return "%r in entry is false, the mapping holds %r" % (k, log.content(w))
        if not same_value(e[k], log.content(w)[1]):
            return "[%r] is %r, the mapping holds %r" % (k, e[k], log.content(w))
    large = len(ref) > 48
    for k in absent:
        if k not in ref and (k in e or e.get(k, FIVE) is not FIVE or (
                not large and (e.get(k) is not None or not same_value(e.get(k, 0), 0)))):
            return "%r is reported present (in: %r, get: %r), the mapping does not hold it" % (k, k in e, e.get(k))
    if e["ENTRYTYPE"] != etype or e["ID"] != ekey:
        return "ENTRYTYPE/ID lookups give %r/%r, the entry has %r/%r" % (e["ENTRYTYPE"], e["ID"], etype, ekey)
    return None


_SIGNATURES = {}


class World:
    """The live entries of a world case (see world_cases) with their reference dicts; birth() obtains new ones."""

    def __init__(self, inp, log, entries, refs, heads):
        self.inp, self.log = inp, log
        self.entries, self.refs, self.heads = entries, refs, heads
        self.libs = []          # per parse call: the library it returned
        self.group = {}         # entry number -> alias group (shallow copies share the field list of their source)
        self.sig = {}           # entry number -> how it was built
        self.tags = set()
        self.again = []         # parse / constructor births of the session, repeated by epilogue()
        self.same_way_written = False

    # ---- helpers
    def _add(self, e, ref, head, sig, group=None):
        n = len(self.entries)
        self.entries.append(e)
        self.refs.append(ref)
        self.heads.append(head)
        self.sig[n] = sig
        self.group[n] = ("solo", n) if group is None else group
        return n

    def _parse(self, d, stack, library):
        import bibtexparser
        from bibtexparser.middlewares.parsestack import default_parse_stack
        text = self.inp["docs"][d]["text"]
        kw = {}
        if stack == "raw":
            kw["parse_stack"] = []
        elif stack == "copymw":
            kw["parse_stack"] = default_parse_stack(allow_inplace_modification=False)
        if library is not None:
            kw["library"] = library
        return bibtexparser.parse_string(text, **kw)

    def _newborn_parsed(self, e, spec, stack, d):
        """None, or what is wrong with the entry e just parsed from the text described by spec"""
        from bibtexparser.model import Entry, Field
        text = self.inp["docs"][d]["text"]
        if type(e) is not Entry or e.key != spec["key"]:
            return "document %r: expected the entry `%s`, got %r" % (text, spec["key"], e)
        fs = e.fields
        want = [(f[0], f[1] if stack == "raw" else f[2]) for f in spec["fields"]]
        got = [(f.key, f.value) if isinstance(f, Field) else f for f in fs] if isinstance(fs, list) else fs
        if got != want:
            return ("the entry `%s` parsed (%s stack) from %r starts with the fields %r; its text names %r (an entry just "
                    "parsed holds what its own text says, whatever was done to other entries before)" % (
                        spec["key"], stack, text, brief(got), want))
        return None

    def _ctor(self, cls_name, spec, form, fields):
        """-> (entry, names of the parameters left out) or (None, why)"""
        import inspect
        from props import userclasses
        from bibtexparser.model import Entry
        uc = userclasses.get()
        cls = {"Entry": Entry, "SubEntry": uc.SubEntry, "CopyFieldsEntry": uc.CopyFieldsEntry}[cls_name]
        vals = {"entry_type": spec["type"], "key": spec["key"], "fields": fields, "start_line": form["sl"], "raw": form["raw"]}
        args, kwargs, omitted, positional = [], {}, [], True
        P = inspect.Parameter
        if cls not in _SIGNATURES:          # read off the class of the tree under test, once per process
            _SIGNATURES[cls] = list(inspect.signature(cls).parameters.values())
        for i, p in enumerate(_SIGNATURES[cls]):
            if p.kind in (P.VAR_POSITIONAL, P.VAR_KEYWORD):
                continue
            optional = p.default is not P.empty
            if p.name not in vals:
                if not optional:
                    return None, "parameter %r of %s is not one the generator knows" % (p.name, cls_name)
                omitted.append(p.name)
                positional = False
            elif optional and form["omit"][i % len(form["omit"])]:
                omitted.append(p.name)
                positional = False
            elif positional and i < form["npos"] and p.kind in (P.POSITIONAL_ONLY, P.POSITIONAL_OR_KEYWORD):
                args.append(vals[p.name])
            elif p.kind == P.POSITIONAL_ONLY:
                return None, "positional-only parameter %r after an omitted one" % p.name
            else:
                kwargs[p.name] = vals[p.name]
                positional = False
        self.tags.add("world:ctor-" + ("positional" if not kwargs else "keyword" if not args else "mixed"))
        for name in omitted:
            self.tags.add("world:ctor-omitted-" + name)
        return cls(*args, **kwargs), omitted

    def _newborn_ctor(self, e, cls_name, spec, fields, omitted):
        from bibtexparser.model import Field
        want = [] if "fields" in omitted else fields
        fs = e.fields
        if not isinstance(fs, list) or len(fs) != len(want) or not all(a is b for a, b in zip(fs, want)):
            got = [(f.key, f.value) if isinstance(f, Field) else f for f in fs] if isinstance(fs, list) else fs
            return ("%s(%r, %r, %s) starts with the fields %r (an entry just constructed holds the fields it was given, "
                    "whatever was done to other entries before)" % (
                        cls_name, spec["type"], spec["key"], "no fields argument" if "fields" in omitted else
                        "fields=%r" % [(f.key, f.value) for f in fields], brief(got)))
        return None

    # ---- births
    def birth(self, b, replay=False):
        """Obtain the entries described by b; None or a complaint."""
        import copy
        import implutil
        from props import userclasses
        from bibtexparser.model import Entry
        kind = b[0]
        if kind == "parse":
            _, d, stack, into = b
            doc = self.inp["docs"][d]
            into = into if into is not None and into < len(self.libs) else None
            before = set(id(x) for x in self.libs[into].blocks) if into is not None else set()
            r = implutil.guarded(lambda: self._parse(d, stack, self.libs[into] if into is not None else None))
            if r[0] == "exc":
                return "parsing %r raised %s" % (doc["text"], r[2])
            lib = r[1]
            self.libs.append(lib)
            new = [x for x in lib.entries if id(x) not in before]
            if len(new) != len(doc["entries"]) or lib.failed_blocks:
                return "document %r with %d entries gave the entries %r and the failed blocks %r" % (
                    doc["text"], len(doc["entries"]), new, lib.failed_blocks)
            self.tags.add("world:parse-stack-" + stack)
            if into is not None:
                self.tags.add("world:parse-into-earlier-library")
            if any(a[0] == "parse" and a[1] == d for a in self.again):
                self.tags.add("world:parse-same-text-again")
            self.again.append(b)
            for e, spec in zip(new, doc["entries"]):
                msg = self._newborn_parsed(e, spec, stack, d)
                if msg:
                    return msg
                for f in e.fields:
                    self.log.see(f, "that the parsed entry `%s` started with" % spec["key"])
                self.tags.add("world:parse-" + spec["form"])
                self._add(e, {f.key: f for f in e.fields}, (e.entry_type, e.key), "parse:" + spec["form"])
            return None
        if kind == "ctor":
            _, cls_name, spec, form = b
            fields = [mk_field(f) for f in spec["fields"]]
            r = implutil.guarded(lambda: self._ctor(cls_name, spec, form, list(fields)))
            if r[0] == "exc":
                return "constructing %s with arguments its signature accepts raised %s" % (cls_name, r[2])
            e, omitted = r[1]
            if e is None:
                self.tags.add("world:ctor-signature-not-understood")
                return None
            msg = self._newborn_ctor(e, cls_name, spec, fields, omitted)
            if msg:
                return msg
            self.again.append(b)
            self.tags.add("world:ctor-" + cls_name)
            live = [] if "fields" in omitted else fields
            for f in live:
                self.log.see(f, "that the constructed entry `%s` started with" % spec["key"])
            self._add(e, {f.key: f for f in live}, (spec["type"], spec["key"]),
                      "ctor:%s:%s" % (cls_name, "omitted" if "fields" in omitted else "given" if live else "empty"))
            return None
        # ---- from a live entry
        s = b[1] % len(self.entries)
        src, ref = self.entries[s], self.refs[s]
        uc = userclasses.get()
        if kind in ("as_sub", "as_copyfields") and type(src) is not Entry:
            kind = "twin"
        self.tags.add("world:" + kind)
        if kind == "copy":
            c = copy.copy(src)
            if type(c) is not type(src) or c is src or not (c == src and src == c) or c != src:
                return "copy.copy of entry %d does not compare equal to it (or is not a new object of its class)" % s
            self._add(c, dict(ref), self.heads[s], "copy", self.group[s])
            return None
        if kind == "deepcopy":
            c = copy.deepcopy(src)
            if type(c) is not type(src) or c is src or not (c == src and src == c) or c != src:
                return "copy.deepcopy of entry %d does not compare equal to it (or is not a new object of its class)" % s
            fs = c.fields
            if [(f.key, f.value) for f in fs] != [self.log.content(w)[:2] for w in ref.values()]:
                return "copy.deepcopy of entry %d shows the fields %r, the mapping of the original holds %r" % (
                    s, brief([(f.key, f.value) for f in fs]), brief([self.log.content(w)[:2] for w in ref.values()]))
            for f in fs:
                self.log.see(f, "of the deep copy of entry %d" % s)
            self._add(c, {f.key: f for f in fs}, self.heads[s], "deepcopy")
            return None
        if kind == "as_sub":
            c = uc.as_sub(src)
        elif kind == "as_copyfields":
            c = uc.as_copyfields(src)
        else:
            c = Entry(src.entry_type, src.key, list(src.fields), src.start_line, src.raw)
        self._add(c, dict(ref), self.heads[s], kind)
        return None

    # ---- during the program
    def note_write(self, t, k):
        """entry t is about to get the new key k"""
        if k not in self.refs[t] and any(self.sig.get(j) == self.sig.get(t) for j in range(len(self.entries)) if j != t):
            self.same_way_written = True

    def after_mutation(self, t):
        """Shallow copies hold the very field list of their source (copy.copy copies attributes, not what they refer to):
        what a write through one of them does to the others is Python's business, not the property's.  Their reference
        dicts are re-read from e.fields (the convention of the `edit` steps): the views must still agree with each other."""
        for j in range(len(self.entries)):
            if j != t and self.group.get(j, ("solo", j)) == self.group.get(t, ("solo", t)):
                now = self.entries[j].fields
                for x in now:
                    self.log.see(x, "listed by the shallow copy / original number %d" % j)
                self.refs[j] = {x.key: x for x in now}

    def epilogue(self):
        """Every parse call and constructor call of the session once more: the newborn is what its text / arguments say."""
        import implutil
        for b in self.again:
            if b[0] == "parse":
                _, d, stack, _ = b
                doc = self.inp["docs"][d]
                r = implutil.guarded(lambda: self._parse(d, stack, None))
                if r[0] == "exc":
                    return "parsing %r again at the end of the session raised %s" % (doc["text"], r[2])
                new = list(r[1].entries)
                if len(new) != len(doc["entries"]):
                    return "document %r parsed again at the end of the session gave the entries %r" % (doc["text"], new)
                for e, spec in zip(new, doc["entries"]):
                    msg = self._newborn_parsed(e, spec, stack, d)
                    if msg:
                        return "parsed again at the end of the session: " + msg
            else:
                _, cls_name, spec, form = b
                fields = [mk_field(f) for f in spec["fields"]]
                r = implutil.guarded(lambda: self._ctor(cls_name, spec, form, list(fields)))
                if r[0] == "exc":
                    return "constructing %s again at the end of the session raised %s" % (cls_name, r[2])
                e, omitted = r[1]
                msg = self._newborn_ctor(e, cls_name, spec, fields, omitted)
                if msg:
                    return "constructed again at the end of the session: " + msg
        return None


def world_model_steps(inp):
    """The program of a world case in the vocabulary of obj_run, or None if op 25 cannot express it."""
    if any(b[0] == "copy" for b in inp["births"]):
        return None          # a shallow copy shares the field list itself; the model's entries each have their own
    out = []
    for st in inp["steps"]:
        if st[0] == "xfer":
            out.append(["xfer", st[1], st[2], st[3]])
        elif st[0] == "op":
            t, op = st[1], st[2]
            code, k = op[0], op[1]
            if code == O_SETFIELD:
                out.append(["new", t, k, unjv(op[2]), op[3]])
            elif code == O_SETITEM:
                out.append(["setitem", t, k, unjv(op[2])])
            elif code in (O_POP, O_GET):
                out.append(["pop" if code == O_POP else "get", t, k, None if op[2] is None else unjv(op[2]["v"])])
            elif code == O_DEL:
                out.append(["del", t, k])
            elif code == O_IN:
                out.append(["in", t, k])
            else:
                out.append(["getitem", t, k])
        else:
            return None
    return out


def impl_world(case):
    """Python oracle on the session (impl_multi); then, where op 25 can express the case, the same births and program on
    fresh objects, recorded for the comparison with Model/EntryObj.v."""
    rec = impl_multi(case)
    inp = case["input"]
    steps = world_model_steps(inp) if rec["oracle"]["ok"] else None
    if steps is None:
        return rec
    entries = []
    w = World(inp, FieldLog(), entries, [], [])
    for b in inp["births"]:
        msg = w.birth(b)
        if msg:
            rec["oracle"] = {"ok": False, "detail": "the births of this world made a second time in the same process: " + msg}
            return rec
    objs, seen = [], set()
    for e in entries:
        for f in e.fields:
            if id(f) not in seen:
                seen.add(id(f))
                objs.append(f)
    n = len(entries)
    steps = [[st[0], st[1] % n] + ([st[2] % n] if st[0] == "xfer" else [st[2]]) + st[3:] for st in steps]
    r = obj_run(entries, objs, steps)
    rec["sx_in"], rec["sx_out"] = r["sx_in"], r["sx_out"]
    if not r["oracle"]["ok"]:
        rec["oracle"] = r["oracle"]
    rec["tags"] = rec["tags"] + ["world:compared-with-model"]
    return rec


def impl_multi(case):
    import implutil
    from bibtexparser.model import Entry, Field
    inp = case["input"]
    log = FieldLog()
    entries = []
    refs, heads = [], []
    world, birth_msg = None, None
    if "world" in inp:
        world = World(inp, log, entries, refs, heads)
        for b in inp["births"]:
            birth_msg = world.birth(b)
            if birth_msg:
                break
    elif "bib" in inp:
        blocks = parsed_blocks(inp["bib"])
        for ix in inp["indexes"]:
            e = blocks[ix % len(blocks)]
            assert type(e) is Entry, "generator: parsed block %d is not an entry" % ix
            entries.append(e)
    elif "big" in inp:
        entries = [big_entry(sp) for sp in inp["big"]]
    else:
        built = []
        for st in inp["entries"]:
            fs = [built[x["share"][0]][x["share"][1]] if isinstance(x, dict) else mk_field(x) for x in st["fields"]]
            built.append(list(fs))
            entries.append(Entry(st["type"], st["key"], fs, start_line=0, raw=None))
    for i, e in enumerate(entries if world is None else []):
        keys = [f.key for f in e.fields]
        assert len(set(keys)) == len(keys) and not any(k in RESERVED for k in keys), "generator: start entry outside the hypothesis"
        for f in e.fields:
            log.see(f, "that entry %d started with" % i)
        refs.append({f.key: f for f in e.fields})
        heads.append((e.entry_type, e.key))
    ok, detail = True, ""
    shared_hit = False
    odd_hit = False          # an operation addressed a key bound to an object of a Field subclass / the caller edited e.fields
    big_hit = False          # an entry with more than 256 fields was operated on
    absent = sorted(set(POOL + ["zz"] + inp.get("absent", [])
                        + [st[2][1] if st[0] == "op" else st[3] for st in inp["steps"] if st[0] in ("op", "xfer")]))
    tags = ["multi", "multi:" + inp["multi"]]

    def fail(n, step, msg):
        return False, "%sstep %d %r of %r: %s" % ("births %r, " % (inp["births"],) if world else "", n, step, inp["steps"], msg)

    def others_hold(t, k):
        return k in refs[t] and any(refs[t][k] is w for j, r in enumerate(refs) if j != t for w in r.values())

    if birth_msg:
        ok, detail = False, "births %r: %s" % (inp["births"], birth_msg)
    for n, step in enumerate(inp["steps"] if ok and entries else []):
        acted = None
        if step[0] == "birth":
            world.tags.add("world:birth-between-operations")
            msg = world.birth(step[1])
            if msg:
                ok, detail = fail(n, step, msg)
                break
        elif step[0] == "twin":
            s = step[1] % len(entries)
            src = entries[s]
            entries.append(Entry(src.entry_type, src.key, list(src.fields), src.start_line, src.raw))
            refs.append(dict(refs[s]))
            heads.append(heads[s])
        elif step[0] == "xfer":
            t, s, k = step[1] % len(entries), step[2] % len(entries), step[3]
            r = implutil.guarded(lambda: entries[s].get(k))
            if r[0] == "exc" or r[1] is not refs[s].get(k):
                ok, detail = fail(n, step, "entry %d: get(%r) gave %r, the mapping gives %r" % (s, k, r[-1], refs[s].get(k)))
                break
            if r[1] is not None and t != s:
                acted = t
                f = r[1]
                shared_hit |= others_hold(t, k)
                if world:
                    world.note_write(t, k)
                r = implutil.guarded(lambda: entries[t].set_field(f))
                if r[0] == "exc" or r[1] is not None:
                    ok, detail = fail(n, step, "entry %d: set_field gave %r" % (t, r[-1]))
                    break
                refs[t][k] = f
        elif step[0] in ("grow", "shrink"):
            # many additions of new keys / removals of present keys in a row, each one with the membership, get and
            # length the reference dict shows before and after; the full comparison follows below, after the last one
            t, cnt, how = step[1] % len(entries), step[2], step[3]
            acted = t
            e, ref = entries[t], refs[t]
            msg = None
            for i in range(cnt):
                # the questions before and after are asked for the first and last few, around 256 / 512 / 1024 fields
                # and for every 29th; the others are just added / removed (the full comparison below sees them all)
                sz = len(ref)
                ask = i < 3 or cnt - i <= 3 or i % 29 == 0 or any(abs(sz - m) <= 4 for m in (0, 256, 512, 1024, 2048))
                if step[0] == "grow":
                    k = "g%d_%d" % (n, i)
                    f = Field(k, "n%d" % i if i % 3 else i, 1000 * (n + 1) + i)
                    by_field = how == "set_field" or (how == "mixed" and i % 2 == 0)
                    if by_field:
                        log.see(f, "passed to set_field in step %d (addition %d)" % (n, i))

                    def do_add():
                        before = (k in e, e.get(k), e.get(k, FIVE)) if ask else (False, None, FIVE)
                        if by_field:
                            e.set_field(f)
                        else:
                            e[k] = f.value
                        fs = e.fields
                        return before, ((k in e, e.get(k), len(fs)) if ask else (True, fs[-1] if fs else None, len(fs)))
                    r = implutil.guarded(do_add)
                    if r[0] == "exc":
                        msg = "adding %r raised %s" % (k, r[2])
                        break
                    before, after = r[1]
                    if before[0] is not False or before[1] is not None or before[2] is not FIVE:
                        msg = "before %r was added to the %d fields: in -> %r, get -> %r, get with default -> %r; the mapping does not hold the key" % (
                            k, len(ref), before[0], before[1], before[2])
                        break
                    g = after[1]
                    if after[0] is not True or after[2] != len(ref) + 1 or not (
                            (g is f) if by_field else (isinstance(g, Field) and g.key == k and same_value(g.value, f.value))):
                        msg = "after %r was added to the %d fields: in -> %r, get -> %r, %d fields" % (k, len(ref), after[0], g, after[2])
                        break
                    log.see(g, "created by the item assignment of step %d (addition %d)" % (n, i))
                    ref[k] = g
                else:
                    if not ref:
                        break
                    ks = list(ref)
                    k = ks[0] if how.endswith("front") else ks[-1] if how.endswith("back") else ks[len(ks) // 2]
                    w = ref[k]

                    def do_remove():
                        before = (k in e, e.get(k)) if ask else (True, w)
                        if how.startswith("pop"):
                            got = e.pop(k, FIVE)
                        else:
                            del e[k]
                            got = w
                        return before, got, ((k in e, e.get(k), e.get(k, FIVE)) if ask else (False, None, FIVE)) + (len(e.fields),)
                    r = implutil.guarded(do_remove)
                    if r[0] == "exc":
                        msg = "removing %r raised %s" % (k, r[2])
                        break
                    before, got, after = r[1]
                    if before[0] is not True or before[1] is not w:
                        msg = "before %r was removed from the %d fields: in -> %r, get -> %r; the mapping holds the key" % (
                            k, len(ref), before[0], before[1])
                        break
                    if got is not w or after[0] is not False or after[1] is not None or after[2] is not FIVE or after[3] != len(ref) - 1:
                        msg = "removing %r from the %d fields gave %r; afterwards in -> %r, get -> %r, %d fields" % (
                            k, len(ref), got, after[0], after[1], after[3])
                        break
                    del ref[k]
            if msg:
                ok, detail = fail(n, step, "entry %d: %s" % (t, msg))
                break
        elif step[0] == "edit":
            # the caller edits the list e.fields handed out (or assigns e.fields).  What such an edit does to the entry
            # is not the property's business; that fields, fields_dict, items(), get, in and [] afterwards all describe
            # the same fields - those e.fields shows - is: the reference dict is re-read from e.fields and compared below
            t, how = step[1] % len(entries), step[2]
            acted = t
            e = entries[t]
            fs = e.fields
            if how in ("append", "insert"):
                f = mk_field(step[3])
                if f.key not in [x.key for x in fs] and f.key not in RESERVED:
                    log.see(f, "put into the list e.fields by the caller in step %d" % n)
                    fs.insert(len(fs) if how == "append" else 0, f)
            elif how == "replace":          # fs[i] = a field with another key (or the same one), the length stays
                f = mk_field(step[3])
                i = f.start_line % len(fs) if fs else 0
                if fs and f.key not in [x.key for x in fs[:i] + fs[i + 1:]] and f.key not in RESERVED:
                    log.see(f, "put into the list e.fields by the caller in step %d" % n)
                    fs[i] = f
            elif how == "del":
                if fs:
                    del fs[step[3] % len(fs)]
            elif how == "reverse":
                fs.reverse()
            else:
                e.fields = fs[1:] + fs[:1]
            now = e.fields
            keys = [x.key for x in now] if isinstance(now, list) and all(isinstance(x, Field) for x in now) else None
            if keys is None or len(set(keys)) != len(keys) or any(k in RESERVED for k in keys):
                break          # outside the hypothesis of the property (distinct, non-reserved keys): nothing to say
            for x in now:
                log.see(x, "listed by e.fields after the caller's edit in step %d" % n)
            refs[t] = {x.key: x for x in now}
            odd_hit = True
        else:
            t, op = step[1] % len(entries), step[2]
            acted = t
            e, ref = entries[t], refs[t]
            code, k = op[0], op[1]
            assert k not in RESERVED, "generator: reserved key"
            if code in MUTATORS:
                shared_hit |= others_hold(t, k)
                if world and code in (O_SETFIELD, O_SETITEM):
                    world.note_write(t, k)
            odd_hit |= k in ref and type(ref[k]) is not Field
            if code == O_SETFIELD:
                f = mk_field(op[1:])
                log.see(f, "passed to set_field in step %d" % n)
                r = implutil.guarded(lambda: e.set_field(f))
                ref[k] = f
                good = r[0] == "ok" and r[1] is None
            elif code == O_SETITEM:
                v = unjv(op[2])

                def do_set():
                    e[k] = v
                r = implutil.guarded(do_set)
                good = r[0] == "ok" and r[1] is None
                if good:
                    # the mapping now binds k (old position, or at the end) to a field (k, v); which object that is,
                    # is the implementation's business - if it is one seen before, that one must not read differently now
                    pos = list(ref).index(k) if k in ref else len(ref)
                    fs = e.fields
                    f = fs[pos] if pos < len(fs) else None
                    if not (isinstance(f, Field) and f.key == k and same_value(f.value, v)):
                        ok, detail = fail(n, step, "entry %d: position %d holds %r after the assignment" % (t, pos, f))
                        break
                    log.see(f, "created by the item assignment of step %d" % n)
                    if not log.intact(f):
                        holders = [j for j, rr in enumerate(refs) if j != t and any(w is f for w in rr.values())]
                        ok, detail = fail(n, step, "entry %d: the assignment wrote into a Field object that existed before instead "
                                          "of binding the key to a new field: %s; entries that hold the same object and were not "
                                          "operated on: %r (rebinding a key in one dict does not change what another dict, or an "
                                          "earlier get, holds)" % (t, log.altered(), [
                                              (j, [(x.key, x.value) for x in entries[j].fields]) for j in holders]))
                        break
                    ref[k] = f
            elif code == O_POP:
                d = op[2]
                dv = None if d is None else unjv(d["v"])
                r = implutil.guarded((lambda: e.pop(k)) if d is None else (lambda: e.pop(k, dv)))
                if k in ref:
                    w = ref.pop(k)
                    good = r[0] == "ok" and r[1] is w
                else:
                    good = r[0] == "ok" and same_value(r[1], dv)
            elif code == O_DEL:
                def do_del():
                    del e[k]
                r = implutil.guarded(do_del)
                ref.pop(k, None)          # docstring: shorthand for pop -> an absent key is no error
                good = r[0] == "ok" and r[1] is None
            elif code == O_GET:
                d = op[2]
                dv = None if d is None else unjv(d["v"])
                r = implutil.guarded((lambda: e.get(k)) if d is None else (lambda: e.get(k, dv)))
                good = r[0] == "ok" and ((r[1] is ref[k]) if k in ref else same_value(r[1], dv))
            elif code == O_IN:
                r = implutil.guarded(lambda: k in e)
                good = r[0] == "ok" and r[1] is (k in ref)
            else:
                r = implutil.guarded(lambda: e[k])
                if k in ref:
                    good = r[0] == "ok" and same_value(r[1], log.content(ref[k])[1])
                else:
                    good = r[0] == "exc" and r[2] == "KeyError"
            if not good:
                ok, detail = fail(n, step, "entry %d: the call gave %r, the mapping disagrees (it holds %r)" % (
                    t, r[-1], brief([log.content(w)[:2] for w in ref.values()])))
                break
        big_hit |= acted is not None and len(refs[acted]) > 256
        if world and acted is not None:
            world.after_mutation(acted)
        # ---- after every step: every entry against its own dict, and every Field object ever seen against its content
        for j, e in enumerate(entries):
            try:
                msg = entry_vs_dict(e, refs[j], log, heads[j][0], heads[j][1], Field, absent)
            except Exception as x:  # noqa: BLE001 - a read accessor that raises is a finding, not a harness error
                msg = "a read accessor (fields, fields_dict, items, get, in, []) raised %s: %s; the mapping holds %r" % (
                    type(x).__name__, x, brief([log.content(w)[:2] for w in refs[j].values()]))
            if msg:
                who = "entry %d" % j if j == acted else "entry %d (no operation was applied to it in this step)" % j
                ok, detail = fail(n, step, who + ": " + msg)
                break
        if ok:
            msg = log.altered()
            if msg:
                ok, detail = fail(n, step, msg)
        if not ok:
            break
    if world:
        if ok:
            msg = world.epilogue()
            if msg:
                ok, detail = False, "births %r, steps %r: %s" % (inp["births"], inp["steps"], msg)
        tags += sorted(world.tags)
        if world.same_way_written:
            tags.append("world:new-key-written-while-another-entry-built-the-same-way-is-alive")
    if shared_hit:
        tags.append("multi:shared-key-written-or-removed")
    if odd_hit:
        tags.append("multi:key-bound-to-field-subclass-object-or-list-edited")
    if big_hit:
        tags.append("multi:entry-with-more-than-256-fields-operated-on")
    return {"sx_in": None, "sx_out": None, "oracle": {"ok": ok, "detail": detail},
            "nontrivial": bool(shared_hit or odd_hit or big_hit or (world and world.same_way_written)),
            "key": json.dumps(inp, sort_keys=True), "tags": tags,
            "summary": repr([[(f.key, f.value) for f in e.fields] for e in entries])[:200]}


# ------------------------------------------------------------------ implementation + oracle: equality
def perturb_block(b, p, pos):
    """Return (b2, expect_equal) or None when the perturbation does not apply to b."""
    import copy
    from bibtexparser import model as M
    if p == "copy":
        return copy.copy(b), True
    if p == "deepcopy":
        return copy.deepcopy(b), True
    c = copy.deepcopy(b)
    cls = type(b).__name__
    if p == "rebuild":
        return c, True
    if p == "meta_reorder":
        pubapi.get_backing(c, "block.parser_metadata")["zz1"] = 1
        pubapi.get_backing(c, "block.parser_metadata")["zz2"] = "t"
        b2 = copy.deepcopy(b)
        pubapi.get_backing(b2, "block.parser_metadata")["zz2"] = "t"
        pubapi.get_backing(b2, "block.parser_metadata")["zz1"] = 1
        return (c, b2), True
    if p == "start_line":
        pubapi.set_backing(c, "block.start_line", (b.start_line or 0) + 1)
    elif p == "start_line_none":
        if b.start_line is None:
            return None
        pubapi.set_backing(c, "block.start_line", None)
    elif p == "raw":
        pubapi.set_backing(c, "block.raw", (b.raw or "") + " ")
    elif p == "raw_none":
        if b.raw is None:
            return None
        pubapi.set_backing(c, "block.raw", None)
    elif p == "meta_add":
        c.set_parser_metadata("extra", "1")
    elif p == "meta_value":
        if not b.parser_metadata:
            return None
        k = list(b.parser_metadata)[pos % len(b.parser_metadata)]
        c.set_parser_metadata(k, "changed")
    elif p == "meta_drop":
        if not b.parser_metadata:
            return None
        del pubapi.get_backing(c, "block.parser_metadata")[list(b.parser_metadata)[0]]
    elif p == "key":
        if cls not in ("Entry", "String"):
            return None
        c.key = b.key + "x"
    elif p == "type":
        if cls != "Entry":
            return None
        c.entry_type = b.entry_type.upper() if b.entry_type.upper() != b.entry_type else b.entry_type + "x"
    elif p == "value":
        if cls not in ("String", "Preamble"):
            return None
        c.value = "%s " % (b.value,)
    elif p == "value_type":
        if cls != "String" or not isinstance(b.value, str) or not b.value.isdigit():
            if cls != "String":
                return None
            c.value = [b.value]
        else:
            c.value = int(b.value)
    elif p == "comment":
        if cls not in ("ExplicitComment", "ImplicitComment"):
            return None
        c.comment = b.comment + "!"
    elif p == "class_swap":
        if cls == "ExplicitComment":
            c = M.ImplicitComment(b.comment, b.start_line, b.raw)
        elif cls == "ImplicitComment":
            c = M.ExplicitComment(b.comment, b.start_line, b.raw)
        else:
            return None
        pubapi.set_backing(c, "block.parser_metadata", copy.deepcopy(b.parser_metadata))
    elif p.startswith("field"):
        if cls != "Entry":
            return None
        fs = c.fields
        if p == "field_add":
            fs.insert(pos % (len(fs) + 1), M.Field("new", "v", None))
        elif not fs:
            return None
        else:
            i = pos % len(fs)
            if p == "field_value":
                fs[i].value = "%s~" % (fs[i].value,)
            elif p == "field_value_type":
                fs[i].value = [fs[i].value]
            elif p == "field_key":
                fs[i].key = fs[i].key.swapcase() if fs[i].key.swapcase() != fs[i].key else fs[i].key + "x"
            elif p == "field_line":
                fs[i]._start_line = (fs[i].start_line or 0) + 1
            elif p == "field_drop":
                del fs[i]
            elif p == "field_dup_last":
                fs.append(copy.deepcopy(fs[i]))
            elif p == "field_swap":
                if len(fs) < 2:
                    return None
                j = (i + 1) % len(fs)
                if fs[i] == fs[j]:
                    return None
                fs[i], fs[j] = fs[j], fs[i]
    else:
        return None
    return c, False


def block_modelled(b):
    if type(b).__name__ not in ("Entry", "String", "Preamble", "ExplicitComment", "ImplicitComment"):
        return False
    if not all(value_modelled(v) for v in b.parser_metadata.values()):
        return False
    if type(b).__name__ == "Entry":
        return all(value_modelled(f.value) for f in b.fields)
    if type(b).__name__ == "String":
        return value_modelled(b.value)
    return True


def impl_eq(case):
    import copy
    import enc
    import implutil
    from bibtexparser.model import Field
    inp = case["input"]
    expect = None
    tags = ["eq"]
    if inp["eq"] in ("block", "pair"):
        if inp["eq"] == "pair":
            a, b = build_block(inp["a"]), build_block(inp["b"])
            expect = False
            tags.append("eq:cross")
        else:
            if "bib" in inp:
                blocks = parsed_blocks(inp["bib"])
                a = blocks[inp["index"] % len(blocks)]
            else:
                a = build_block(inp["spec"])
            pr = perturb_block(a, inp["perturb"], inp.get("pos", 0))
            if pr is None:
                return {"sx_in": None, "sx_out": None, "oracle": {"ok": True, "detail": ""}, "nontrivial": False,
                        "key": json.dumps(inp, sort_keys=True), "tags": ["eq:not-applicable"], "summary": "n/a"}
            b, expect = pr
            if isinstance(b, tuple):
                a, b = b
            tags.append("eq:" + inp["perturb"])
        sx_in = [21, 0, enc.enc_block(a), enc.enc_block(b)]
        modelled = block_modelled(a) and block_modelled(b)
    else:
        if inp["eq"] == "fieldpair":
            a = Field(inp["a"][0], unjv(inp["a"][1]), inp["a"][2])
            b = Field(inp["b"][0], unjv(inp["b"][1]), inp["b"][2])
            expect = None if inp.get("no_oracle") else (inp["a"] == inp["b"])
            tags.append("eq:fieldpair")
        else:
            k, v, ln = inp["field"]
            a = Field(k, unjv(v), ln)
            p = inp["perturb"]
            tags.append("eq:field_" + p)
            if p == "copy":
                b, expect = copy.copy(a), True
            elif p == "deepcopy":
                b, expect = copy.deepcopy(a), True
            elif p == "rebuild":
                b, expect = Field(k, unjv(v), ln), True
            else:
                b, expect = copy.deepcopy(a), False
                if p == "key":
                    b.key = k + "x"
                elif p == "key_case":
                    b.key = k.upper()
                elif p == "value":
                    b.value = [a.value, "x"]
                elif p == "line":
                    pubapi.set_backing(b, "field.start_line", ln + 1)
                elif p == "line_none":
                    pubapi.set_backing(b, "field.start_line", None)
        sx_in = [21, 1, enc.enc_field(a), enc.enc_field(b)]
        modelled = value_modelled(a.value) and value_modelled(b.value)
    r = implutil.guarded(lambda: (a == b, b == a, a != b, a == a))
    rec = {"sx_in": sx_in, "key": json.dumps(inp, sort_keys=True), "tags": tags, "nontrivial": expect is not None}
    if not modelled:
        rec["skip"] = True
    if r[0] == "exc":
        rec["sx_out"] = implutil.r_exc(r[1])
        rec["oracle"] = {"ok": False, "detail": "== raised %s" % r[2]}
        rec["summary"] = "raised " + r[2]
        return rec
    ab, ba, ne, aa = r[1]
    rec["sx_out"] = implutil.r_ok([int(bool(ab)), int(bool(ba))])
    rec["summary"] = "a==b %r, b==a %r" % (ab, ba)
    ok, detail = True, ""
    what = "%s %s" % (type(a).__name__, inp.get("perturb", "pair"))
    if aa is not True:
        ok, detail = False, what + ": a == a is %r" % (aa,)
    elif ab is not ba or ne is (ab is True):
        ok, detail = False, what + ": == is not symmetric or != is not its negation (%r, %r, %r)" % (ab, ba, ne)
    elif expect is not None and ab is not expect:
        ok, detail = False, what + ": a == b is %r, structural equality says %r" % (ab, expect)
    rec["oracle"] = {"ok": ok, "detail": detail}
    return rec


# ---------------------------------------------------------------- object-level programs against Model/EntryObj.v (op 25)
OBJ_KEYS = ["a", "A", "b", "ab", "ID"]
OBJ_VALS = ["x", "y", "", 3]


def gen_obj_program(rng):
    """Several entries over a store of Field objects (shared freely), a program of mapping calls and of caller writes into
    Field objects; every choice is made here so that the child only executes it."""
    n = rng.randint(0, 5)
    objs = [[rng.choice(OBJ_KEYS), rng.choice(OBJ_VALS), rng.choice([None, 1, 2])] for _ in range(n)]
    ents = []
    for _ in range(rng.randint(1, 3)):
        fl = [i for i in range(n) if rng.random() < 0.6]
        rng.shuffle(fl)
        ents.append([rng.choice(["article", "book"]), rng.choice(["k1", "k2"]), fl])
    prog = []
    for _ in range(rng.randint(1, 12)):
        c = rng.randint(0, 9)
        e, k = rng.randrange(len(ents)), rng.choice(OBJ_KEYS)
        if c == 0:
            prog.append(["new", e, k, rng.choice(OBJ_VALS), rng.choice([None, 5])])
        elif c == 1:
            prog.append(["setitem", e, k, rng.choice(OBJ_VALS)])
        elif c in (2, 4):
            prog.append(["pop" if c == 2 else "get", e, k, rng.choice([None, "dflt"])])
        elif c == 3:
            prog.append(["del", e, k])
        elif c == 5:
            prog.append(["in", e, k])
        elif c == 6:
            prog.append(["getitem", e, rng.choice(OBJ_KEYS + ["ENTRYTYPE"])])
        elif c == 7:
            prog.append(["setobj", e, rng.randrange(1000)])
        elif c == 8:
            prog.append(["oval", rng.randrange(1000), rng.choice(OBJ_VALS)])
        else:
            prog.append(["okey", rng.randrange(1000), k])
    return {"objprog": {"objs": objs, "entries": ents, "prog": prog}}


def impl_obj(case):
    from bibtexparser.model import Entry, Field
    d = case["input"]["objprog"]
    objs = [Field(k, v, ln) for k, v, ln in d["objs"]]
    ents = [Entry(t, k, [objs[i] for i in fl]) for t, k, fl in d["entries"]]
    rec = obj_run(ents, objs, d["prog"])
    rec.update({"key": json.dumps(d), "nontrivial": len(ents) > 1 or len(d["prog"]) > 2, "tags": ["objprog"]})
    return rec


def obj_run(ents, objs, steps):
    """Execute an object-level program on the entries ents (objs: the Field objects that exist before the program, oldest
    first; every object held by an entry must be among them) and record it in the wire form of op 25."""
    import enc
    import implutil
    from bibtexparser.model import Field
    S = enc.enc_str
    d = {"prog": steps}
    ids = {id(o): i + 1 for i, o in enumerate(objs)}
    keep = list(objs)
    store = [[ids[id(o)], enc.enc_field(o)] for o in objs]
    sx_e = [[S(e.entry_type), S(e.key), [ids[id(f)] for f in e.fields]] for e in ents]
    nxt = [len(objs) + 1]

    def reg(o):
        if id(o) not in ids:
            ids[id(o)] = nxt[0]
            nxt[0] += 1
            keep.append(o)

    def res_of(r):
        if r is None:
            return [0]
        return [2, enc.enc_value(r)] if not isinstance(r, Field) else [1, ids[id(r)], enc.enc_field(r)]
    prog, expect = [], []

    def snap(res):
        views = [[[ids[id(f)] for f in x.fields], [enc.enc_field(f) for f in x.fields],
                  [[S(kk), ids[id(f)]] for kk, f in x.fields_dict.items()],
                  [[S(kk), enc.enc_value(v)] for kk, v in x.items()]] for x in ents]
        objs_now = [[ids[id(o2)], enc.enc_field(o2)] for o2 in sorted(keep, key=lambda o2: ids[id(o2)])]
        expect.append([res, views, objs_now])

    def run():
        for st in d["prog"]:
            res = [0]
            op = st[0]
            if op == "xfer":          # ents[t].set_field(ents[s].get(k)) when the key is present: two steps of the program
                t, s_, k = st[1], st[2], st[3]
                r = ents[s_].get(k)
                prog.append([0, s_, [4, S(k), []]])
                snap(res_of(r))
                if r is not None and t != s_:
                    ents[t].set_field(r)
                    prog.append([0, t, [7, ids[id(r)]]])
                    snap([0])
                continue
            if op in ("okey_of", "oval_of"):
                # the caller writes into Field objects of entry st[1] that it found by their keys (all found first, then
                # written one after the other): ["okey_of", e, [[old, new], ...]] / ["oval_of", e, key, value]
                fl = list(ents[st[1]].fields)
                pairs = st[2] if op == "okey_of" else [[st[2], st[3]]]
                found = [next((x for x in fl if x.key == old), None) for old, _ in pairs]
                if any(x is None or id(x) not in ids for x in found):
                    continue
                for o, (_, val) in zip(found, pairs):
                    if op == "okey_of":
                        o.key = val
                        prog.append([2, ids[id(o)], S(val)])
                    else:
                        o.value = val
                        prog.append([1, ids[id(o)], enc.enc_value(val)])
                    snap([0])
                continue
            if op in ("setobj", "oval", "okey"):
                if not keep:
                    continue
                o = keep[st[-2 if op != "setobj" else 2] % len(keep)] if op == "setobj" else keep[st[1] % len(keep)]
            if op == "new":
                f = Field(st[2], st[3], st[4])
                sxf = enc.enc_field(f)
                reg(f)
                ents[st[1]].set_field(f)
                prog.append([0, st[1], [0, sxf]])
            elif op == "setitem":
                ents[st[1]][st[2]] = st[3]
                prog.append([0, st[1], [1, S(st[2]), enc.enc_value(st[3])]])
                for f in ents[st[1]].fields:
                    reg(f)
            elif op in ("pop", "get"):
                e = ents[st[1]]
                r = (getattr(e, op)(st[2]) if st[3] is None else getattr(e, op)(st[2], st[3]))
                prog.append([0, st[1], [2 if op == "pop" else 4, S(st[2]), [] if st[3] is None else [enc.enc_value(st[3])]]])
                res = res_of(r)
            elif op == "del":
                del ents[st[1]][st[2]]
                prog.append([0, st[1], [3, S(st[2])]])
            elif op == "in":
                res = [3, 1 if st[2] in ents[st[1]] else 0]
                prog.append([0, st[1], [5, S(st[2])]])
            elif op == "getitem":
                try:
                    res = [2, enc.enc_value(ents[st[1]][st[2]])]
                except KeyError:
                    res = [4, 3]
                prog.append([0, st[1], [6, S(st[2])]])
            elif op == "setobj":
                ents[st[1]].set_field(o)
                prog.append([0, st[1], [7, ids[id(o)]]])
            elif op == "oval":
                o.value = st[2]
                prog.append([1, ids[id(o)], enc.enc_value(st[2])])
            else:
                o.key = st[2]
                prog.append([2, ids[id(o)], S(st[2])])
            snap(res)
    g = implutil.guarded(run)
    rec = {"sx_in": [25, store, sx_e, prog]}
    if g[0] == "exc":
        rec["sx_out"] = implutil.r_exc(g[1])
        rec["oracle"] = {"ok": False, "detail": "%s raised by a mapping call of an object-level program" % g[2]}
        rec["summary"] = "raised " + g[2]
        return rec
    rec["sx_out"] = implutil.r_ok(expect)
    # the property on these programs is C19_obj_world_refines / C19_obj_other_entries: the comparison with Model/EntryObj.v decides
    rec["oracle"] = {"ok": True, "detail": ""}
    rec["summary"] = "%d steps over %d entries" % (len(expect), len(ents))
    return rec


def impl(case):
    if "hier" in case["input"]:
        from props import c19_hier
        return c19_hier.impl_hier(case, __import__("sys").modules[__name__])
    if "ident" in case["input"]:
        from props import c19_ident
        return c19_ident.impl_ident(case)
    if "edit" in case["input"]:
        from props import c19_edit
        return c19_edit.impl_edit(case)
    if "objprog" in case["input"]:
        return impl_obj(case)
    if "eq" in case["input"]:
        return impl_eq(case)
    if "world" in case["input"]:
        return impl_world(case)
    if "multi" in case["input"]:
        return impl_multi(case)
    return impl_ops(case)


def shrink(case):
    inp = case["input"]
    if "ident" in inp:
        # arguments are resolved at run time (selectors, ["result", j] modulo), so a program with a step left out is a case again
        for i in range(len(inp["steps"])):
            c = json.loads(json.dumps(case))
            del c["input"]["steps"][i]
            yield c
        return
    if "ops" not in inp:
        return
    ops = inp["ops"]
    for i in range(len(ops)):
        c = json.loads(json.dumps(case))
        del c["input"]["ops"][i]
        yield c
    if "entry" in inp:
        for i in range(len(inp["entry"]["fields"])):
            c = json.loads(json.dumps(case))
            del c["input"]["entry"]["fields"][i]
            yield c
