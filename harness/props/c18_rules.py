"""C18, stream `rules`: the ENCODER RULES configured in latex_encoding.py (keep_math, enclose_urls, then defaults) against
Model/LatexRules.v (op 121).

The model implements the three patterns, their order, the replacements and the advance; the default conversion of ONE
character is an oracle, observed here on a pristine pylatexenc encoder (`UnicodeToLatexEncoder()`, no repository code) for
every character of the text and handed to the model as a table.  The implementation side goes through the repository's
`LatexEncodingMiddleware(keep_math=.., enclose_urls=..)` on a one-field library (public interface only).  A difference means
that the rules the repository configures no longer behave as the three modelled patterns in the modelled order.

Every case also carries the round-trip verdict of the property (decode(encode(text)) == text) under the same exclusions and
known classes as the `roundtrip` stream, so that a changed rule that breaks the round trip comes with a failing input."""
import json
import unicodedata

TOKENS = ["$", "\\$", "\\", "\n", " ", "\t", "x", "ab", ".", "a.b", "http://", "https://", "http:/", "www", "www.", "/", "%", "&",
          "é", "{", "}", "~", " ", "_", "#", "1", "$$", "\\\\"]
OPTS = [[None, None], [True, True], [True, False], [False, True], [False, False]]


def generate(rng, quick):
    cases = []
    seqs = [[t] for t in TOKENS] + [[a, b] for a in TOKENS for b in TOKENS]
    if not quick:
        seqs += [[a, b, c] for a in TOKENS for b in TOKENS for c in TOKENS]
    for i, sq in enumerate(seqs):
        text = "".join(sq)
        for o in ([OPTS[0], OPTS[i % 4 + 1]] if quick else OPTS):
            cases.append({"stream": "rules", "input": {"kind": "rules", "text": text, "opts": o}})
    fixed = ["$a$ & $b$", "a $x$ b", "cost \\$5 and $x$", "$a\n$", "see http://a.org/x_y. Then", "www a.b", "www.ex.com/a#b c", "http://x",
             "https://a.b/c%20d", "$", "$$", "$a$", "a$", "\\$a$", "\\\\$a$", "x$y\\$z$w", "$http://a.b$", "http://a.$b$", "é$é$é", "www.$a.b$"]
    for i, text in enumerate(fixed):
        for o in OPTS:
            cases.append({"stream": "rules", "input": {"kind": "rules", "text": text, "opts": o}})
    # a URL followed by EVERY kind of blank and then by text that needs conversion: the patterns' \S is Unicode white space
    # (seeding round 11: re.ASCII made a no-break space part of the URL, the `&` behind it went raw into \url{})
    from props import charclasses as CC
    n = 0
    for url in ["http://a.org/x", "https://x.y.de", "www.ex.com", "see http://a.b"]:
        for ws in CC.all_whitespace() + CC.INVISIBLE_NOT_SPACE[:4]:
            for tail in ["R&D", "50%", "a_b", "x", "www.a.b", "$x$"]:
                n += 1
                if quick and n % 2:
                    continue
                cases.append({"stream": "rules", "input": {"kind": "rules", "text": url + ws + tail, "opts": OPTS[n % len(OPTS)]}})
    for i in range(1500 if quick else 30000):
        text = "".join(rng.choice(TOKENS) for _ in range(rng.randint(3, 9)))
        cases.append({"stream": "rules", "input": {"kind": "rules", "text": text, "opts": OPTS[i % len(OPTS)]}})
    return cases


_PRISTINE_ENC = None


def default_conversion(c):
    global _PRISTINE_ENC
    if _PRISTINE_ENC is None:
        from pylatexenc.latexencode import UnicodeToLatexEncoder
        _PRISTINE_ENC = UnicodeToLatexEncoder()
    return _PRISTINE_ENC.unicode_to_latex(c)


def impl(case):
    import enc
    import implutil
    from props import pubapi
    from props import c18 as P
    from bibtexparser.middlewares import LatexDecodingMiddleware, LatexEncodingMiddleware
    inp = case["input"]
    text = inp["text"]
    km, eu = inp["opts"]
    s = unicodedata.normalize("NFC", text)
    table = []
    for c in sorted(set(s)):
        r = implutil.guarded(lambda: default_conversion(c))
        if r[0] == "ok" and r[1] != c:
            table.append([enc.enc_char(c), enc.enc_str(r[1])])
    rec = {"sx_in": [121, int(km is not False), int(eu is not False), enc.enc_str(s), table],
           "key": json.dumps(["rules", text, inp["opts"]]), "nontrivial": ("$" in text or "www" in text or "http" in text)}
    r = implutil.guarded(lambda: pubapi.latex_convert(LatexEncodingMiddleware(keep_math=km, enclose_urls=eu), text))
    if r[0] == "exc" or r[1][1]:
        rec["sx_out"] = implutil.r_exc(r[1] if r[0] == "exc" else 6)
        rec["oracle"] = {"ok": False, "detail": "encoding %r with keep_math=%r enclose_urls=%r failed" % (text, km, eu)}
        rec["summary"] = "encoding failed"
        return rec
    encoded = r[1][0]
    rec["sx_out"] = implutil.r_ok(enc.enc_str(encoded))
    rec["summary"] = repr(encoded)[:160]
    tags = ["rules:keep_math=%s" % (km is not False), "rules:enclose_urls=%s" % (eu is not False),
            "rules:" + ("url-wrapped" if "\\url{" in encoded else "no-url-wrapped")]
    # the property on the same text: decode(encode(text)) == text, outside the known classes / the third party's reach
    d = implutil.guarded(lambda: pubapi.latex_convert(LatexDecodingMiddleware(), encoded))
    bad = P.third_party_not_injective()
    outside = any(c in bad and c not in P.ACCENTED_SET for c in text) or text != s
    if d[0] == "exc":
        rec["oracle"] = {"ok": False, "detail": "decoding %r raised %s" % (encoded, d[2])}
    elif d[1][1] or d[1][0] != text:
        known = P.rt_known_class(text, km is not False, eu is not False)
        if outside or not P.pristine_roundtrips(text):
            rec["oracle"] = {"ok": True, "detail": ""}
            tags.append("rules:roundtrip-outside-the-third-party's-reach")
        else:
            rec["oracle"] = {"ok": False, "detail": "decode(encode(%r)) with keep_math=%r enclose_urls=%r gave %r (encoded: %r)"
                                                    % (text, km, eu, d[1][0], encoded)}
            if known:
                rec["oracle"]["known"] = known
    else:
        rec["oracle"] = {"ok": True, "detail": ""}
        tags.append("rules:roundtrip-ok")
    if inp.get("urlrun"):      # stream urlrun-rules (props/c18_urlrun.py): the distribution of that class
        from props import c18_urlrun
        ok = rec["oracle"]["ok"]
        tags += c18_urlrun.tags(inp["urlrun"], encoded, ok, rec["oracle"].get("known"),
                                P.rt_known_class(text, km is not False, eu is not False) if ok and "rules:roundtrip-ok" in tags else None)
    rec["tags"] = tags
    return rec
