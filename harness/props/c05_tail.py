"""C05, stream `tail`: WELL-FORMED documents whose texts END (and BEGIN) in backslashes and blanks, in every combination.

The library looks at the last characters of a text in three places: the splitter's escape rule (a delimiter directly behind a
backslash is not a delimiter), `str.strip()` on keys, comments and raw values, and the removal / re-addition of the one enclosing
layer.  A text that ends in k backslashes followed by m blanks sits on all three at once: with m = 0 the closing delimiter would
be escaped (not well-formed, not generated), with m >= 1 the blanks are CONTENT inside an enclosed value and a preamble, and are
stripped from a key, a comment and a bare value.  The property makes no exception: what the first parse gave must come back
after write + parse, byte for byte including the blanks, and the second write must repeat the first.

The class generated here (every choice from the rng handed in):

  the tail       k backslashes (k = 0..4) followed by m blanks (m = 0..4); the blanks all spaces / all tabs / all newlines /
                 mixed from space, tab, newline; also carriage returns, form feeds and the other str.isspace() characters
                 (charclasses).  Directly in front of a closing delimiter k >= 1 needs m >= 1 (else the delimiter is escaped).
  the side       end: core + tail in front of the closing delimiter; start: the mirror image (m blanks, k backslashes, core)
                 behind the opening delimiter; both (same or different tails); nested: the tail in the middle of the text directly
                 in front of a NESTED closing brace (followed by more text, by nothing, or by a second tail); a tail in front of
                 ordinary text (control)
  the host       fbrace / fquote    brace- / quote-enclosed field value (first, middle, last or only field; several layouts)
                 sbrace / squote    brace- / quote-enclosed @string value (with and without an entry that refers to it)
                 praw / pquote / pbrace   @preamble body: the text itself, one quoted piece, one braced piece
                 comment            explicit comment
                 key                entry key (with and without fields)
                 bare               unenclosed field value
                 concat             the pieces of a concatenation `{..} # ".." # name`
                 fname / sname      field name / @string name (blanks around it, backslashes at its edges)
  the core       empty, words, text ending in a nested `}`, TeX commands, text with inactive delimiters
  the document   the host block alone, or between plain neighbours (free text, @comment, @string, entry) with pairwise
                 different keys, so that a block that is lost, merged or changed shows in the comparison
  the format     indent / value_column / trailing_comma / block_separator walk through the pools of props/c05.py in turn

Known finding K7 (a STRIPPED text that ends in a backslash is written directly in front of its closing delimiter): comment, key,
bare value and a concatenation whose last piece is bare (the value is stripped as one text), each with k >= 1 at the end.  Those cases are
labelled `k7:by-construction`; props/c05.py attributes a failure of this stream to K7 only for them (and only if the first parse
really produced a text ending in a backslash, and the first difference is at that block).  Everything else - in particular every
ENCLOSED text, whose blanks behind the backslash are content and keep it away from the closing delimiter - round-trips on the
unchanged tree and is judged by the oracle without any exception.

Each document is checked against the grammar of DESIGN.md section 3 before it is emitted (`check_wellformed`): a combination that
is not derivable (an escaped structural delimiter, unbalanced active braces, an active quote inside a quoted piece, blanks
inside a key) is not generated.
"""
import re

from props import charclasses as CC

BS = "\\"

HOSTS = ["fbrace", "fquote", "sbrace", "squote", "praw", "pquote", "pbrace", "comment", "key", "bare", "concat", "fname", "sname"]
ENCLOSED = ["fbrace", "fquote", "sbrace", "squote", "pquote", "pbrace"]
NESTED_HOSTS = ["fbrace", "fquote", "sbrace", "squote", "praw", "pquote", "pbrace", "comment", "concat"]
BLANK_KINDS = ["space", "tab", "nl", "mixed"]
RARE_BLANK_KINDS = ["cr", "crlf", "ff", "other"]

CORES = ["Proc.", "first line", "a", "", "x{y}z", "{Nested} title", "ends {n}", "\\LaTeX{} text", "50\\% of", "a, b = c",
         "Zürich", "{}", "two\nlines", "tail\\ mid", "q\\\"uote"]
KEY_CORES = ["k1", "doe2020", "a.b:c", "K", ""]
BARE_CORES = ["abc", "jan", "12", "undefined"]
NAME_CORES = ["title", "note", "x-y", "f.1"]


# ----------------------------------------------------------------------------------------------------------------- tails
def blanks(rng, kind, m):
    if m == 0:
        return ""
    if kind == "space":
        return " " * m
    if kind == "tab":
        return "\t" * m
    if kind == "nl":
        return "\n" * m
    if kind == "mixed":
        s = [rng.choice(" \t\n") for _ in range(m)]
        if m >= 2 and len(set(s)) == 1:
            s[rng.randrange(m)] = rng.choice([c for c in " \t\n" if c != s[0]])
        return "".join(s)
    if kind == "cr":
        return "".join(rng.choice("\r ") if i else "\r" for i in range(m))
    if kind == "crlf":
        return ("\r\n" * m)[:max(2, m)]
    if kind == "ff":
        return "".join(rng.choice("\x0c\x0b ") if i else rng.choice("\x0c\x0b") for i in range(m))
    if kind == "other":
        pool = CC.all_whitespace()
        s = [rng.choice(pool) for _ in range(m)]
        s[rng.randrange(m)] = rng.choice(CC.OTHER_ISSPACE)
        return "".join(s)
    raise ValueError(kind)


def tail_specs(kinds=BLANK_KINDS, end=True):
    """Every (k, m, kind): k backslashes, m blanks of the kind.  `end`: a tail in front of a closing delimiter needs a blank
    behind a backslash."""
    out = []
    for k in range(5):
        if k == 0 or not end:
            out.append((k, 0, "none"))
        for m in range(1, 5):
            for kind in kinds:
                out.append((k, m, kind))
    return out


def tail_text(rng, spec, side):
    k, m, kind = spec
    b = blanks(rng, kind, m)
    return BS * k + b if side == "end" else b + BS * k


# ----------------------------------------------------------------------------------------------------------------- grammar check
MARK = re.compile(r"(?<!\\)[{}\",=]")
AT = re.compile(r"@\w*[ \t]*\{")


def active(text, chars):
    """positions of the active (not directly behind a backslash) occurrences of the given delimiters"""
    return [i for i, c in enumerate(text) if c in chars and (i == 0 or text[i - 1] != BS)]


def balanced(text):
    d = 0
    for i in active(text, "{}"):
        d += 1 if text[i] == "{" else -1
        if d < 0:
            return False
    return d == 0


def ok_braced(text):
    """`braced` of the grammar, usable in front of a structural `}`"""
    return balanced(text) and not text.endswith(BS) and not AT.search(text)


def ok_quoted(text):
    return ok_braced(text) and not active(text, '"')


def ok_kchars(content, hash_ok=True):
    """`ws* kchar+ ws*` in front of a structural delimiter: blanks at the edges only, no active delimiter, and the delimiter
    that follows is not escaped (the text between the blanks MAY end in a backslash: that is the class of K7)"""
    text = content.strip()
    return (text != "" and not any(c.isspace() for c in text) and not active(text, '{}",=') and not content.endswith(BS)
            and "@" not in text and (hash_ok or "#" not in text))


# ----------------------------------------------------------------------------------------------------------------- documents
class Builder:
    """One document: the focus block (built from `content`, the text with its tails) between optional plain neighbours."""

    def __init__(self, rng):
        self.rng = rng
        self.n = 0

    def uid(self):
        self.n += 1
        return self.n

    def neighbour(self):
        r, i = self.rng, self.uid()
        return r.choice(["%% remark %d", "@comment{plain %d}", "@string{nb%d = \"Neighbour\"}", "@misc{other%d,\n  note = {plain}\n}",
                         "@book{b%d, title = \"T\", year = 2001}", "free text %d\nsecond line", "@preamble{\"p%d\"}"]) % i

    def plain_fields(self, n):
        """n plain fields with pairwise different names (none of them a name the focus field uses)"""
        i = self.uid()
        pool = ["year = {19%02d}" % (i % 100), "author = \"A. U. Thor %d\"" % i, "pages = %d" % (10 + i), "month = jan",
                "publisher = {P{%d}}" % i]
        return self.rng.sample(pool, n)

    def entry(self, key_src, fields, closing=None):
        """entry text: key_src as it stands between `{` and `,`; fields: list of `name = value` sources"""
        r = self.rng
        typ = r.choice(["article", "Book", "misc", "inproceedings"])
        if not fields:
            return "@%s{%s%s}" % (typ, key_src, r.choice(["", ","]) if closing is None else closing)
        lay = r.randrange(4)
        if lay == 0:
            return "@%s{%s,\n  %s\n}" % (typ, key_src, ",\n  ".join(fields))
        if lay == 1:
            return "@%s{%s, %s}" % (typ, key_src, ", ".join(fields))
        if lay == 2:
            return "@%s{%s,\n%s,\n}" % (typ, key_src, ",\n".join(fields))
        return "@%s{%s,%s}" % (typ, key_src, ",".join(fields))

    def fields_around(self, focus):
        """the focus field first / in the middle / last / alone"""
        r = self.rng
        pos = r.choice(["only", "first", "middle", "last", "last"])
        if pos == "only":
            return [focus]
        if pos == "first":
            return [focus] + self.plain_fields(1)
        if pos == "last":
            return self.plain_fields(1) + [focus]
        p = self.plain_fields(2)
        return [p[0], focus, p[1]]

    def focus(self, host, content, extra=None, last=None):
        """source texts of the focus block(s) of the host around `content` (for `concat`: the list of piece contents; `extra`: a
        bare piece put somewhere, `last`: a bare piece with its own tail put at the end), or None if that is not derivable from
        the grammar"""
        r, i = self.rng, self.uid()
        name = r.choice(["title", "note", "abstract", "booktitle"])
        if host == "fbrace":
            if not ok_braced(content):
                return None
            return [self.entry("k%d" % i, self.fields_around("%s = {%s}" % (name, content)))]
        if host == "fquote":
            if not ok_quoted(content):
                return None
            return [self.entry("k%d" % i, self.fields_around('%s = "%s"' % (name, content)))]
        if host in ("sbrace", "squote"):
            if not (ok_braced(content) if host == "sbrace" else ok_quoted(content)):
                return None
            lay = r.choice(["@string{%s = %s}", "@String{ %s=%s }", "@STRING{%s\n  =\n  %s\n}", "@string {%s = %s}", "@string{%s = %s\n}"])
            out = [lay % ("venue%d" % i, ("{%s}" if host == "sbrace" else '"%s"') % content)]
            if r.random() < 0.6:
                out.append(self.entry("u%d" % i, self.fields_around("%s = venue%d" % (name, i))))
                if r.random() < 0.3:
                    out.reverse()            # use before definition
            return out
        if host == "praw":
            if not ok_braced(content):
                return None
            return ["@%s{%s}" % (r.choice(["preamble", "Preamble", "PREAMBLE"]), content)]
        if host in ("pquote", "pbrace"):
            if not (ok_braced(content) if host == "pbrace" else ok_quoted(content)):
                return None
            piece = ("{%s}" if host == "pbrace" else '"%s"') % content
            return ["@preamble{%s}" % (r.choice(["%s", " %s ", "%s # abbr", "\n  %s\n"]) % piece)]
        if host == "comment":
            if not ok_braced(content):
                return None
            return ["@%s{%s}" % (r.choice(["comment", "Comment", "COMMENT"]), content)]
        if host == "key":
            if not ok_kchars(content):
                return None
            nf = r.choice([0, 1, 2])
            if nf == 0:
                # `@type{key}`: the closing brace directly behind the key text
                return [self.entry(content, [])]
            return [self.entry(content, self.plain_fields(nf))]
        if host == "bare":
            if not ok_kchars(content, hash_ok=False):
                return None
            return [self.entry("k%d" % i, self.fields_around("%s =%s" % (name, content)))]
        if host == "concat":
            # content is a list of piece contents here
            kinds = [r.choice(["{", '"']) for _ in content]
            pieces = []
            for kd, c in zip(kinds, content):
                if not (ok_braced(c) if kd == "{" else ok_quoted(c)):
                    return None
                pieces.append(("{%s}" if kd == "{" else '"%s"') % c)
            if extra:
                pieces.insert(r.randrange(len(pieces) + 1), extra)
            if last is not None:
                if not ok_kchars(last, hash_ok=False):
                    return None
                pieces.append(last)
            hashes = [r.choice([" # ", "#", " #\n  ", "\t# "]) for _ in pieces[1:]]
            src = pieces[0] + "".join(h + p for h, p in zip(hashes, pieces[1:]))
            if r.random() < 0.3:
                return ["@string{cc%d = %s}" % (i, src)]
            return [self.entry("k%d" % i, self.fields_around("%s = %s" % (name, src)))]
        if host == "fname":
            if not ok_kchars(content):
                return None
            return [self.entry("k%d" % i, self.fields_around("%s= {v%d}" % (content, i)))]
        if host == "sname":
            if not ok_kchars(content):
                return None
            return ["@string{%s= \"v%d\"}" % (content, i)]
        raise ValueError(host)

    def document(self, blocks):
        r = self.rng
        before = [self.neighbour() for _ in range(r.choice([0, 0, 1, 1, 2]))]
        after = [self.neighbour() for _ in range(r.choice([0, 0, 1, 1, 2]))]
        parts = before + blocks + after
        # two free texts next to each other would be one block; a free text directly in front of a block on the same line is fine
        out = []
        for p in parts:
            if out and not out[-1].startswith("@") and not p.startswith("@"):
                continue
            out.append(p)
        gap = r.choice(["\n", "\n\n", "\n\n", "\n \n"])
        return r.choice(["", "", "\n"]) + gap.join(out) + r.choice(["", "\n", "\n"]), len(out)


def core_for(rng, host):
    if host == "key":
        return rng.choice(KEY_CORES)
    if host == "bare":
        return rng.choice(BARE_CORES)
    if host in ("fname", "sname"):
        return rng.choice(NAME_CORES)
    return rng.choice(CORES)


def compose(rng, host, side, spec_a, spec_b=None, core=None):
    """(content, k7) for one host: the text with its tail(s); k7 = the first parse strips it to a text ending in a backslash
    that the writer puts in front of a closing delimiter"""
    core = core_for(rng, host) if core is None else core
    spec_b = spec_b or spec_a
    if side == "end":
        content = core + tail_text(rng, spec_a, "end")
        kend = spec_a[0]
    elif side == "start":
        content = tail_text(rng, spec_a, "start") + core
        kend = 0
    elif side == "both":
        content = tail_text(rng, spec_a, "start") + core + tail_text(rng, spec_b, "end")
        kend = spec_b[0]
    elif side == "start-bs-first":
        # not the mirror image: backslashes first, then the blanks, then the core
        content = tail_text(rng, spec_a, "end") + core
        kend = 0
    elif side == "mid":
        content = core + tail_text(rng, spec_a, "end") + rng.choice(["more", "x", "\\&", "-"])
        kend = 0
    else:
        raise ValueError(side)
    stripped_ends_bs = content.strip().endswith(BS)
    k7 = host in ("comment", "key", "bare") and stripped_ends_bs
    return content, k7


def nested(rng, host, spec_a, spec_b):
    """the tail directly in front of a nested closing brace"""
    inner = rng.choice(["in", "", "a b", "{d}", "\\em x"]) + tail_text(rng, spec_a, "end")
    if inner.endswith(BS):
        return None, False
    pre = rng.choice(["", "abc ", "A", "{x} ", "\\textbf"])
    shape = rng.randrange(5)
    if shape == 0:
        content = pre + "{" + inner + "}" + rng.choice([" more", "x", ".", "\n more"])
    elif shape == 1:
        content = pre + "{" + inner + "}"                            # nested closing directly in front of the outer one
    elif shape == 2:
        content = pre + "{" + inner + "}" + tail_text(rng, spec_b, "end")    # ... followed by a second tail
    elif shape == 3:
        content = pre + "{{" + inner + "}" + tail_text(rng, spec_b, "end") + "}"   # two levels, a tail at each
    else:
        content = "{" + inner + "}"                                  # the whole text is one braced group
    k7 = host == "comment" and content.strip().endswith(BS)
    return content, k7


def labels(host, side, spec, k7, extra=()):
    k, m, kind = spec
    out = ["tail:host:" + host, "tail:side:" + side, "tail:k:%d" % k, "tail:m:%d" % m, "tail:blank:" + kind,
           "tail:k%d-m%d" % (k, m)]
    out.append("k7:by-construction" if k7 else "k7:no")
    return out + list(extra)


def generate(rng, tier, fmt_pools):
    quick = tier == "quick"
    INDENTS, COLUMNS, SEPS = fmt_pools
    cases = []

    class Cycle:
        def __init__(self, pool):
            self.pool = list(pool)
            rng.shuffle(self.pool)
            self.k = 0

        def __call__(self):
            x = self.pool[self.k % len(self.pool)]
            self.k += 1
            return x
    ind_c, col_c, sep_c, tr_c = Cycle(INDENTS), Cycle(COLUMNS), Cycle(SEPS), Cycle([False, True, True, False, True])

    def fmt():
        return {"indent": ind_c(), "column": col_c(), "trailing": tr_c(), "sep": sep_c()}

    def emit(b, blocks, labs, nfmt=1):
        if blocks is None:
            return False
        text, n = b.document(blocks)
        for _ in range(nfmt):
            cases.append({"stream": "tail", "input": {"text": text, "fmt": fmt(), "n_items": n, "labels": labs}})
        return True

    nfmt = 1 if quick else 2
    b = Builder(rng)

    def one(host, side, sa, sb=None, extra=()):
        """one document of (host, side, tails); a few attempts with other cores if the combination is not derivable"""
        for _ in range(6):
            if host == "concat":
                # two or three pieces, the tail on a random one (the last piece is where the whole value ends)
                n = rng.choice([2, 2, 3])
                which = rng.choice([n - 1, n - 1, rng.randrange(n)])
                cont, any_k7 = [], False
                for j in range(n):
                    if j == which:
                        c, _ = compose(rng, "fbrace", side, sa, sb)
                    else:
                        c = rng.choice(["a", "", "b c", "{n}"])
                    cont.append(c)
                if side == "end" and rng.random() < 0.2:
                    # the LAST piece unenclosed: the whole value is stripped as one bare text, and ends where that piece ends
                    last = rng.choice(BARE_CORES) + tail_text(rng, sa, "end")
                    blocks = b.focus("concat", cont, last=last)
                    k7 = last.strip().endswith(BS)
                else:
                    blocks = b.focus("concat", cont, extra=rng.choice([None, None, "jan", "12", "undefined"]))
                    k7 = False
            else:
                c, k7 = compose(rng, host, side, sa, sb)
                blocks = b.focus(host, c)
            if emit(b, blocks, labels(host, side, sb if (side == "both" and sb) else sa, k7, extra), nfmt):
                return True
        return False

    # 1. END: every host x every (k, m, kind of blank)
    for host in HOSTS:
        for spec in tail_specs(end=True):
            one(host, "end", spec)
    # 2. START (mirror image): every host x every (k, m, kind)
    for host in HOSTS:
        for spec in tail_specs(end=False):
            one(host, "start", spec)
    # 3. BOTH sides: every (k, m) at the end with a random tail at the start, per host; and the same tail on both sides
    for host in HOSTS:
        specs_start = tail_specs(end=False)
        for (k, m) in [(k, m) for k in range(5) for m in range(5) if not (k >= 1 and m == 0)]:
            kind = "none" if m == 0 else rng.choice(BLANK_KINDS)
            sb = (k, m, kind)
            sa = sb if rng.random() < 0.4 else rng.choice(specs_start)
            one(host, "both", sa, sb)
    # 4. NESTED: the tail in front of a nested closing brace, every (k, m, kind) x the hosts that take braces
    for host in NESTED_HOSTS:
        for spec in tail_specs(end=True):
            for _ in range(6):
                sb = rng.choice(tail_specs(end=True))
                c, k7 = nested(rng, "fbrace" if host == "concat" else host, spec, sb)
                if c is None:
                    continue
                if host == "concat":
                    blocks = b.focus("concat", [rng.choice(["a", "", "{n}"]), c] if rng.random() < 0.7 else [c, "z"])
                    k7 = False
                else:
                    blocks = b.focus(host, c)
                if emit(b, blocks, labels(host, "nested", spec, k7), nfmt):
                    break
    # 5. the rarer blanks (carriage return, CR LF, form feed / vertical tab, the other str.isspace() characters) and the tails in
    #    front of ordinary text (control), at random over hosts, sides, k and m
    for _ in range(260 if quick else 1500):
        host = rng.choice(HOSTS)
        kind = rng.choice(RARE_BLANK_KINDS)
        k, m = rng.randrange(5), rng.randint(1, 4)
        side = rng.choice(["end", "end", "start", "both"])
        one(host, side, (k, m, kind), (rng.randrange(5), rng.randint(1, 4), rng.choice(RARE_BLANK_KINDS + BLANK_KINDS)))
    for _ in range(60 if quick else 400):
        host = rng.choice([h for h in HOSTS if h not in ("key", "bare", "fname", "sname")])
        side = rng.choice(["mid", "start-bs-first"])
        spec = rng.choice(tail_specs(BLANK_KINDS + RARE_BLANK_KINDS, end=False))
        one(host, side, spec)
    # 6. SEVERAL such texts in one document (only texts outside K7, so that nothing hides behind the known class): 2..5 focus
    #    blocks of random enclosed hosts / sides / tails
    for _ in range(120 if quick else 1200):
        blocks, labs = [], set()
        for _ in range(rng.randint(2, 5)):
            host = rng.choice(ENCLOSED + ["praw", "concat"])
            side = rng.choice(["end", "end", "start", "both", "nested"])
            sa = rng.choice(tail_specs(BLANK_KINDS + RARE_BLANK_KINDS[:1], end=True))
            sb = rng.choice(tail_specs(end=True))
            if side == "nested" or host == "concat":
                c, _ = nested(rng, "fbrace", sa, sb) if side == "nested" else compose(rng, "fbrace", side, sa, sb)
                if c is None:
                    continue
                bl = b.focus("concat", [rng.choice(["a", ""]), c]) if host == "concat" else b.focus(host, c)
            else:
                c, _ = compose(rng, host, side, sa, sb)
                bl = b.focus(host, c)
            if bl is None:
                continue
            blocks += bl
            labs.update(["tail:host:" + host, "tail:side:" + side, "tail:k:%d" % sb[0] if side == "both" else "tail:k:%d" % sa[0]])
        if blocks:
            emit(b, blocks, sorted(labs) + ["tail:several", "k7:no"], nfmt)
    return cases
