"""C08 - Library views stay consistent under any history of add / remove / replace."""
from props import pubapi
import itertools
import json

ENGINE = "library"
RULE = ("histories of Library.add (single, list, fail_on_duplicate_key), remove (single, list), replace (both modes, "
        "argument given or defaulted) over a universe of 8 blocks (entries E0, its structurally equal twin E0', E1 with "
        "the same key, E2; strings S0, S1 with one key that is also the entries' key; a preamble; a comment) - 13 in the "
        "random stream (more twins, a failed block, an implicit comment) - where arguments are universe blocks, blocks "
        "currently held (incl. duplicate wrappers) or the duplicate inside a held wrapper; calls that raise are part of "
        "the histories. All histories over a 32-call alphabet to depth 3 (quick); depth 4 over 20 calls and depth 5 "
        "over 11 calls (thorough); random histories to depth 30; corpus: the witness of the repaired strings-order defect. "
        "The two keys of the universe are also instantiated with boundary keys (empty string, one blank, a tab, '0', keys "
        "differing only in letter case, 'ID' / 'ENTRYTYPE', 'None', non-ASCII): all histories to depth 2 over the 32-call "
        "alphabet and depth 3 over 11 calls for fixed key pairs (quick; one level deeper in thorough) plus random "
        "histories with random key pairs; an oracle-only stream uses keys that are not plain str (None, 0, False, 0.0, "
        "(), b'', str subclasses that are falsy / report length 0). USER SUBCLASSES: every block of the universe may be "
        "an instance of a trivial user subclass of its class (harness/props/userclasses.py: SubEntry, SubString, "
        "SubPreamble, SubExplicitComment, SubImplicitComment; a subclass of ParsingFailedBlock) or of a subclass of that "
        "subclass, next to plain blocks with the same key: fixed and per-run random class assignments x all histories to "
        "depth 2 over the 32-call alphabet and depth 3 over 11 calls (quick; depth 3 over 32 / 20 calls and depth 4 in "
        "thorough) plus random histories with a random class per block (also with boundary keys, constructor, non-str "
        "keys). A subclass instance is encoded for the model like a plain instance of its base class (the library may "
        "only use isinstance); when two structurally equal twins get different classes they are unequal for Python "
        "but not for the model, and the case is judged by the oracle alone. After EVERY call all eight views are compared with "
        "the model by object identity and checked against the property. distinct = distinct history; non-trivial = "
        "some call wraps a duplicate, raises, removes or replaces a held block")
TRUSTED = ["object identity observed with id() on objects kept alive by the harness; wrapper objects are numbered by "
           "first appearance in the transcript on both sides"]
ASSUMPTIONS = ["CPython list.remove/list.index compare with == after an identity shortcut; dict preserves insertion order"]

# universe: index -> constructor description
UNI8 = [
    ["E", "article", "a", [["t", "x", 1]], 0, "@a"],       # 0 E0
    ["E", "article", "a", [["t", "x", 1]], 0, "@a"],       # 1 E0' (twin: equal, not identical)
    ["E", "book", "a", [], 1, "@b"],                       # 2 E1 same key, other content
    ["E", "misc", "b", [], 2, None],                       # 3 E2
    ["S", "a", "v", 3, "@s"],                              # 4 S0 (a string named like the entries)
    ["S", "a", "w", 4, None],                              # 5 S1 same key
    ["P", "p", 5, None],                                   # 6
    ["C", "c", 6, None],                                   # 7
]
UNI13 = UNI8 + [
    ["S", "b", "v2", 7, None],                             # 8 S2
    ["S", "a", "v", 3, "@s"],                              # 9 S0' twin of S0
    ["P", "p", 5, None],                                   # 10 P' twin of P
    ["F", 8, "bad"],                                       # 11 a ParsingFailedBlock with its own exception
    ["I", "c", 6, None],                                   # 12 ImplicitComment with the content of C
]
E0, E0T, E1, E2, S0, S1, P, C = range(8)

# Key instantiations.  The universe is written with the two keys "a" and "b"; an input may carry "keys": [ka, kb]
# (plain strings, compared with the model) or "keyobjs": [da, db] (descriptors of keys that are not plain str; these
# cases have no counterpart in the model and are judged by the oracle alone).  A key is a dict key and nothing else
# for the library: nothing in the property lets its truth value, length or spelling matter.
KEYPAIRS = [("", "0"), ("0", ""), (" ", ""), ("A", "a"), ("ID", "ENTRYTYPE"), ("", "\t")]
BOUNDARY_KEYS = ["", "", "", " ", "\t", "0", "a", "A", "b", "ID", "ENTRYTYPE", "None", "False", "\u00e9", "\u00a0", "  "]
KEYOBJS = [["s", ""], ["s", "a"], ["none"], ["int", 0], ["int", 1], ["bool", 0], ["bool", 1], ["float", 0.0],
           ["tuple"], ["bytes", ""], ["bytes", "a"], ["sub", "", "falsy"], ["sub", "a", "falsy"], ["sub", "a", "len0"],
           ["sub", "", "plain"], ["sub", "a", "plain"], ["sub", "0", "len0"]]


class FalsyStr(str):
    """equal to (and hashing like) the plain string, but `not key` is True"""
    def __bool__(self):
        return False


class Len0Str(str):
    """equal to (and hashing like) the plain string, but len(key) == 0"""
    def __len__(self):
        return 0


class SubStr(str):
    pass


# User subclasses.  An input may carry "sub": one level per universe block: 0 = the plain class, 1 = the trivial
# subclass of userclasses.py, 2 = a trivial subclass of that subclass.  For the property a SubEntry IS an Entry block, a
# SubString a String block, and so on (isinstance); nothing lets the exact class matter.
TWINS = [(0, 1), (4, 9), (6, 10)]         # structurally equal pairs of the universe (the second ones only in UNI13)
SUB_FIXED8 = [
    ("all", [1, 1, 1, 1, 1, 1, 1, 1]),
    ("dup-is-sub", [0, 0, 1, 0, 0, 1, 0, 0]),            # plain first holders, the same-key rivals are subclass instances
    ("first-is-sub", [1, 1, 0, 0, 1, 0, 1, 1]),          # subclass holders, plain rivals
    ("levels", [2, 2, 1, 0, 2, 1, 1, 2]),                # subclass of the subclass v. subclass on one key
    ("mixed-twins", [1, 0, 1, 0, 0, 1, 0, 0]),           # E0 and its twin differ in class: oracle only
]


def rand_levels(rng, n):
    """one class level per universe block; mostly twin-consistent so that the model comparison applies"""
    r = rng.random()
    if r < 0.15:
        lv = [1] * n
    elif r < 0.25:
        lv = [rng.choice([1, 2]) for _ in range(n)]
    else:
        p0 = rng.choice([0.3, 0.5, 0.7])
        lv = [0 if rng.random() < p0 else rng.choice([1, 1, 2]) for _ in range(n)]
    if rng.random() < 0.75:
        for a, b in TWINS:
            if b < n:
                lv[b] = lv[a]
    if not any(lv):
        lv[rng.randrange(n)] = 1
    return lv


def twins_consistent(lv):
    return all(b >= len(lv) or lv[a] == lv[b] for a, b in TWINS)


_SUBCLS = {}


def sub_classes(M):
    """base class -> [plain, trivial subclass, subclass of the subclass], built from the tree under test"""
    if not _SUBCLS:
        from props import userclasses
        uc = userclasses.get()

        class SubFailed(M.ParsingFailedBlock):
            pass

        for base, sub in ((M.Entry, uc.SubEntry), (M.String, uc.SubString), (M.Preamble, uc.SubPreamble),
                          (M.ExplicitComment, uc.SubExplicitComment), (M.ImplicitComment, uc.SubImplicitComment),
                          (M.ParsingFailedBlock, SubFailed)):
            _SUBCLS[base] = [base, sub, type("Sub2" + base.__name__, (sub,), {})]
        _SUBCLS["as_sub"] = uc.as_sub
    return _SUBCLS


def rebuild_as(M, b, cls):
    """the content of block b as an instance of cls (a class of b's family), through the public constructor"""
    if isinstance(b, M.Entry):
        n = cls(b.entry_type, b.key, b.fields, b.start_line, b.raw)
    elif isinstance(b, M.String):
        n = cls(b.key, b.value, b.start_line, b.raw)
    elif isinstance(b, M.Preamble):
        n = cls(b.value, b.start_line, b.raw)
    elif isinstance(b, (M.ExplicitComment, M.ImplicitComment)):
        n = cls(b.comment, b.start_line, b.raw)
    else:
        n = cls(b.error, b.start_line, b.raw)
    pubapi.set_backing(n, "block.parser_metadata", b.parser_metadata)
    return n


def to_level(M, b, lv):
    if lv == 0:
        return b
    sc = sub_classes(M)
    if lv == 1 and type(b) is not M.ParsingFailedBlock:
        n = sc["as_sub"](b)
        assert type(n) is sc[type(b)][1], type(n)
        return n
    return rebuild_as(M, b, sc[type(b)][lv])


def base_of(M, b):
    """the library class a universe block is an instance of (exact class for plain blocks)"""
    for base in (M.Entry, M.String, M.Preamble, M.ExplicitComment, M.ImplicitComment):
        if isinstance(b, base):
            return base
    return M.ParsingFailedBlock


def make_key(d):
    """a NEW key object per call where the type allows (twins then have equal, not identical keys)"""
    t = d[0]
    if t == "s":
        return d[1]
    if t == "none":
        return None
    if t == "int":
        return int(d[1])
    if t == "bool":
        return bool(d[1])
    if t == "float":
        return float(d[1])
    if t == "tuple":
        return ()
    if t == "bytes":
        return d[1].encode()
    return {"falsy": FalsyStr, "len0": Len0Str, "plain": SubStr}[d[2]](d[1])


def U(j):
    return [0, j]


def H(i):
    return [1, i]


def IN(i):
    return [2, i]


def add(refs, fail=0, single=None):
    if single is None:
        single = len(refs) == 1
    return {"op": "add", "refs": refs, "fail": fail, "single": single}


def rem(refs, single=None):
    if single is None:
        single = len(refs) == 1
    return {"op": "remove", "refs": refs, "single": single}


def rep(o, n, fail=2):
    return {"op": "replace", "old": o, "new": n, "fail": fail}


ALPHA32 = (
    [add([U(j)]) for j in (E0, E0T, E1, E2, S0, S1, P)] +
    [add([U(j)], 1) for j in (E0T, E1, S1)] +
    [add([U(E0), U(E1)]), add([U(E1), U(S1)], 1)] +
    [rem([U(j)]) for j in (E0, E0T, E1, S0, P)] +
    [rem([H(0)]), rem([H(1)]), rem([U(E0), U(E1)])] +
    [rep(U(E0), U(E1), 1), rep(U(E0), U(E2), 2), rep(U(E0T), U(E1), 1), rep(U(E0), U(E1), 0), rep(U(E1), U(E0), 1),
     rep(U(S0), U(S1), 1), rep(U(S0), U(E0), 1), rep(H(0), U(E2), 1), rep(H(1), IN(1), 2), rep(H(1), U(E2), 0),
     rep(U(P), U(S1), 1), rep(U(E2), U(E0T), 1)]
)
ALPHA20 = (
    [add([U(j)]) for j in (E0, E1, E2, S0, S1)] + [add([U(E0T)], 1), add([U(E1), U(S1)], 1)] +
    [rem([U(E0T)]), rem([U(S0)]), rem([H(0)]), rem([H(1)]), rem([U(E0), U(E2)])] +
    [rep(U(E0T), U(E2), 1), rep(U(E0), U(E1), 1), rep(U(E2), U(E1), 1), rep(U(S0), U(S1), 1), rep(H(1), IN(1), 1),
     rep(H(0), U(E2), 0), rep(U(S1), U(S0), 1), rep(U(E2), U(E0), 0)]
)
ALPHA11 = (
    [add([U(E0)]), add([U(E1)]), add([U(E2)]), add([U(S0)]), add([U(S1)], 1)] +
    [rem([U(E0T)]), rem([H(1)])] +
    [rep(U(E0T), U(E2), 1), rep(U(E2), U(E1), 1), rep(U(S0), U(S1), 1), rep(H(1), IN(1), 2)]
)


def rand_ref(rng, n):
    r = rng.random()
    if r < 0.55:
        return U(rng.randrange(n))
    if r < 0.85:
        return H(rng.randrange(6))
    return IN(rng.randrange(6))


def rand_op(rng, n):
    r = rng.random()
    if r < 0.4:
        k = 1 if rng.random() < 0.7 else rng.randint(0, 3)
        refs = [rand_ref(rng, n) for _ in range(k)]
        return add(refs, rng.choice([0, 0, 1, 1, 2]), single=(k == 1 and rng.random() < 0.7))
    if r < 0.65:
        k = 1 if rng.random() < 0.7 else rng.randint(0, 3)
        refs = [rand_ref(rng, n) for _ in range(k)]
        return rem(refs, single=(k == 1 and rng.random() < 0.7))
    return rep(rand_ref(rng, n), rand_ref(rng, n), rng.choice([0, 1, 2]))


def generate(rng, tier):
    cases = []
    quick = tier == "quick"
    if quick:
        for h in itertools.product(ALPHA32, repeat=3):
            cases.append({"stream": "exh3", "input": {"uni": 8, "ops": list(h)}})
    else:
        for h in itertools.product(ALPHA32, repeat=3):
            cases.append({"stream": "exh3", "input": {"uni": 8, "ops": list(h)}})
        for h in itertools.product(ALPHA20, repeat=4):
            cases.append({"stream": "exh4", "input": {"uni": 8, "ops": list(h)}})
        for h in itertools.product(ALPHA11, repeat=5):
            cases.append({"stream": "exh5", "input": {"uni": 8, "ops": list(h)}})
    for _ in range(600 if quick else 20000):
        n = rng.randint(1, 30)
        cases.append({"stream": "random", "input": {"uni": 13, "ops": [rand_op(rng, 13) for _ in range(n)]}})
    # the library built by the constructor (Library(blocks) == add(blocks))
    for _ in range(50 if quick else 1000):
        k = rng.randint(0, 6)
        cases.append({"stream": "ctor", "input": {"uni": 13, "ctor": [rng.randrange(13) for _ in range(k)],
                                                   "ops": [rand_op(rng, 13) for _ in range(rng.randint(0, 6))]}})
    # ---- boundary keys (all random draws below come after the streams above, which therefore stay as they were)
    for kp in KEYPAIRS:
        for h in itertools.product(ALPHA32, repeat=2):
            cases.append({"stream": "keys_exh2", "input": {"uni": 8, "keys": list(kp), "ops": list(h)}})
    for kp in (KEYPAIRS[:2] if quick else KEYPAIRS):
        for h in itertools.product(ALPHA11, repeat=3):
            cases.append({"stream": "keys_exh3", "input": {"uni": 8, "keys": list(kp), "ops": list(h)}})
    if not quick:
        for kp in KEYPAIRS[:2]:
            for h in itertools.product(ALPHA32, repeat=3):
                cases.append({"stream": "keys_exh3w", "input": {"uni": 8, "keys": list(kp), "ops": list(h)}})
        for kp in KEYPAIRS[:3]:
            for h in itertools.product(ALPHA11, repeat=4):
                cases.append({"stream": "keys_exh4", "input": {"uni": 8, "keys": list(kp), "ops": list(h)}})
    for _ in range(300 if quick else 6000):
        ka = rng.choice(BOUNDARY_KEYS)
        kb = ka if rng.random() < 0.1 else rng.choice(BOUNDARY_KEYS)
        n = rng.randint(1, 30)
        inp = {"uni": 13, "keys": [ka, kb], "ops": [rand_op(rng, 13) for _ in range(n)]}
        if rng.random() < 0.15:
            inp["ctor"] = [rng.randrange(13) for _ in range(rng.randint(0, 6))]
        cases.append({"stream": "keys_random", "input": inp})
    # keys that are not plain str: oracle only
    for da in KEYOBJS:
        for h in itertools.product(ALPHA11, repeat=2):
            cases.append({"stream": "keyobj_exh2", "input": {"uni": 8, "keyobjs": [da, ["s", "b"]], "ops": list(h)}})
    for _ in range(150 if quick else 3000):
        da = rng.choice(KEYOBJS)
        db = da if rng.random() < 0.1 else rng.choice(KEYOBJS)
        n = rng.randint(1, 20)
        cases.append({"stream": "keyobj_random", "input": {"uni": 13, "keyobjs": [da, db],
                                                            "ops": [rand_op(rng, 13) for _ in range(n)]}})
    # ---- user subclasses of the block classes next to plain blocks (drawn after everything above)
    assigns = [lv for _, lv in SUB_FIXED8]
    drawn = []
    while len(drawn) < (2 if quick else 6):
        lv = rand_levels(rng, 8)
        if lv not in assigns + drawn:
            drawn.append(lv)
    for lv in assigns + drawn:
        for h in itertools.product(ALPHA32, repeat=2):
            cases.append({"stream": "sub_exh2", "input": {"uni": 8, "sub": lv, "ops": list(h)}})
    for lv in (assigns[:1] + assigns[4:] + drawn[:1] if quick else assigns + drawn):
        for h in itertools.product(ALPHA11, repeat=3):
            cases.append({"stream": "sub_exh3", "input": {"uni": 8, "sub": lv, "ops": list(h)}})
    if not quick:
        for lv in assigns[:3]:
            for h in itertools.product(ALPHA32, repeat=3):
                cases.append({"stream": "sub_exh3w", "input": {"uni": 8, "sub": lv, "ops": list(h)}})
        for lv in assigns[3:] + drawn[:2]:
            for h in itertools.product(ALPHA20, repeat=3):
                cases.append({"stream": "sub_exh3w", "input": {"uni": 8, "sub": lv, "ops": list(h)}})
        for lv in assigns[:2] + drawn[:1]:
            for h in itertools.product(ALPHA11, repeat=4):
                cases.append({"stream": "sub_exh4", "input": {"uni": 8, "sub": lv, "ops": list(h)}})
    for _ in range(500 if quick else 12000):
        n = rng.randint(1, 30)
        inp = {"uni": 13, "sub": rand_levels(rng, 13), "ops": [rand_op(rng, 13) for _ in range(n)]}
        r = rng.random()
        if r < 0.2:
            ka = rng.choice(BOUNDARY_KEYS)
            inp["keys"] = [ka, ka if rng.random() < 0.1 else rng.choice(BOUNDARY_KEYS)]
        elif r < 0.3:
            da = rng.choice(KEYOBJS)
            inp["keyobjs"] = [da, da if rng.random() < 0.1 else rng.choice(KEYOBJS)]
        if rng.random() < 0.15:
            inp["ctor"] = [rng.randrange(13) for _ in range(rng.randint(0, 6))]
        cases.append({"stream": "sub_random", "input": inp})
    return cases


def build_universe(n, keys=None, keyobjs=None, sub=None):
    from bibtexparser import model as M
    out = []
    if sub is not None:
        return [to_level(M, b, lv) for b, lv in zip(build_universe(n, keys, keyobjs), sub)]

    def key(k):
        j = "ab".index(k)
        if keyobjs is not None:
            return make_key(keyobjs[j])
        return keys[j] if keys is not None else k

    for d in (UNI8 if n == 8 else UNI13):
        t = d[0]
        if t == "E":
            out.append(M.Entry(d[1], key(d[2]), [M.Field(k, v, ln) for k, v, ln in d[3]], d[4], d[5]))
        elif t == "S":
            out.append(M.String(key(d[1]), d[2], d[3], d[4]))
        elif t == "P":
            out.append(M.Preamble(d[1], d[2], d[3]))
        elif t == "C":
            out.append(M.ExplicitComment(d[1], d[2], d[3]))
        elif t == "I":
            out.append(M.ImplicitComment(d[1], d[2], d[3]))
        else:
            out.append(M.ParsingFailedBlock(Exception("boom"), d[1], d[2]))
    return out


def plain(b):
    """what a caller can see of one of its blocks, for cases without a model encoding (keys by identity and repr)"""
    k = getattr(b, "key", None)
    fs = getattr(b, "fields", None) if hasattr(b, "entry_type") else None
    return (type(b).__name__, id(k), repr(k), type(k).__name__, b.start_line, b.raw, getattr(b, "entry_type", None),
            None if fs is None else [(id(f), f.key, f.value, f.start_line) for f in fs],
            getattr(b, "value", None), getattr(b, "comment", None))


VIEWS = ["blocks", "entries", "entries_dict", "strings", "strings_dict", "preambles", "comments", "failed_blocks"]


def snapshot(lib):
    """the eight views, as shallow copies"""
    s = {}
    for v in VIEWS:
        x = getattr(lib, v)
        s[v] = dict(x) if isinstance(x, dict) else list(x)
    return s


def same_ids(a, b):
    return len(a) == len(b) and all(x is y for x, y in zip(a, b))


def check_inv(M, s):
    """the state part of the property, on one snapshot; returns '' or a diagnostic"""
    bl = s["blocks"]
    ents = [b for b in bl if isinstance(b, M.Entry)]
    strs = [b for b in bl if isinstance(b, M.String)]
    if not same_ids(s["entries"], ents):
        return "entries is not the Entry blocks of blocks in order"
    for name, held, d in (("entries", ents, s["entries_dict"]), ("strings", strs, s["strings_dict"])):
        keys = [b.key for b in held]
        if len(set(keys)) != len(keys):
            return "two held %s share a key: %r" % (name, keys)
        if set(d.keys()) != set(keys):
            return "%s_dict keys %r differ from the held keys %r" % (name, sorted(d, key=repr), sorted(keys, key=repr))
        for b in held:
            if d[b.key] is not b:
                return "%s_dict[%r] is not the held block" % (name, b.key)
    if not same_ids(s["strings"], strs):
        return "strings is not the String blocks of blocks in order"
    parts = s["entries"] + s["strings"] + s["preambles"] + s["comments"] + s["failed_blocks"]
    if sorted(map(id, parts)) != sorted(map(id, bl)):
        return "entries, strings, preambles, comments, failed_blocks do not partition blocks"
    if not all(isinstance(b, M.Preamble) for b in s["preambles"]) or \
            not all(isinstance(b, (M.ExplicitComment, M.ImplicitComment)) for b in s["comments"]) or \
            not all(isinstance(b, M.ParsingFailedBlock) for b in s["failed_blocks"]):
        return "a view holds a block of another class"
    for v, cls in (("preambles", M.Preamble), ("comments", (M.ExplicitComment, M.ImplicitComment)),
                   ("failed_blocks", M.ParsingFailedBlock)):
        if not same_ids(s[v], [b for b in bl if isinstance(b, cls)]):
            return "%s is not in block order" % v
    return ""


def wraps(M, x, arg):
    return isinstance(x, M.DuplicateBlockKeyBlock) and x.ignore_error_block is arg and x.key == arg.key


def views_equal(a, b):
    """None if all eight views compare equal (lists in order, dicts as mappings), else the name of a differing view"""
    for v in VIEWS:
        if a[v] != b[v]:
            return v
    return None


def impl(case):
    import enc
    import implutil
    from bibtexparser import model as M
    from bibtexparser.library import Library
    inp = case["input"]
    sub = inp.get("sub")
    strkeys = "keyobjs" not in inp
    # the model has no classes below the library's own: a subclass instance is encoded like a plain instance of its
    # base class.  That is exact unless structurally equal twins differ in class (== is then False for Python)
    modelled = strkeys and (sub is None or twins_consistent(sub))
    uni = build_universe(inp["uni"], inp.get("keys"), inp.get("keyobjs"), sub)
    level = {id(b): lv for b, lv in zip(uni, sub)} if sub is not None else {}

    def enc_b(b):
        if level.get(id(b), 0) == 0:
            return enc.enc_block(b)
        if type(b) is not sub_classes(M)[base_of(M, b)][level[id(b)]]:
            return [99, -1]
        return enc.enc_block(rebuild_as(M, b, base_of(M, b)))

    def enc_uni():
        return [enc_b(b) for b in uni] if strkeys else [(plain(b), type(b)) for b in uni]

    uni_enc = enc_uni()
    oid = {id(b): j for j, b in enumerate(uni)}
    wid = {}
    keep = []                       # keeps every object we numbered alive

    def ob(b):
        j = oid.get(id(b))
        if j is not None:
            return j
        if type(b).__name__ == "DuplicateBlockKeyBlock":
            c = wid.get(id(b))
            if c is None:
                c = 1000 + len(wid)
                wid[id(b)] = c
                keep.append(b)
            return [c, enc.enc_opt(enc.enc_int, b.start_line), enc.enc_opt(enc.enc_str, b.raw), enc.enc_str(b.key),
                    oid.get(id(b.previous_block), -1), oid.get(id(b.ignore_error_block), -1)]
        keep.append(b)
        return [-5]

    def enc_views(outcome, s):
        if not modelled:
            return None
        return [outcome, [ob(b) for b in s["blocks"]], [ob(b) for b in s["entries"]],
                [[enc.enc_str(k), ob(b)] for k, b in s["entries_dict"].items()],
                [ob(b) for b in s["strings"]],
                [[enc.enc_str(k), ob(b)] for k, b in s["strings_dict"].items()],
                [ob(b) for b in s["preambles"]], [ob(b) for b in s["comments"]], [ob(b) for b in s["failed_blocks"]]]

    sx_ops = []
    ops = list(inp["ops"])
    if "ctor" in inp:
        ops = [{"op": "ctor", "refs": [U(j) for j in inp["ctor"]]}] + ops
    lib = Library() if "ctor" not in inp else None
    outs = []
    problems, known = [], []
    interesting = False
    tags = set()
    seen_wrappers = set()

    def resolve(r):
        kind, i = r
        if kind == 0:
            return uni[i]
        bl = lib.blocks if lib is not None else []
        if not bl:
            return uni[0]
        b = bl[i % len(bl)]
        if kind == 2 and type(b).__name__ == "DuplicateBlockKeyBlock":
            return b.ignore_error_block
        return b

    for n, op in enumerate(ops):
        kind = op["op"]
        before = snapshot(lib) if lib is not None else {v: ({} if v.endswith("dict") else []) for v in VIEWS}
        if kind in ("add", "ctor"):
            args = [resolve(r) for r in op["refs"]]
            fail = op.get("fail", 0)
            sx_ops.append([0, [list(r) for r in op["refs"]], fail])
            if kind == "ctor":
                def call():
                    return Library(args)
            else:
                a = args[0] if (op["single"] and len(args) == 1) else args
                if fail == 2:
                    def call():
                        lib.add(a)
                else:
                    def call():
                        lib.add(a, fail_on_duplicate_key=bool(fail))
        elif kind == "remove":
            args = [resolve(r) for r in op["refs"]]
            sx_ops.append([1, [list(r) for r in op["refs"]]])
            a = args[0] if (op["single"] and len(args) == 1) else args

            def call():
                lib.remove(a)
        else:
            old, new = resolve(op["old"]), resolve(op["new"])
            fail = op["fail"]
            sx_ops.append([2, list(op["old"]), list(op["new"]), fail])
            if fail == 2:
                def call():
                    lib.replace(old, new)
            else:
                def call():
                    lib.replace(old, new, fail_on_duplicate_key=bool(fail))
        r = implutil.guarded(call)
        if kind == "ctor":
            if r[0] == "ok":
                lib = r[1]
            else:
                # the constructor raised: nothing to observe
                outs.append([[1, r[1]]] + [[] for _ in VIEWS])
                problems.append("call %d Library(...) raised %s" % (n, r[2]))
                break
        after = snapshot(lib)
        outcome = [0] if r[0] == "ok" else [1, r[1]]
        outs.append(enc_views(outcome, after))
        tags.add(kind + (":raise" if r[0] == "exc" else ""))
        if sub is not None:
            for x in after["blocks"]:
                if isinstance(x, M.DuplicateBlockKeyBlock) and id(x) not in seen_wrappers:
                    seen_wrappers.add(id(x))
                    keep.append(x)
                    tags.add("sub:%s-duplicates-%s" % ("sub" if level.get(id(x.ignore_error_block)) else "plain",
                                                       "sub" if level.get(id(x.previous_block)) else "plain"))
            if any(level.get(id(x)) for x in after["entries"] + after["strings"]):
                tags.add("sub:held-keyed")
        # ------------------------------------------------------------ oracle
        where = "call %d %s: " % (n, json.dumps(op))
        d = check_inv(M, after)
        if d:
            problems.append(where + d)
            continue
        bb, ab = before["blocks"], after["blocks"]
        if r[0] == "exc":
            interesting = True
            if r[2] != "ValueError":
                problems.append(where + "raised %s" % r[2])
                continue
            diff = views_equal(before, after)
            if diff is not None:
                if kind == "add" and op.get("fail") == 1:
                    known.append("K1")            # documented: duplicates are added, then ValueError is raised
                    tags.add("K1")
                else:
                    problems.append(where + "raised ValueError but view %s changed" % diff)
            continue
        if kind in ("add", "ctor"):
            tail = ab[len(bb):]
            if not same_ids(ab[:len(bb)], bb) or len(tail) != len(args):
                problems.append(where + "add did not append exactly its arguments")
            elif not all(x is a or wraps(M, x, a) for x, a in zip(tail, args)):
                problems.append(where + "an appended block is neither the argument nor its duplicate wrapper")
            if any(x is not a for x, a in zip(tail, args)):
                interesting = True
        elif kind == "remove":
            interesting = True
            exp = list(bb)
            try:
                for a in args:
                    exp.remove(a)
            except ValueError:
                problems.append(where + "returned normally although an argument is not held")
                continue
            if not same_ids(ab, exp):
                problems.append(where + "remove did not close exactly the gaps of its arguments")
        else:
            interesting = True
            try:
                idx = bb.index(old)
            except ValueError:
                problems.append(where + "returned normally although the old block is not held")
                continue
            if len(ab) != len(bb) or not same_ids(ab[:idx], bb[:idx]) or not same_ids(ab[idx + 1:], bb[idx + 1:]):
                problems.append(where + "replace moved other blocks")
            elif not (ab[idx] is new or (wraps(M, ab[idx], new) and op["fail"] == 0)):
                problems.append(where + "position %d does not hold the new block" % idx)
    if enc_uni() != uni_enc:
        problems.append("a caller's block was modified")
    if sub is not None:
        tags.add("sub:all" if all(sub) else "sub:some")
        if max(sub) == 2:
            tags.add("sub:subclass-of-subclass")
        if not twins_consistent(sub):
            tags.add("sub:twins-differ-in-class(oracle-only)")
    if "keys" in inp:
        tags.add("keys:empty" if "" in inp["keys"] else "keys:boundary")
    if not strkeys:
        tags.add("keys:not-str")
    sx_in = [30, uni_enc, sx_ops] if modelled else None
    rec = {"sx_in": sx_in, "sx_out": implutil.r_ok(outs) if modelled else None, "key": json.dumps(inp, sort_keys=True),
           "nontrivial": interesting, "tags": sorted(tags),
           "summary": repr([type(b).__name__[:5] + ":" + str(getattr(b, "key", "")) for b in (lib.blocks if lib else [])])[:200]}
    if problems:
        rec["oracle"] = {"ok": False, "detail": problems[0]}
    elif known:
        rec["oracle"] = {"ok": False, "detail": "known finding class K1", "known": "K1"}
    else:
        rec["oracle"] = {"ok": True, "detail": ""}
    return rec


def shrink(case):
    inp = case["input"]
    ops = inp["ops"]
    for i in range(len(ops) - 1, -1, -1):
        c = json.loads(json.dumps(case))
        del c["input"]["ops"][i]
        yield c
    for i, op in enumerate(ops):
        if op["op"] in ("add", "remove") and len(op["refs"]) > 1:
            for j in range(len(op["refs"])):
                c = json.loads(json.dumps(case))
                del c["input"]["ops"][i]["refs"][j]
                yield c
    for j, lv in enumerate(inp.get("sub") or []):
        if lv:
            c = json.loads(json.dumps(case))
            c["input"]["sub"][j] = 0
            for a, b in TWINS:              # keep twins in one class, so that the model still applies
                if j in (a, b) and max(a, b) < len(c["input"]["sub"]):
                    c["input"]["sub"][a] = c["input"]["sub"][b] = 0
            yield c
