"""C08 - Library views stay consistent under any history of add / remove / replace."""
from props import pubapi
import itertools
import json

ENGINE = "library"
RULE = ("histories of Library.add (single, list, fail_on_duplicate_key), remove (single, list), replace (both modes, "
        "argument given or defaulted) over a universe of 8 blocks (entries E0, its structurally equal twin E0', E1 with "
        "the same key, E2; strings S0, S1 with one key that is also the entries' key; a preamble; a comment) - 13 in the "
        "random stream (more twins, a failed block, an implicit comment) - where arguments are universe blocks, blocks "
        "currently held (incl. duplicate wrappers) or the duplicate inside a held wrapper; calls that raise are part of "
        "the histories. All histories over a 32-call alphabet to depth 3 (quick); depth 4 over 20 calls and depth 5 "
        "over 11 calls (thorough); random histories to depth 30; corpus: the witness of the repaired strings-order defect. "
        "The two keys of the universe are also instantiated with boundary keys (empty string, one blank, a tab, '0', keys "
        "differing only in letter case, 'ID' / 'ENTRYTYPE', 'None', non-ASCII): all histories to depth 2 over the 32-call "
        "alphabet and depth 3 over 11 calls for fixed key pairs (quick; one level deeper in thorough) plus random "
        "histories with random key pairs; an oracle-only stream uses keys that are not plain str (None, 0, False, 0.0, "
        "(), b'', str subclasses that are falsy / report length 0). USER SUBCLASSES: every block of the universe may be "
        "an instance of a trivial user subclass of its class (harness/props/userclasses.py: SubEntry, SubString, "
        "SubPreamble, SubExplicitComment, SubImplicitComment; a subclass of ParsingFailedBlock) or of a subclass of that "
        "subclass, next to plain blocks with the same key: fixed and per-run random class assignments x all histories to "
        "depth 2 over the 32-call alphabet and depth 3 over 11 calls (quick; depth 3 over 32 / 20 calls and depth 4 in "
        "thorough) plus random histories with a random class per block (also with boundary keys, constructor, non-str "
        "keys). A subclass instance is encoded for the model like a plain instance of its base class (the library may "
        "only use isinstance); when two structurally equal twins get different classes they are unequal for Python "
        "but not for the model, and the case is judged by the oracle alone. After EVERY call all eight views are compared with "
        "the model by object identity and checked against the property. TEXT-MACHINERY KEYS x PARSED-LOOKING BLOCKS: the two "
        "keys are instantiated with keys that mean something to str.format / %-formatting / string.Template / re / repr "
        "(braces, named and positional fields, unbalanced braces, %s, %(x)s, lone %, $x, backslashes, quotes, newlines, regex "
        "and glob characters), with selfref.MAGIC_WORDS, with keys of 300 - 5000 characters that differ only in the last / "
        "first character, and with pairs that a text transformation would identify ('{{' / '{', '%%' / '%', 'a\\n' / 'a'); "
        "every block of the universe is built with start_line / raw None, or with concrete start lines (0-based or offset) and "
        "the raw text a parser would have recorded (which contains the key), or a per-block mix (also: line without raw, raw "
        "without line): six fixed collision scripts for EVERY key of the pool x both builds, all histories to depth 2 over 11 "
        "calls for fixed and drawn key pairs x both builds, depth 2 over 32 calls and depth 3 over 11 calls for one pair, "
        "random histories with random keys / builds / classes (more of each in thorough). In all streams a call may raise "
        "ValueError only where the documented interface allows it (add: fail_on_duplicate_key=True and a duplicate was "
        "wrapped; remove: an argument is not held; replace: the old block is not held, or the mode is not False). "
        "distinct = distinct history; non-trivial = "
        "some call wraps a duplicate, raises, removes or replaces a held block")
TRUSTED = ["object identity observed with id() on objects kept alive by the harness; wrapper objects are numbered by "
           "first appearance in the transcript on both sides"]
ASSUMPTIONS = ["CPython list.remove/list.index compare with == after an identity shortcut; dict preserves insertion order"]

# universe: index -> constructor description
UNI8 = [
    ["E", "article", "a", [["t", "x", 1]], 0, "@a"],       # 0 E0
    ["E", "article", "a", [["t", "x", 1]], 0, "@a"],       # 1 E0' (twin: equal, not identical)
    ["E", "book", "a", [], 1, "@b"],                       # 2 E1 same key, other content
    ["E", "misc", "b", [], 2, None],                       # 3 E2
    ["S", "a", "v", 3, "@s"],                              # 4 S0 (a string named like the entries)
    ["S", "a", "w", 4, None],                              # 5 S1 same key
    ["P", "p", 5, None],                                   # 6
    ["C", "c", 6, None],                                   # 7
]
UNI13 = UNI8 + [
    ["S", "b", "v2", 7, None],                             # 8 S2
    ["S", "a", "v", 3, "@s"],                              # 9 S0' twin of S0
    ["P", "p", 5, None],                                   # 10 P' twin of P
    ["F", 8, "bad"],                                       # 11 a ParsingFailedBlock with its own exception
    ["I", "c", 6, None],                                   # 12 ImplicitComment with the content of C
]
E0, E0T, E1, E2, S0, S1, P, C = range(8)

# Key instantiations.  The universe is written with the two keys "a" and "b"; an input may carry "keys": [ka, kb]
# (plain strings, compared with the model) or "keyobjs": [da, db] (descriptors of keys that are not plain str; these
# cases have no counterpart in the model and are judged by the oracle alone).  A key is a dict key and nothing else
# for the library: nothing in the property lets its truth value, length or spelling matter.
KEYPAIRS = [("", "0"), ("0", ""), (" ", ""), ("A", "a"), ("ID", "ENTRYTYPE"), ("", "\t")]
BOUNDARY_KEYS = ["", "", "", " ", "\t", "0", "a", "A", "b", "ID", "ENTRYTYPE", "None", "False", "\u00e9", "\u00a0", "  "]
KEYOBJS = [["s", ""], ["s", "a"], ["none"], ["int", 0], ["int", 1], ["bool", 0], ["bool", 1], ["float", 0.0],
           ["tuple"], ["bytes", ""], ["bytes", "a"], ["sub", "", "falsy"], ["sub", "a", "falsy"], ["sub", "a", "len0"],
           ["sub", "", "plain"], ["sub", "a", "plain"], ["sub", "0", "len0"]]


class FalsyStr(str):
    """equal to (and hashing like) the plain string, but `not key` is True"""
    def __bool__(self):
        return False


class Len0Str(str):
    """equal to (and hashing like) the plain string, but len(key) == 0"""
    def __len__(self):
        return 0


class SubStr(str):
    pass


# User subclasses.  An input may carry "sub": one level per universe block: 0 = the plain class, 1 = the trivial
# subclass of userclasses.py, 2 = a trivial subclass of that subclass.  For the property a SubEntry IS an Entry block, a
# SubString a String block, and so on (isinstance); nothing lets the exact class matter.
TWINS = [(0, 1), (4, 9), (6, 10)]         # structurally equal pairs of the universe (the second ones only in UNI13)
SUB_FIXED8 = [
    ("all", [1, 1, 1, 1, 1, 1, 1, 1]),
    ("dup-is-sub", [0, 0, 1, 0, 0, 1, 0, 0]),            # plain first holders, the same-key rivals are subclass instances
    ("first-is-sub", [1, 1, 0, 0, 1, 0, 1, 1]),          # subclass holders, plain rivals
    ("levels", [2, 2, 1, 0, 2, 1, 1, 2]),                # subclass of the subclass v. subclass on one key
    ("mixed-twins", [1, 0, 1, 0, 0, 1, 0, 0]),           # E0 and its twin differ in class: oracle only
]


def rand_levels(rng, n):
    """one class level per universe block; mostly twin-consistent so that the model comparison applies"""
    r = rng.random()
    if r < 0.15:
        lv = [1] * n
    elif r < 0.25:
        lv = [rng.choice([1, 2]) for _ in range(n)]
    else:
        p0 = rng.choice([0.3, 0.5, 0.7])
        lv = [0 if rng.random() < p0 else rng.choice([1, 1, 2]) for _ in range(n)]
    if rng.random() < 0.75:
        for a, b in TWINS:
            if b < n:
                lv[b] = lv[a]
    if not any(lv):
        lv[rng.randrange(n)] = 1
    return lv


def twins_consistent(lv):
    return all(b >= len(lv) or lv[a] == lv[b] for a, b in TWINS)


_SUBCLS = {}


def sub_classes(M):
    """base class -> [plain, trivial subclass, subclass of the subclass], built from the tree under test"""
    if not _SUBCLS:
        from props import userclasses
        uc = userclasses.get()

        class SubFailed(M.ParsingFailedBlock):
            pass

        for base, sub in ((M.Entry, uc.SubEntry), (M.String, uc.SubString), (M.Preamble, uc.SubPreamble),
                          (M.ExplicitComment, uc.SubExplicitComment), (M.ImplicitComment, uc.SubImplicitComment),
                          (M.ParsingFailedBlock, SubFailed)):
            _SUBCLS[base] = [base, sub, type("Sub2" + base.__name__, (sub,), {})]
        _SUBCLS["as_sub"] = uc.as_sub
    return _SUBCLS


def rebuild_as(M, b, cls):
    """the content of block b as an instance of cls (a class of b's family), through the public constructor"""
    if isinstance(b, M.Entry):
        n = cls(b.entry_type, b.key, b.fields, b.start_line, b.raw)
    elif isinstance(b, M.String):
        n = cls(b.key, b.value, b.start_line, b.raw)
    elif isinstance(b, M.Preamble):
        n = cls(b.value, b.start_line, b.raw)
    elif isinstance(b, (M.ExplicitComment, M.ImplicitComment)):
        n = cls(b.comment, b.start_line, b.raw)
    else:
        n = cls(b.error, b.start_line, b.raw)
    pubapi.set_backing(n, "block.parser_metadata", b.parser_metadata)
    return n


def to_level(M, b, lv):
    if lv == 0:
        return b
    sc = sub_classes(M)
    if lv == 1 and type(b) is not M.ParsingFailedBlock:
        n = sc["as_sub"](b)
        assert type(n) is sc[type(b)][1], type(n)
        return n
    return rebuild_as(M, b, sc[type(b)][lv])


def base_of(M, b):
    """the library class a universe block is an instance of (exact class for plain blocks)"""
    for base in (M.Entry, M.String, M.Preamble, M.ExplicitComment, M.ImplicitComment):
        if isinstance(b, base):
            return base
    return M.ParsingFailedBlock


def make_key(d):
    """a NEW key object per call where the type allows (twins then have equal, not identical keys)"""
    t = d[0]
    if t == "s":
        return d[1]
    if t == "none":
        return None
    if t == "int":
        return int(d[1])
    if t == "bool":
        return bool(d[1])
    if t == "float":
        return float(d[1])
    if t == "tuple":
        return ()
    if t == "bytes":
        return d[1].encode()
    return {"falsy": FalsyStr, "len0": Len0Str, "plain": SubStr}[d[2]](d[1])


def U(j):
    return [0, j]


def H(i):
    return [1, i]


def IN(i):
    return [2, i]


def add(refs, fail=0, single=None):
    if single is None:
        single = len(refs) == 1
    return {"op": "add", "refs": refs, "fail": fail, "single": single}


def rem(refs, single=None):
    if single is None:
        single = len(refs) == 1
    return {"op": "remove", "refs": refs, "single": single}


def rep(o, n, fail=2):
    return {"op": "replace", "old": o, "new": n, "fail": fail}


ALPHA32 = (
    [add([U(j)]) for j in (E0, E0T, E1, E2, S0, S1, P)] +
    [add([U(j)], 1) for j in (E0T, E1, S1)] +
    [add([U(E0), U(E1)]), add([U(E1), U(S1)], 1)] +
    [rem([U(j)]) for j in (E0, E0T, E1, S0, P)] +
    [rem([H(0)]), rem([H(1)]), rem([U(E0), U(E1)])] +
    [rep(U(E0), U(E1), 1), rep(U(E0), U(E2), 2), rep(U(E0T), U(E1), 1), rep(U(E0), U(E1), 0), rep(U(E1), U(E0), 1),
     rep(U(S0), U(S1), 1), rep(U(S0), U(E0), 1), rep(H(0), U(E2), 1), rep(H(1), IN(1), 2), rep(H(1), U(E2), 0),
     rep(U(P), U(S1), 1), rep(U(E2), U(E0T), 1)]
)
ALPHA20 = (
    [add([U(j)]) for j in (E0, E1, E2, S0, S1)] + [add([U(E0T)], 1), add([U(E1), U(S1)], 1)] +
    [rem([U(E0T)]), rem([U(S0)]), rem([H(0)]), rem([H(1)]), rem([U(E0), U(E2)])] +
    [rep(U(E0T), U(E2), 1), rep(U(E0), U(E1), 1), rep(U(E2), U(E1), 1), rep(U(S0), U(S1), 1), rep(H(1), IN(1), 1),
     rep(H(0), U(E2), 0), rep(U(S1), U(S0), 1), rep(U(E2), U(E0), 0)]
)
ALPHA11 = (
    [add([U(E0)]), add([U(E1)]), add([U(E2)]), add([U(S0)]), add([U(S1)], 1)] +
    [rem([U(E0T)]), rem([H(1)])] +
    [rep(U(E0T), U(E2), 1), rep(U(E2), U(E1), 1), rep(U(S0), U(S1), 1), rep(H(1), IN(1), 2)]
)


# Keys that are special to some Python text machinery.  For the library a key is a dict key and the label of a duplicate
# wrapper; nothing in the property lets a brace, a percent sign, a dollar, a backslash, a quote, a line break, the length
# or a coincidence with a word the library uses elsewhere matter.  (Parsed keys cannot contain most of these characters;
# blocks built or re-keyed through the API can.)
FORMAT_KEYS = ["{}", "{0}", "{1}", "{key}", "{line}", "{a}", "{Knuth1984}", "{", "}", "{{", "}}", "{{}}", "{{a}}", "}{",
               "a{b}c", "Knuth{", "a}", "{0!r}", "{0:>8}", "{a.b}", "{a[0]}", "{!}", "{:}", "{start_line}", "{self}"]
PERCENT_KEYS = ["%s", "%(x)s", "%(key)s", "%(line)d", "%", "%%", "%d", "%r", "100%", "a%sb", "%s%s", "%(", "%c", "% d"]
TEMPLATE_KEYS = ["$x", "${x}", "$", "$$", "$key", "${", "a$b", "$1"]
BACKSLASH_KEYS = ["\\", "\\\\", "\\n", "\\1", "\\g<0>", "\\x", "a\\", "\\{", "\\'", "\\N{DASH}", "\\u0041"]
QUOTE_KEYS = ["'", '"', "'a'", '"a"', "'''", '"""', "a'b", 'a"b', "'\"", "`a`"]
NEWLINE_KEYS = ["\n", "a\nb", "a\n", "\na", "\r\n", "a\r", "a\r\nb", "\n\n", "a\u2028b", "a\x85", "a\x00b"]
REGEX_GLOB_KEYS = [".*", "a.b", "(a", "a)", "[a]", "[", "a|b", "^a$", "a+", "a?", "*", "\\d", "(?i)a", "a{2}"]
_L300, _L1100, _L5000 = "k" * 300, "kq" * 550, "k" * 5000
LONG_KEYS = [_L300 + "a", _L300 + "b", "a" + _L300, "b" + _L300, _L1100 + "a", _L1100 + "b"]
HUGE_KEYS = [_L5000 + "a", _L5000 + "b"]               # short histories only
# pairs that some text transformation would make equal: distinct keys must stay distinct
COLLAPSE = [("{{", "{"), ("}}", "}"), ("{{a}}", "{a}"), ("{a}", "a"), ("{0}", "{}"), ("%%", "%"), ("%s", "%r"),
            ("$$", "$"), ("${x}", "$x"), ("\\\\", "\\"), ("\\n", "\n"), ("\\x", "x"), ("\\u0041", "A"), ("a\n", "a"),
            ("\na", "a"), ("a\r\nb", "a\nb"), ("'a'", "a"), ('"a"', "a"), ("'a'", '"a"'), ("a.b", "a?b"), ("[a]", "a"),
            (LONG_KEYS[0], LONG_KEYS[1]), (LONG_KEYS[2], LONG_KEYS[3]), (LONG_KEYS[4], LONG_KEYS[5]),
            (HUGE_KEYS[0], HUGE_KEYS[1])]
TEXT_PAIRS_FIXED = [("{a}", "{"), ("%s", "%(x)s"), ("$x", "\\"), ("a\nb", "'")]


def text_pool():
    """every key of the class once, in a fixed order"""
    from props import selfref
    out = []
    for k in (FORMAT_KEYS + PERCENT_KEYS + TEMPLATE_KEYS + BACKSLASH_KEYS + QUOTE_KEYS + NEWLINE_KEYS + REGEX_GLOB_KEYS +
              list(selfref.MAGIC_WORDS) + LONG_KEYS + HUGE_KEYS):
        if k not in out:
            out.append(k)
    return out


def text_partner(rng, ka, pool):
    """the second key of the universe: plain, another key of the class, or one that a text transformation maps to ka"""
    twins = [b for a, b in COLLAPSE if a == ka] + [a for a, b in COLLAPSE if b == ka]
    r = rng.random()
    if r < 0.45:
        if twins:
            return rng.choice(twins)
    elif r < 0.55:
        return ka
    elif r < 0.75:
        return "b" if ka != "b" else "a"
    kb = rng.choice(pool)
    while len(kb) > 2000 and len(ka) < 2000:
        kb = rng.choice(pool)
    return kb


def key_kinds(k):
    from props import selfref
    out = []
    if "{" in k or "}" in k:
        out.append("format-braces")
    if "%" in k:
        out.append("percent")
    if "$" in k:
        out.append("template-dollar")
    if "\\" in k:
        out.append("backslash")
    if "'" in k or '"' in k or "`" in k:
        out.append("quote")
    if any(c in k for c in "\n\r\u2028\x85\x00"):
        out.append("newline-or-control")
    if any(c in k for c in "*?[]()|^.+"):
        out.append("regex-glob")
    if len(k) >= 200:
        out.append("long")
    if k in selfref.MAGIC_WORDS:
        out.append("magic-word")
    return out


# How a block is placed in a file.  An input may carry "lines": one mode per universe block:
#   0  start_line None, raw None (a block made by the caller)      1  0-based start line, the raw text a parser records
#   2  start line offset by 7 (no block on line 0), raw text        3  as the universe is written above
#   4  start line, raw None                                         5  raw text, start_line None
LINES_NONE, LINES_PARSED0, LINES_PARSED7, LINES_WRITTEN, LINES_NORAW, LINES_NOLINE = range(6)


def rand_lines(rng, n):
    r = rng.random()
    if r < 0.2:
        return [LINES_NONE] * n
    if r < 0.45:
        return [rng.choice([LINES_PARSED0, LINES_PARSED7])] * n
    pal = rng.choice([[0, 1], [0, 2], [0, 1, 2, 3], [0, 1, 2, 3, 4, 5], [1, 2, 4, 5]])
    ln = [rng.choice(pal) for _ in range(n)]
    if rng.random() < 0.75:
        for a, b in TWINS:
            if b < n:
                ln[b] = ln[a]
    return ln


def key_text(k):
    return k if type(k) is str else repr(k)


def placed(mode, line, raw, text):
    """(start_line, raw) of a block that the universe writes on `line` with raw text `raw`; `text` is what a parser
    would have recorded for it"""
    if mode == LINES_WRITTEN:
        return line, raw
    if mode == LINES_NONE:
        return None, None
    ln = 3 * line if mode == LINES_PARSED0 else 7 + 3 * line
    return (None if mode == LINES_NOLINE else ln), (None if mode == LINES_NORAW else text)


# collision scripts over the 8-block universe: every one builds duplicate wrappers (for entries and for strings, with
# either same-key block as the first holder), fails a replace / an add on the key, and frees and re-takes the key
SCRIPTS = [
    {"ops": [add([U(E0)]), add([U(E1)]), rem([U(E0)]), add([U(E0)], 1), rep(H(0), IN(0), 1), rep(H(0), IN(0), 0)]},
    {"ops": [add([U(E1)]), add([U(E0), U(S0), U(S1), U(P)], 2), rep(H(1), IN(1), 0), rem([H(1)]), rep(U(E1), U(E0), 2),
             add([U(E1), U(S1)], 1)]},
    {"ops": [add([U(E0)]), add([U(E2)]), rep(U(E2), U(E1), 1), rep(U(E2), U(E1), 0), rem([U(E0)]), rep(H(0), IN(0), 1)]},
    {"ops": [add([U(S0)]), add([U(S1)]), rep(U(S0), U(S1), 1), rem([U(S0)]), add([U(S1)], 1), add([U(S0)], 1),
             rep(H(0), U(E0), 2)]},
    {"ctor": [E0, E1, S0, S1], "ops": [rep(H(1), IN(1), 2), rem([U(E0)]), rep(H(0), IN(0), 2), add([U(E0T), U(S1)], 1),
                                        rem([U(S0), U(E1)])]},
    {"ops": [add([U(E2), U(E0), U(E1), U(S0)], 2), add([U(C), U(S1), U(E0T)], 0), rem([U(E0), U(E2)]),
             rep(H(0), IN(0), 1), rep(U(S0), U(S1), 2), rem([U(P)])]},
]


def rand_ref(rng, n):
    r = rng.random()
    if r < 0.55:
        return U(rng.randrange(n))
    if r < 0.85:
        return H(rng.randrange(6))
    return IN(rng.randrange(6))


def rand_op(rng, n):
    r = rng.random()
    if r < 0.4:
        k = 1 if rng.random() < 0.7 else rng.randint(0, 3)
        refs = [rand_ref(rng, n) for _ in range(k)]
        return add(refs, rng.choice([0, 0, 1, 1, 2]), single=(k == 1 and rng.random() < 0.7))
    if r < 0.65:
        k = 1 if rng.random() < 0.7 else rng.randint(0, 3)
        refs = [rand_ref(rng, n) for _ in range(k)]
        return rem(refs, single=(k == 1 and rng.random() < 0.7))
    return rep(rand_ref(rng, n), rand_ref(rng, n), rng.choice([0, 1, 2]))


def generate(rng, tier):
    cases = []
    quick = tier == "quick"
    if quick:
        for h in itertools.product(ALPHA32, repeat=3):
            cases.append({"stream": "exh3", "input": {"uni": 8, "ops": list(h)}})
    else:
        for h in itertools.product(ALPHA32, repeat=3):
            cases.append({"stream": "exh3", "input": {"uni": 8, "ops": list(h)}})
        for h in itertools.product(ALPHA20, repeat=4):
            cases.append({"stream": "exh4", "input": {"uni": 8, "ops": list(h)}})
        for h in itertools.product(ALPHA11, repeat=5):
            cases.append({"stream": "exh5", "input": {"uni": 8, "ops": list(h)}})
    for _ in range(600 if quick else 20000):
        n = rng.randint(1, 30)
        cases.append({"stream": "random", "input": {"uni": 13, "ops": [rand_op(rng, 13) for _ in range(n)]}})
    # the library built by the constructor (Library(blocks) == add(blocks))
    for _ in range(50 if quick else 1000):
        k = rng.randint(0, 6)
        cases.append({"stream": "ctor", "input": {"uni": 13, "ctor": [rng.randrange(13) for _ in range(k)],
                                                   "ops": [rand_op(rng, 13) for _ in range(rng.randint(0, 6))]}})
    # ---- boundary keys (all random draws below come after the streams above, which therefore stay as they were)
    for kp in KEYPAIRS:
        for h in itertools.product(ALPHA32, repeat=2):
            cases.append({"stream": "keys_exh2", "input": {"uni": 8, "keys": list(kp), "ops": list(h)}})
    for kp in (KEYPAIRS[:2] if quick else KEYPAIRS):
        for h in itertools.product(ALPHA11, repeat=3):
            cases.append({"stream": "keys_exh3", "input": {"uni": 8, "keys": list(kp), "ops": list(h)}})
    if not quick:
        for kp in KEYPAIRS[:2]:
            for h in itertools.product(ALPHA32, repeat=3):
                cases.append({"stream": "keys_exh3w", "input": {"uni": 8, "keys": list(kp), "ops": list(h)}})
        for kp in KEYPAIRS[:3]:
            for h in itertools.product(ALPHA11, repeat=4):
                cases.append({"stream": "keys_exh4", "input": {"uni": 8, "keys": list(kp), "ops": list(h)}})
    for _ in range(300 if quick else 6000):
        ka = rng.choice(BOUNDARY_KEYS)
        kb = ka if rng.random() < 0.1 else rng.choice(BOUNDARY_KEYS)
        n = rng.randint(1, 30)
        inp = {"uni": 13, "keys": [ka, kb], "ops": [rand_op(rng, 13) for _ in range(n)]}
        if rng.random() < 0.15:
            inp["ctor"] = [rng.randrange(13) for _ in range(rng.randint(0, 6))]
        cases.append({"stream": "keys_random", "input": inp})
    # keys that are not plain str: oracle only
    for da in KEYOBJS:
        for h in itertools.product(ALPHA11, repeat=2):
            cases.append({"stream": "keyobj_exh2", "input": {"uni": 8, "keyobjs": [da, ["s", "b"]], "ops": list(h)}})
    for _ in range(150 if quick else 3000):
        da = rng.choice(KEYOBJS)
        db = da if rng.random() < 0.1 else rng.choice(KEYOBJS)
        n = rng.randint(1, 20)
        cases.append({"stream": "keyobj_random", "input": {"uni": 13, "keyobjs": [da, db],
                                                            "ops": [rand_op(rng, 13) for _ in range(n)]}})
    # ---- user subclasses of the block classes next to plain blocks (drawn after everything above)
    assigns = [lv for _, lv in SUB_FIXED8]
    drawn = []
    while len(drawn) < (2 if quick else 6):
        lv = rand_levels(rng, 8)
        if lv not in assigns + drawn:
            drawn.append(lv)
    for lv in assigns + drawn:
        for h in itertools.product(ALPHA32, repeat=2):
            cases.append({"stream": "sub_exh2", "input": {"uni": 8, "sub": lv, "ops": list(h)}})
    for lv in (assigns[:1] + assigns[4:] + drawn[:1] if quick else assigns + drawn):
        for h in itertools.product(ALPHA11, repeat=3):
            cases.append({"stream": "sub_exh3", "input": {"uni": 8, "sub": lv, "ops": list(h)}})
    if not quick:
        for lv in assigns[:3]:
            for h in itertools.product(ALPHA32, repeat=3):
                cases.append({"stream": "sub_exh3w", "input": {"uni": 8, "sub": lv, "ops": list(h)}})
        for lv in assigns[3:] + drawn[:2]:
            for h in itertools.product(ALPHA20, repeat=3):
                cases.append({"stream": "sub_exh3w", "input": {"uni": 8, "sub": lv, "ops": list(h)}})
        for lv in assigns[:2] + drawn[:1]:
            for h in itertools.product(ALPHA11, repeat=4):
                cases.append({"stream": "sub_exh4", "input": {"uni": 8, "sub": lv, "ops": list(h)}})
    for _ in range(500 if quick else 12000):
        n = rng.randint(1, 30)
        inp = {"uni": 13, "sub": rand_levels(rng, 13), "ops": [rand_op(rng, 13) for _ in range(n)]}
        r = rng.random()
        if r < 0.2:
            ka = rng.choice(BOUNDARY_KEYS)
            inp["keys"] = [ka, ka if rng.random() < 0.1 else rng.choice(BOUNDARY_KEYS)]
        elif r < 0.3:
            da = rng.choice(KEYOBJS)
            inp["keyobjs"] = [da, da if rng.random() < 0.1 else rng.choice(KEYOBJS)]
        if rng.random() < 0.15:
            inp["ctor"] = [rng.randrange(13) for _ in range(rng.randint(0, 6))]
        cases.append({"stream": "sub_random", "input": inp})
    # ---- keys that are special to some text machinery x blocks with / without start lines and raw text (drawn after
    # everything above)
    pool = text_pool()
    both = ([LINES_NONE] * 8, [LINES_PARSED0] * 8, [LINES_PARSED7] * 8)
    for ka in pool:
        builds = [both[0], both[rng.choice([1, 2])]] if quick else list(both)
        for ln in builds:
            kb = text_partner(rng, ka, pool)
            for sc in SCRIPTS:
                inp = {"uni": 8, "keys": [ka, kb], "lines": list(ln), "ops": list(sc["ops"])}
                if "ctor" in sc:
                    inp["ctor"] = list(sc["ctor"])
                cases.append({"stream": "text_scripts", "input": inp})
    short = [k for k in pool if len(k) < 200]
    pairs = list(TEXT_PAIRS_FIXED)
    while len(pairs) < (8 if quick else 24):
        ka = rng.choice(short)
        kp = (ka, text_partner(rng, ka, short))
        if kp not in pairs:
            pairs.append(kp)
    for kp in pairs:
        for ln in (both[0], both[rng.choice([1, 2])]):
            for h in itertools.product(ALPHA11, repeat=2):
                cases.append({"stream": "text_exh2", "input": {"uni": 8, "keys": list(kp), "lines": list(ln), "ops": list(h)}})
    for kp in (pairs[:1] if quick else pairs[:6]):
        for ln in both[:2]:
            for h in itertools.product(ALPHA32, repeat=2):
                cases.append({"stream": "text_exh2w", "input": {"uni": 8, "keys": list(kp), "lines": list(ln), "ops": list(h)}})
    for kp in (pairs[4:5] if quick else pairs[:8]):
        for ln in (both[1:2] if quick else both[:2]):
            for h in itertools.product(ALPHA11, repeat=3):
                cases.append({"stream": "text_exh3", "input": {"uni": 8, "keys": list(kp), "lines": list(ln), "ops": list(h)}})
    if not quick:
        for ln in both[:2]:
            for h in itertools.product(ALPHA32, repeat=3):
                cases.append({"stream": "text_exh3w", "input": {"uni": 8, "keys": list(pairs[0]), "lines": list(ln),
                                                                "ops": list(h)}})
    for _ in range(500 if quick else 12000):
        ka = rng.choice(pool)
        kb = text_partner(rng, ka, pool)
        n = rng.randint(1, 30 if len(ka) + len(kb) < 2000 else 6)
        inp = {"uni": 13, "keys": [ka, kb], "lines": rand_lines(rng, 13), "ops": [rand_op(rng, 13) for _ in range(n)]}
        if rng.random() < 0.25:
            inp["sub"] = rand_levels(rng, 13)
        if rng.random() < 0.15:
            inp["ctor"] = [rng.randrange(13) for _ in range(rng.randint(0, 6))]
        cases.append({"stream": "text_random", "input": inp})
    return cases


def build_universe(n, keys=None, keyobjs=None, sub=None, lines=None):
    from bibtexparser import model as M
    out = []
    if sub is not None:
        return [to_level(M, b, lv) for b, lv in zip(build_universe(n, keys, keyobjs, None, lines), sub)]

    def key(k):
        j = "ab".index(k)
        if keyobjs is not None:
            return make_key(keyobjs[j])
        return keys[j] if keys is not None else k

    for j, d in enumerate(UNI8 if n == 8 else UNI13):
        t = d[0]
        mode = LINES_WRITTEN if lines is None else lines[j]
        if t == "E":
            k = key(d[2])
            ln, raw = placed(mode, d[4], d[5], "@" + d[1] + "{" + key_text(k) + "," +
                             "".join("\n  " + fk + " = {" + fv + "}," for fk, fv, _ in d[3]) + "\n}")
            out.append(M.Entry(d[1], k, [M.Field(fk, fv, fl if mode == LINES_WRITTEN else (None if ln is None else ln + 1))
                                         for fk, fv, fl in d[3]], ln, raw))
        elif t == "S":
            k = key(d[1])
            ln, raw = placed(mode, d[3], d[4], "@string{" + key_text(k) + ' = "' + d[2] + '"}')
            out.append(M.String(k, d[2], ln, raw))
        elif t == "P":
            ln, raw = placed(mode, d[2], d[3], '@preamble{"' + d[1] + '"}')
            out.append(M.Preamble(d[1], ln, raw))
        elif t == "C":
            ln, raw = placed(mode, d[2], d[3], "@comment{" + d[1] + "}")
            out.append(M.ExplicitComment(d[1], ln, raw))
        elif t == "I":
            ln, raw = placed(mode, d[2], d[3], d[1])
            out.append(M.ImplicitComment(d[1], ln, raw))
        else:
            ln, raw = placed(mode, d[1], d[2], "@article{" + d[2])
            out.append(M.ParsingFailedBlock(Exception("boom"), ln, raw))
    return out


def plain(b):
    """what a caller can see of one of its blocks, for cases without a model encoding (keys by identity and repr)"""
    k = getattr(b, "key", None)
    fs = getattr(b, "fields", None) if hasattr(b, "entry_type") else None
    return (type(b).__name__, id(k), repr(k), type(k).__name__, b.start_line, b.raw, getattr(b, "entry_type", None),
            None if fs is None else [(id(f), f.key, f.value, f.start_line) for f in fs],
            getattr(b, "value", None), getattr(b, "comment", None))


VIEWS = ["blocks", "entries", "entries_dict", "strings", "strings_dict", "preambles", "comments", "failed_blocks"]


def snapshot(lib):
    """the eight views, as shallow copies"""
    s = {}
    for v in VIEWS:
        x = getattr(lib, v)
        s[v] = dict(x) if isinstance(x, dict) else list(x)
    return s


def same_ids(a, b):
    return len(a) == len(b) and all(x is y for x, y in zip(a, b))


def check_inv(M, s):
    """the state part of the property, on one snapshot; returns '' or a diagnostic"""
    bl = s["blocks"]
    ents = [b for b in bl if isinstance(b, M.Entry)]
    strs = [b for b in bl if isinstance(b, M.String)]
    if not same_ids(s["entries"], ents):
        return "entries is not the Entry blocks of blocks in order"
    for name, held, d in (("entries", ents, s["entries_dict"]), ("strings", strs, s["strings_dict"])):
        keys = [b.key for b in held]
        if len(set(keys)) != len(keys):
            return "two held %s share a key: %r" % (name, keys)
        if set(d.keys()) != set(keys):
            return "%s_dict keys %r differ from the held keys %r" % (name, sorted(d, key=repr), sorted(keys, key=repr))
        for b in held:
            if d[b.key] is not b:
                return "%s_dict[%r] is not the held block" % (name, b.key)
    if not same_ids(s["strings"], strs):
        return "strings is not the String blocks of blocks in order"
    parts = s["entries"] + s["strings"] + s["preambles"] + s["comments"] + s["failed_blocks"]
    if sorted(map(id, parts)) != sorted(map(id, bl)):
        return "entries, strings, preambles, comments, failed_blocks do not partition blocks"
    if not all(isinstance(b, M.Preamble) for b in s["preambles"]) or \
            not all(isinstance(b, (M.ExplicitComment, M.ImplicitComment)) for b in s["comments"]) or \
            not all(isinstance(b, M.ParsingFailedBlock) for b in s["failed_blocks"]):
        return "a view holds a block of another class"
    for v, cls in (("preambles", M.Preamble), ("comments", (M.ExplicitComment, M.ImplicitComment)),
                   ("failed_blocks", M.ParsingFailedBlock)):
        if not same_ids(s[v], [b for b in bl if isinstance(b, cls)]):
            return "%s is not in block order" % v
    return ""


def wraps(M, x, arg):
    return isinstance(x, M.DuplicateBlockKeyBlock) and x.ignore_error_block is arg and x.key == arg.key


def views_equal(a, b):
    """None if all eight views compare equal (lists in order, dicts as mappings), else the name of a differing view"""
    for v in VIEWS:
        if a[v] != b[v]:
            return v
    return None


def impl(case):
    import enc
    import implutil
    from bibtexparser import model as M
    from bibtexparser.library import Library
    inp = case["input"]
    sub = inp.get("sub")
    strkeys = "keyobjs" not in inp
    # the model has no classes below the library's own: a subclass instance is encoded like a plain instance of its
    # base class.  That is exact unless structurally equal twins differ in class (== is then False for Python)
    modelled = strkeys and (sub is None or twins_consistent(sub))
    lines = inp.get("lines")
    uni = build_universe(inp["uni"], inp.get("keys"), inp.get("keyobjs"), sub, lines)
    level = {id(b): lv for b, lv in zip(uni, sub)} if sub is not None else {}

    def enc_b(b):
        if level.get(id(b), 0) == 0:
            return enc.enc_block(b)
        if type(b) is not sub_classes(M)[base_of(M, b)][level[id(b)]]:
            return [99, -1]
        return enc.enc_block(rebuild_as(M, b, base_of(M, b)))

    def enc_uni():
        return [enc_b(b) for b in uni] if strkeys else [(plain(b), type(b)) for b in uni]

    uni_enc = enc_uni()
    oid = {id(b): j for j, b in enumerate(uni)}
    wid = {}
    keep = []                       # keeps every object we numbered alive

    def ob(b):
        j = oid.get(id(b))
        if j is not None:
            return j
        if type(b).__name__ == "DuplicateBlockKeyBlock":
            c = wid.get(id(b))
            if c is None:
                c = 1000 + len(wid)
                wid[id(b)] = c
                keep.append(b)
            return [c, enc.enc_opt(enc.enc_int, b.start_line), enc.enc_opt(enc.enc_str, b.raw), enc.enc_str(b.key),
                    oid.get(id(b.previous_block), -1), oid.get(id(b.ignore_error_block), -1)]
        keep.append(b)
        return [-5]

    def enc_views(outcome, s):
        if not modelled:
            return None
        return [outcome, [ob(b) for b in s["blocks"]], [ob(b) for b in s["entries"]],
                [[enc.enc_str(k), ob(b)] for k, b in s["entries_dict"].items()],
                [ob(b) for b in s["strings"]],
                [[enc.enc_str(k), ob(b)] for k, b in s["strings_dict"].items()],
                [ob(b) for b in s["preambles"]], [ob(b) for b in s["comments"]], [ob(b) for b in s["failed_blocks"]]]

    sx_ops = []
    ops = list(inp["ops"])
    if "ctor" in inp:
        ops = [{"op": "ctor", "refs": [U(j) for j in inp["ctor"]]}] + ops
    lib = Library() if "ctor" not in inp else None
    outs = []
    problems, known = [], []
    interesting = False
    tags = set()
    seen_wrappers = set()

    def resolve(r):
        kind, i = r
        if kind == 0:
            return uni[i]
        bl = lib.blocks if lib is not None else []
        if not bl:
            return uni[0]
        b = bl[i % len(bl)]
        if kind == 2 and type(b).__name__ == "DuplicateBlockKeyBlock":
            return b.ignore_error_block
        return b

    for n, op in enumerate(ops):
        kind = op["op"]
        before = snapshot(lib) if lib is not None else {v: ({} if v.endswith("dict") else []) for v in VIEWS}
        if kind in ("add", "ctor"):
            args = [resolve(r) for r in op["refs"]]
            fail = op.get("fail", 0)
            sx_ops.append([0, [list(r) for r in op["refs"]], fail])
            if kind == "ctor":
                def call():
                    return Library(args)
            else:
                a = args[0] if (op["single"] and len(args) == 1) else args
                if fail == 2:
                    def call():
                        lib.add(a)
                else:
                    def call():
                        lib.add(a, fail_on_duplicate_key=bool(fail))
        elif kind == "remove":
            args = [resolve(r) for r in op["refs"]]
            sx_ops.append([1, [list(r) for r in op["refs"]]])
            a = args[0] if (op["single"] and len(args) == 1) else args

            def call():
                lib.remove(a)
        else:
            old, new = resolve(op["old"]), resolve(op["new"])
            fail = op["fail"]
            sx_ops.append([2, list(op["old"]), list(op["new"]), fail])
            if fail == 2:
                def call():
                    lib.replace(old, new)
            else:
                def call():
                    lib.replace(old, new, fail_on_duplicate_key=bool(fail))
        r = implutil.guarded(call)
        if kind == "ctor":
            if r[0] == "ok":
                lib = r[1]
            else:
                # the constructor raised: nothing to observe
                outs.append([[1, r[1]]] + [[] for _ in VIEWS])
                problems.append("call %d Library(...) raised %s" % (n, r[2]))
                break
        after = snapshot(lib)
        outcome = [0] if r[0] == "ok" else [1, r[1]]
        outs.append(enc_views(outcome, after))
        tags.add(kind + (":raise" if r[0] == "exc" else ""))
        if sub is not None:
            for x in after["blocks"]:
                if isinstance(x, M.DuplicateBlockKeyBlock) and id(x) not in seen_wrappers:
                    seen_wrappers.add(id(x))
                    keep.append(x)
                    tags.add("sub:%s-duplicates-%s" % ("sub" if level.get(id(x.ignore_error_block)) else "plain",
                                                       "sub" if level.get(id(x.previous_block)) else "plain"))
            if any(level.get(id(x)) for x in after["entries"] + after["strings"]):
                tags.add("sub:held-keyed")
        # ------------------------------------------------------------ oracle
        where = "call %d %s: " % (n, json.dumps(op))
        d = check_inv(M, after)
        if d:
            problems.append(where + d)
            continue
        bb, ab = before["blocks"], after["blocks"]
        if r[0] == "exc":
            interesting = True
            if r[2] != "ValueError":
                problems.append(where + "raised %s" % r[2])
                continue
            diff = views_equal(before, after)
            if diff is not None:
                tail = ab[len(bb):]
                if kind == "add" and op.get("fail") == 1 and same_ids(ab[:len(bb)], bb) and len(tail) == len(args) and \
                        all(x is a or wraps(M, x, a) for x, a in zip(tail, args)) and \
                        any(x is not a for x, a in zip(tail, args)):
                    known.append("K1")            # documented: duplicates are added, then ValueError is raised
                    tags.add("K1")
                else:
                    problems.append(where + "raised ValueError but view %s changed" % diff)
                continue
            # ValueError with the library unchanged: only where the interface documents one
            if kind in ("add", "ctor"):
                allowed = kind == "add" and op.get("fail") == 1
            elif kind == "remove":
                rest = list(bb)
                try:
                    for a in args:
                        rest.remove(a)
                    allowed = False
                except ValueError:
                    allowed = True
            else:
                allowed = op["fail"] != 0 or old not in bb
            if not allowed:
                problems.append(where + "raised ValueError although every argument is acceptable (no duplicate was to be "
                                        "refused, nothing was missing)")
            continue
        if kind in ("add", "ctor"):
            tail = ab[len(bb):]
            if not same_ids(ab[:len(bb)], bb) or len(tail) != len(args):
                problems.append(where + "add did not append exactly its arguments")
            elif not all(x is a or wraps(M, x, a) for x, a in zip(tail, args)):
                problems.append(where + "an appended block is neither the argument nor its duplicate wrapper")
            if any(x is not a for x, a in zip(tail, args)):
                interesting = True
        elif kind == "remove":
            interesting = True
            exp = list(bb)
            try:
                for a in args:
                    exp.remove(a)
            except ValueError:
                problems.append(where + "returned normally although an argument is not held")
                continue
            if not same_ids(ab, exp):
                problems.append(where + "remove did not close exactly the gaps of its arguments")
        else:
            interesting = True
            try:
                idx = bb.index(old)
            except ValueError:
                problems.append(where + "returned normally although the old block is not held")
                continue
            if len(ab) != len(bb) or not same_ids(ab[:idx], bb[:idx]) or not same_ids(ab[idx + 1:], bb[idx + 1:]):
                problems.append(where + "replace moved other blocks")
            elif not (ab[idx] is new or (wraps(M, ab[idx], new) and op["fail"] == 0)):
                problems.append(where + "position %d does not hold the new block" % idx)
    if enc_uni() != uni_enc:
        problems.append("a caller's block was modified")
    if sub is not None:
        tags.add("sub:all" if all(sub) else "sub:some")
        if max(sub) == 2:
            tags.add("sub:subclass-of-subclass")
        if not twins_consistent(sub):
            tags.add("sub:twins-differ-in-class(oracle-only)")
    if lines is not None:
        for k in inp["keys"]:
            for kk in key_kinds(k):
                tags.add("text:key-" + kk)
        if inp["keys"][0] == inp["keys"][1]:
            tags.add("text:one-key-for-all")
        elif tuple(inp["keys"]) in COLLAPSE or tuple(inp["keys"][::-1]) in COLLAPSE:
            tags.add("text:keys-equal-after-a-text-transformation")
        tags.add("lines:all-none" if not any(lines) else "lines:all-parsed" if all(m in (1, 2) for m in lines)
                 else "lines:mixed")
        for x in keep:
            if isinstance(x, M.DuplicateBlockKeyBlock) and key_kinds(x.key):
                tags.add("text:wrapper-built(holder-%s-line,%s)" % (
                    "without" if x.previous_block.start_line is None else "with",
                    "entry" if isinstance(x.ignore_error_block, M.Entry) else "string"))
        if any(t.endswith(":raise") for t in tags):
            tags.add("text:some-call-raises")
    elif "keys" in inp:
        tags.add("keys:empty" if "" in inp["keys"] else "keys:boundary")
    if not strkeys:
        tags.add("keys:not-str")
    sx_in = [30, uni_enc, sx_ops] if modelled else None
    rec = {"sx_in": sx_in, "sx_out": implutil.r_ok(outs) if modelled else None, "key": json.dumps(inp, sort_keys=True),
           "nontrivial": interesting, "tags": sorted(tags),
           "summary": repr([type(b).__name__[:5] + ":" + str(getattr(b, "key", "")) for b in (lib.blocks if lib else [])])[:200]}
    if problems:
        rec["oracle"] = {"ok": False, "detail": problems[0]}
    elif known:
        rec["oracle"] = {"ok": False, "detail": "known finding class K1", "known": "K1"}
    else:
        rec["oracle"] = {"ok": True, "detail": ""}
    return rec


def shrink(case):
    inp = case["input"]
    ops = inp["ops"]
    for i in range(len(ops) - 1, -1, -1):
        c = json.loads(json.dumps(case))
        del c["input"]["ops"][i]
        yield c
    for i, op in enumerate(ops):
        if op["op"] in ("add", "remove") and len(op["refs"]) > 1:
            for j in range(len(op["refs"])):
                c = json.loads(json.dumps(case))
                del c["input"]["ops"][i]["refs"][j]
                yield c
    for j, lv in enumerate(inp.get("sub") or []):
        if lv:
            c = json.loads(json.dumps(case))
            c["input"]["sub"][j] = 0
            for a, b in TWINS:              # keep twins in one class, so that the model still applies
                if j in (a, b) and max(a, b) < len(c["input"]["sub"]):
                    c["input"]["sub"][a] = c["input"]["sub"][b] = 0
            yield c
