"""C09, stream `wide`: entries with MANY DISTINCT field names and a repeat at every position pair.

The collision grammar of the other streams draws field names from pools of 2-3 names (the property's own quantifier), so an
entry never holds more than three distinct names and a name is always repeated early.  This stream is the complement: an
entry `W` with n fields (2..40, and 100 / 257 / 1000; thorough also 63..66, 127..130, 255..258) whose names are pairwise
distinct except for

  one-repeat    ONE name, first occurrence at index i, second at index j: EVERY (n, i, j) with i < j < n <= 24 (all-pairs
                bound; thorough: 32), beyond that for every n the pairs whose i / j is a `mark` - the two ends and T-1, T, T+1
                for the thresholds T = 8, 16, 17, 32, 64, 128, 256 - each mark once as i and once as j, plus random pairs;
  two-repeats   two different names, each occurring twice (sampled, biased to the marks);
  triple        one name occurring three times (sampled, biased to the marks);

in a document that also holds a clean entry `C` with the SAME entry key: `followed` (W C: the key of W is not registered,
hence C is the live first block of its key), `preceded` (C W: C is live, W is still the duplicate-field block, not a
duplicate-key block), `both` (C W C': C' is the duplicate-key block of C), `twice` (W W' C: a duplicate of a duplicate-field
entry); sometimes an unrelated block (comment, preamble, a @string with the same name, an entry with another key) in between.
Field names come in three shapes (numbered, the usual BibTeX names, random key characters), values and white space in three.

Every document goes through parse_string(text) (the default stack) and through Splitter(text).split() or
parse_string(text, parse_stack=[]) (1 in 8: both).  The verdict on each returned library is the property statement (`c09_copies.judge`, the oracle of this property on a
returned library against the generator's source blocks): as many blocks as source blocks, W is a failed duplicate-field block
whose duplicate_keys are exactly the repeated names and whose inner entry holds every field occurrence in source order as
written, its key is not registered, the first clean entry of the key is the object in entries_dict, a later one is a
duplicate-key block exposing the key, that first block and the complete duplicate.  The empty-stack result of every case up
to 8 fields, of 1 in 20 up to 40 fields and of 1 in 60 up to 258 fields is also compared with the Coq splitter model (op 132);
the other cases are oracle-only (the convention of the streams `history` and `copies`): the sx encoding of documents with
hundreds of fields is what costs, in the model binary and above all in the vm_compute sample."""
import hashlib

import gens_split as G

THRESHOLDS = [8, 16, 17, 32, 64, 128, 256]
BIB_NAMES = ["author", "title", "year", "journal", "volume", "number", "pages", "month", "note", "publisher", "address", "editor",
             "booktitle", "series", "edition", "isbn", "issn", "doi", "url", "abstract", "keywords", "language", "school",
             "institution", "organization", "chapter", "type", "howpublished", "crossref", "annote", "eprint", "archiveprefix",
             "primaryclass", "file", "urldate", "date", "location", "subtitle", "shorttitle", "translator", "pagetotal", "pubstate",
             "eventtitle", "venue", "copyright", "Title", "AUTHOR", "Year"]
ENTRY_KEYS = ["k1", "K1", "a", "thekey", "Smith2020", "x:1", "b-2", "k.3"]
ENTRY_TYPES = ["article", "Article", "BOOK", "inProceedings", "misc", "a", "x_1", "techreport"]
NAMECH = "abcxyzXYZ0189.-:_/+"


def marks(n):
    m = {0, 1, n - 2, n - 1}
    for t in THRESHOLDS:
        m.update((t - 1, t, t + 1))
    return sorted(x for x in m if 0 <= x < n)


def bucket(n):
    for b in (8, 16, 24, 40, 100, 258):
        if n <= b:
            return "n<=%d" % b
    return "n>258"


# ------------------------------------------------------------------------------------------------------------- generation
def gen_names(rng, count):
    """`count` pairwise distinct field names"""
    style = rng.choice(["numbered", "numbered", "bib", "random"])
    if style == "numbered":
        pre = rng.choice(["f", "field", "x_", "k-", "F"])
        width = rng.choice([0, 2, 4])
        start = rng.choice([0, 1, 7, 90])
        names = [pre + str(start + i).zfill(width) for i in range(count)]
        if rng.random() < 0.5:
            rng.shuffle(names)
        return names
    if style == "bib":
        names = list(BIB_NAMES)
        rng.shuffle(names)
        k = 2
        while len(names) < count:
            names.extend(b + str(k) for b in BIB_NAMES)
            k += 1
        return names[:count]
    seen, names = set(), []
    while len(names) < count:
        s = "".join(rng.choice(NAMECH) for _ in range(rng.randint(1, 4) + (2 if count > 200 else 0)))
        if s not in seen:
            seen.add(s)
            names.append(s)
    return names


def gen_value(rng, vstyle, i):
    if vstyle == "plain":
        return "{v%d}" % i
    if vstyle == "mixed":
        return rng.choice(["{v%d}", '"w %d"', "%d", "{A {B} %d}", '"a" # "%d"', "{}", '""', "{%d,=}"]).replace("%d", str(i))
    return G._value(rng, 1)[0]


def gen_entry(rng, key, names, line0, vstyle, wstyle):
    """One entry as written -> (raw, item).  Same ground-truth format as gens_split.gen_doc."""
    typ = rng.choice(ENTRY_TYPES)
    if wstyle == "compact":
        ws = lambda: ""                                            # noqa: E731
    elif wstyle == "lines":
        ws = None
    else:
        ws = lambda: rng.choice(G.INNER_WS)                        # noqa: E731
    head = "@" + typ + (rng.choice(G.HWS) if wstyle == "random" else "") + "{" + key
    buf = [head]
    fields = []
    nl = head.count("\n")
    if not names and rng.random() < 0.5:
        buf.append("}")
    else:
        buf.append(",")
        for i, name in enumerate(names):
            val = gen_value(rng, vstyle, i)
            if ws is None:
                pre, mid1, mid2, post = "\n  ", " ", " ", ""
            else:
                pre, mid1, mid2, post = ws(), ws(), ws(), ws()
            fields.append([name, val, line0 + nl + pre.count("\n") + mid1.count("\n")])
            piece = pre + name + mid1 + "=" + mid2 + val + post
            nl += piece.count("\n")
            buf.append(piece)
            if i < len(names) - 1 or rng.random() < 0.4:
                buf.append(",")
        if not names or buf[-1] == ",":
            buf.append("\n" if ws is None else ws())
        elif ws is None:
            buf.append("\n")
        buf.append("}")
    raw = "".join(buf)
    return raw, {"kind": "entry", "raw": raw, "line": line0, "type": typ.lower(), "key": key, "fields": fields}


def gen_case(rng, n, groups, layout=None):
    """groups: tuples of indices (each of length >= 2, pairwise disjoint) that share one name; all other names are distinct."""
    shared = {}
    for g, idx in enumerate(groups):
        for i in idx:
            shared[i] = g
    distinct = gen_names(rng, n - len(shared) + len(groups))
    gname = distinct[:len(groups)]
    rest = distinct[len(groups):]
    if len(groups) > 1 and rng.random() < 0.5:
        rng.shuffle(gname)
    names, r = [], 0
    for i in range(n):
        if i in shared:
            names.append(gname[shared[i]])
        else:
            names.append(rest[r])
            r += 1
    key = rng.choice(ENTRY_KEYS)
    vstyle = rng.choice(["plain", "plain", "mixed", "mixed", "rich"]) if n <= 64 else rng.choice(["plain", "mixed"])
    wstyle = rng.choice(["compact", "lines", "lines", "random"])
    layout = layout or rng.choice(["followed", "followed", "followed", "preceded", "preceded", "both", "twice"])
    plan = {"followed": "WC", "preceded": "CW", "both": "CWC", "twice": "WVC"}[layout]
    if rng.random() < 0.25:
        k = rng.randrange(1, len(plan))
        plan = plan[:k] + rng.choice("OOSPE") + plan[k:]
    parts, items = [], []
    lines = 0

    def emit(s):
        nonlocal lines
        parts.append(s)
        lines += s.count("\n")
    emit(rng.choice(["", "", "\n", " ", "% head\n"]))
    if parts[0].startswith("%"):
        # free text before the first block is a source block of its own (an implicit comment)
        items.append({"kind": "freetext", "raw": "% head", "line": 0, "comment": "% head"})
    for c in plan:
        if c == "W":
            raw, it = gen_entry(rng, key, names, lines, vstyle, wstyle)
        elif c == "V":
            # a second entry with repeated field names under the same key: a short one from the repeated names themselves
            raw, it = gen_entry(rng, key, [gname[0], rest[0] if rest else gname[0] + "x", gname[0]], lines, "plain", wstyle)
        elif c == "C":
            cn = rng.sample(names, min(len(set(names)), rng.randint(0, 3)))
            cn = [x for k, x in enumerate(cn) if x not in cn[:k]]
            raw, it = gen_entry(rng, key, cn, lines, vstyle if vstyle != "rich" else "mixed", wstyle)
        elif c == "E":
            raw, it = gen_entry(rng, key + "-other", names[:2] if names[0] != names[1] else names[:1], lines, "plain", wstyle)
        elif c == "S":
            sv = rng.choice(['"s"', "{s}", "12"])
            raw = "@string{" + key + " = " + sv + "}"
            it = {"kind": "string", "raw": raw, "line": lines, "key": key, "value": sv}
        elif c == "P":
            raw = '@preamble{"p" # "q"}'
            it = {"kind": "preamble", "raw": raw, "line": lines, "value": '"p" # "q"'}
        else:
            raw = "@comment{" + names[0] + " = " + key + "}"
            it = {"kind": "comment", "raw": raw, "line": lines, "comment": names[0] + " = " + key}
        emit(raw)
        items.append(it)
        emit(rng.choice(["\n", "\n\n", " ", "", "\n"]))
    kind = "one-repeat" if len(groups) == 1 and len(groups[0]) == 2 else "triple" if len(groups) == 1 else "two-repeats"
    # which entry points: the default stack always, one of the two bare ones (1 in 8: both); the empty-stack result of every small
    # case, of 1 in 20 of the others up to 40 fields and of 1 in 60 beyond is also compared with the Coq model (the encoding of a
    # document with hundreds of fields is what costs, in the model binary and above all in the vm_compute sample)
    r = rng.random()
    how = ["split", "empty", "default"] if r < 0.125 else ["split", "default"] if r < 0.5625 else ["empty", "default"]
    model = n <= 8 or rng.random() < (0.05 if n <= 40 else 1 / 60.0 if n <= 300 else 0)
    if model and "empty" not in how:
        how[0] = "empty"
    return {"stream": "wide", "input": {"text": "".join(parts), "items": items,
                                        "wide": {"n": n, "groups": [list(g) for g in groups], "kind": kind, "layout": layout, "plan": plan,
                                                 "how": how, "model": model}}}


def _pair_with(rng, n, m, as_first):
    """a pair (i, j), i < j < n, with m as first / second index (None when impossible)"""
    if as_first:
        return (m, rng.randrange(m + 1, n)) if m < n - 1 else None
    return (rng.randrange(0, m), m) if m > 0 else None


def _biased_index(rng, n, ms):
    return rng.choice(ms) if rng.random() < 0.5 else rng.randrange(n)


def _distinct_indices(rng, n, k, ms):
    s = set()
    while len(s) < k:
        s.add(_biased_index(rng, n, ms))
    return sorted(s)


def generate(rng, tier):
    quick = tier == "quick"
    cases = []
    allpairs = 24 if quick else 32
    # every (n, i, j) up to the all-pairs bound, followed by the clean entry
    for n in range(2, allpairs + 1):
        for j in range(1, n):
            for i in range(j):
                cases.append(gen_case(rng, n, [(i, j)], "followed"))
    # every pair (i, j) again with the clean entry in front (quick: n drawn per pair; thorough: every n) and in the other layouts
    for j in range(1, allpairs):
        for i in range(j):
            for n in ([rng.randrange(j + 1, allpairs + 1)] if quick else range(j + 1, allpairs + 1)):
                cases.append(gen_case(rng, n, [(i, j)], "preceded"))
            cases.append(gen_case(rng, rng.randrange(j + 1, allpairs + 1), [(i, j)], rng.choice(["both", "twice", "preceded"])))
    # beyond: every n up to 40, every mark once as first and once as second index, and random pairs
    big = [(100, 1), (257, 1), (1000, 0)] if quick else \
          [(63, 2), (64, 2), (65, 2), (66, 2), (100, 3), (127, 1), (128, 1), (129, 1), (130, 1), (255, 1), (256, 1), (257, 2), (258, 2), (1000, 1)]
    for n, extra in [(n, 4 if quick else 12) for n in range(allpairs + 1, 41)] + big:
        ms = marks(n)
        pairs = []
        for m in ms:
            pairs.append(_pair_with(rng, n, m, True))
            pairs.append(_pair_with(rng, n, m, False))
            if not quick:
                # ... and against another mark
                o = rng.choice(ms)
                pairs.append((min(m, o), max(m, o)) if o != m else None)
        for _ in range(extra * (1 if n <= 40 else 4)):
            i, j = _distinct_indices(rng, n, 2, ms)
            pairs.append((i, j))
        if n == 1000 and quick:
            # a few only: each threshold once as first and once as second index, the ends
            pairs = [p for k, p in enumerate(pairs) if p and (p[0] in THRESHOLDS[3:] or p[1] in THRESHOLDS[3:] or k % 13 == 0)]
        for p in pairs:
            if p:
                cases.append(gen_case(rng, n, [p], None if rng.random() < 0.5 else "followed"))
    # two different repeated names / one name three times
    sizes = list(range(3, 41)) + [65, 100, 257] + ([] if quick else [129, 258, 1000])
    for n in sizes:
        ms = marks(n)
        reps = (3 if quick else 20) if n <= 40 else 2
        for _ in range(reps):
            if n >= 4:
                a, b, c, d = _distinct_indices(rng, n, 4, ms)
                g = rng.choice([[(a, b), (c, d)], [(a, c), (b, d)], [(a, d), (b, c)]])
                cases.append(gen_case(rng, n, g))
            cases.append(gen_case(rng, n, [tuple(_distinct_indices(rng, n, 3, ms))]))
    return cases


# ------------------------------------------------------------------------------------------------------------ evaluation
def impl(case):
    import logging
    import warnings
    import bibtexparser
    import implutil
    import splitcommon as SC
    from bibtexparser.splitter import Splitter
    from props import c09_copies as CP
    inp = case["input"]
    text, items, w = inp["text"], inp["items"], inp["wide"]
    if w["model"]:
        rec, r = SC.base_record(text)              # parse_string(text, parse_stack=[]) and its sx encoding for the model
    else:
        # oracle-only (the convention of the streams `history` and `copies`)
        rec, r = {"sx_in": None, "sx_out": None}, None
    tags = ["wide", "wide:" + w["kind"], "wide:" + w["layout"], "wide:" + bucket(w["n"]),
            "wide:%s:%s" % (w["kind"], bucket(w["n"])), "wide:compared-with-model" if w["model"] else "wide:oracle-only"] + \
           ["wide:via-" + h for h in w["how"]]
    if len(w["plan"]) > len({"followed": "WC", "preceded": "CW", "both": "CWC", "twice": "WVC"}[w["layout"]]):
        tags.append("wide:unrelated-block-in-between")
    rec["nontrivial"] = True
    rec["key"] = hashlib.sha1(text.encode("utf-8", "surrogatepass")).hexdigest()
    rec["tags"] = tags
    if r is not None and r[0] == "exc":
        rec["oracle"] = {"ok": False, "detail": "parse_string(text, parse_stack=[]) raised " + r[2]}
        return rec
    problem = None
    entry_points = {"empty": ("parse_string(text, parse_stack=[])", (lambda: r[1]) if r is not None else
                              (lambda: bibtexparser.parse_string(text, parse_stack=[]))),
                    "split": ("Splitter(text).split()", lambda: Splitter(text).split()),
                    "default": ("parse_string(text) (default parse stack)", lambda: bibtexparser.parse_string(text))}
    prev_disable = logging.root.manager.disable
    logging.disable(logging.CRITICAL)              # the middlewares log every failed block they pass on
    try:
        with warnings.catch_warnings():
            warnings.simplefilter("ignore")
            for what, go in [entry_points[h] for h in w["how"]]:
                g = implutil.guarded(go)
                if g[0] == "exc":
                    problem = "%s raised %s" % (what, g[2])
                    break
                lib = g[1]
                rec.setdefault("summary", " ".join(type(b).__name__[:6] for b in lib.blocks)[:200])
                p, link = CP.judge(lib, items, positional=True, what="the library returned by " + what)
                problem = p or link
                if problem is None and "default" not in what:
                    # the live entries are complete as well (nothing merged into or dropped from the first block)
                    for b, it in zip(lib.blocks, items):
                        if type(b).__name__ == "Entry" and [[f.key, f.value] for f in b.fields] != [[f[0], f[1]] for f in it["fields"]]:
                            problem = "%s: the live entry %r does not hold the fields of its source block" % (what, it["key"])
                            break
                if problem:
                    break
    finally:
        logging.disable(prev_disable)
    if problem:
        problem = "[entry with %d fields, equal names at indices %r, layout %s] %s" % (w["n"], w["groups"], w["plan"], problem)
    rec["oracle"] = {"ok": problem is None, "detail": (problem or "")[:1500]}
    return rec
