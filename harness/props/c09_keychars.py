"""C09, stream `keychars`: keys made of EVERY character that the format accepts in a key.

The collision grammar of the other streams draws keys from pools of plain names (`k1`, `K1`, `a`, `x:1` ...).  The property
quantifies over well-formed documents, and the dialect grammar (DESIGN.md section 3) says what a key is:

    key, name ::= kchar+          kchar: not white space (str.isspace), not an ACTIVE delimiter
                                  delimiters: { } " , = and the line feed; active = not directly preceded by a backslash

i.e. an entry key is whatever stands between `@type{` and the first active comma or closing brace, a @string name or a field
name whatever stands before the first active `=`.  Which keys are legal is decided HERE, from that grammar - never by asking
the tree under test.  This stream builds keys around one `atom`:

  ascii-punct        each of the 27 printable ASCII punctuation characters that is not a delimiter
                     (! # $ % & ' ( ) * + - . / : ; < > ? @ [ \\ ] ^ _ ` | ~)
  escaped-delimiter  \\{  \\}  \\"  \\,  \\=     (a delimiter directly after a backslash is not active: two kchars)
  letter-like, digit-like, case-oddity, combining, invisible
                     the non-ASCII pools of props/charclasses.py (letters, digits of other scripts, superscripts, letters whose
                     case mappings are odd, combining marks, invisible characters that are NOT white space)

at every position: `start` (atom + k1), `middle` (k + atom + 1), `end` (k1 + atom), `alone` (atom), `doubled` (atom atom),
`doubled-inside` (k + atom atom + 1).  A key that ends in a backslash is followed by a blank (the grammar allows white space
after a key; without it the backslash would escape the delimiter).  The key K is used as

  entry key      single (one entry, with fields / field-less `@t{K}`), dup2 (K K: the second is the duplicate), dup3 (K K K, the
                 third as well), dupfield (an entry of key K repeating a field name, then clean entries of K: the FIRST CLEAN
                 one is live), dupfield-after (clean K, then the repeating one, then clean K), string-mix (@string K and
                 entry K interleaved: one live block per class, the later ones duplicates of their own class),
                 siblings (K, a key K' that differs from K only before / after / in the atom, K again: K' is live, no
                 duplicate of K), sometimes with an unrelated block in between;
  string name    the same collisions among @string blocks (single, dup2, dup3, string-mix, siblings);
  field name     an entry whose field names are built from the atom: all distinct (a live entry holding every field), one
                 repeated (duplicate-field block naming exactly that name), two names differing only around the atom (live);
  near           two keys that are different strings but look alike (other letter case, composed / decomposed accent, sharp s /
                 ss, dotless i, full-width digit, `-` / `_`, with / without an invisible character): both are live, a third
                 entry repeating the first key is the duplicate of the FIRST.

Every document goes through parse_string(text, parse_stack=[]) - compared with the Coq splitter model (op 132) -, through
parse_string(text) (default stack) and, seeded, through Splitter(text).split() and through a two-part parse (the text cut
between two source blocks, the second part parsed with library=first).  The verdict on each returned library is the property
statement (`c09_copies.judge` against the generator's source blocks: as many blocks as source blocks, first of a key live
and the object in entries_dict / strings_dict, later ones duplicate-key blocks exposing the key, that first block and the
complete duplicate, repeated field names a duplicate-field block holding every occurrence whose key is not registered), plus:
every live entry / string holds exactly the key, fields and value written."""
import hashlib

from props import charclasses as CC
from props import c09_wide as WD

DELIMS = ['{', '}', '"', ',', '=']
ASCII_PUNCT = [chr(c) for c in range(33, 127) if not chr(c).isalnum() and chr(c) not in DELIMS]
ESCAPED = ["\\" + d for d in DELIMS]
ATOM_CLASSES = [("ascii-punct", ASCII_PUNCT), ("escaped-delimiter", ESCAPED), ("letter-like", CC.LETTER_LIKE),
                ("digit-like", CC.DIGIT_ODDITIES), ("case-oddity", CC.CASE_ODDITIES), ("combining", CC.COMBINING),
                ("invisible", CC.INVISIBLE_NOT_SPACE)]
ATOMS = [(cls, a) for cls, pool in ATOM_CLASSES for a in pool]
ASCII_ATOMS = [x for x in ATOMS if x[0] in ("ascii-punct", "escaped-delimiter")]
OTHER_ATOMS = [x for x in ATOMS if x[0] not in ("ascii-punct", "escaped-delimiter")]
POSITIONS = ["start", "middle", "end", "alone", "doubled", "doubled-inside"]
ENTRY_SHAPES = ["single", "single0", "dup2", "dup3", "dupfield", "dupfield-after", "string-mix", "siblings"]
STRING_SHAPES = ["single", "dup2", "dup3", "string-mix", "siblings"]
FIELD_SHAPES = ["distinct", "repeat", "repeat-late", "siblings"]
NEAR_PAIRS = [("key", "Key"), ("KEY", "key"), ("été", "été"), ("é", "É"), ("straße", "strasse"),
              ("straße", "STRASSE"), ("fın", "fin"), ("İx", "i̇x"), ("ſet", "set"), ("K1", "K1"), ("K1", "k1"),
              ("k1", "k１"), ("k1", "k١"), ("k2", "k²"), ("a-b", "a_b"), ("a-b", "a‐b"), ("a.b", "a:b"), ("a/b", "a\\b"),
              ("ab", "a​b"), ("ab", "ab﻿"), ("ab", "⁠ab"), ("a'b", "a`b"), ("a'b", "a’b"), ("σς", "σσ"),
              ("ﬁn", "fin"), ("ǅ", "ǆ"), ("Å", "Å"), ("a#b", "a\\#b"), ("a&b", "a\\&b"), ("a%b", "a"),
              ("k", "k~"), ("k", "k*"), ("k", "k?"), ("k!", "k"), ("(k)", "k"), ("[k]", "k"), ("<k>", "k"), ("k|1", "k"), ("$k$", "k"),
              ("@k", "k"), ("k^2", "k2"), ("k+", "k"), ("k;", "k"), ("k.", "k")]
TYPES = ["article", "Article", "BOOK", "inProceedings", "misc", "a", "x_1", "techreport"]
OTHERS = ["comment", "preamble", "entry"]


def make_key(atom, pos):
    return {"start": atom + "k1", "middle": "k" + atom + "1", "end": "k1" + atom, "alone": atom, "doubled": atom + atom,
            "doubled-inside": "k" + atom + atom + "1"}[pos]


def sibling_key(rng, atom, pos, key):
    """a DIFFERENT key that shares with `key` everything before / after the atom, or differs only in the atom"""
    cands = {"start": [atom + "k2", "k1", atom + atom + "k1"], "middle": ["k" + atom + "2", "j" + atom + "1", "k1", "k" + atom, atom + "1"],
             "end": ["k2" + atom, "k1", "k1" + atom + atom], "alone": [atom + atom, atom + "a", "a" + atom],
             "doubled": [atom, atom + atom + atom, atom + "a" + atom], "doubled-inside": ["k" + atom + "1", "k" + atom + atom + "2", "k1"]}[pos]
    other = rng.choice([a for _, a in ASCII_ATOMS[:27] if a != atom and a != "\\"])
    cands = cands + [make_key(other, pos)]
    cands = [c for c in cands if c != key]
    return rng.choice(cands)


class Doc:
    """text and ground truth (the format of gens_split.gen_doc), one source block after the other"""

    def __init__(self, rng):
        self.rng = rng
        self.parts, self.items, self.offs = [], [], []
        self.lines = 0
        self.pos = 0
        self.wstyle = rng.choice(["compact", "lines", "spaced", "random"])
        self.vstyle = rng.choice(["plain", "plain", "mixed"])
        self._emit(rng.choice(["", "", "\n", " "]))

    def _emit(self, s):
        self.parts.append(s)
        self.lines += s.count("\n")
        self.pos += len(s)

    def _ws(self, after=None):
        """white space inside a block; `after`: the text it follows (a blank is forced after a backslash)"""
        if self.wstyle == "compact":
            w = ""
        elif self.wstyle == "spaced":
            w = " "
        elif self.wstyle == "lines":
            w = self.rng.choice(["", " "])
        else:
            w = self.rng.choice(["", "", " ", " ", "\n", "\n  ", "\t", "  "])
        if after is not None and after.endswith("\\") and w == "":
            w = self.rng.choice([" ", " ", "\n", "\t"])
        return w

    def _block(self, raw, item):
        item["raw"] = raw
        item["line"] = self.lines
        self.offs.append(self.pos)
        self._emit(raw)
        self.items.append(item)
        self._emit(self.rng.choice(["\n", "\n", "\n\n", " ", ""]))

    def entry(self, key, names, bare=False):
        rng = self.rng
        typ = rng.choice(TYPES)
        head = "@" + typ + "{" + self._ws() + key
        buf = [head + self._ws(after=key)]
        fields = []
        if not names and (bare or rng.random() < 0.5):
            buf.append("}")
        else:
            buf.append(",")
            for i, name in enumerate(names):
                val = WD.gen_value(rng, self.vstyle, len(self.items) * 10 + i)
                pre = "\n  " if self.wstyle == "lines" else self._ws()
                mid1, mid2, post = self._ws(after=name), self._ws(), self._ws(after=val)
                sofar = "".join(buf) + pre + name + mid1
                fields.append([name, val, self.lines + sofar.count("\n")])
                buf.append(pre + name + mid1 + "=" + mid2 + val + post)
                if i < len(names) - 1 or rng.random() < 0.4:
                    buf.append(",")
            if not names or buf[-1] == ",":
                buf.append("\n" if self.wstyle == "lines" else self._ws())
            elif self.wstyle == "lines":
                buf.append("\n")
            buf.append("}")
        self._block("".join(buf), {"kind": "entry", "type": typ.lower(), "key": key, "fields": fields})

    def string(self, name):
        rng = self.rng
        val = rng.choice(['"s%d"', "{s%d}", "%d", '"a" # "%d"', "{}"]).replace("%d", str(len(self.items)))
        kw = rng.choice(["string", "string", "String", "STRING"])
        raw = "@" + kw + "{" + self._ws() + name + self._ws(after=name) + "=" + self._ws() + val + self._ws(after=val) + "}"
        self._block(raw, {"kind": "string", "key": name, "value": val})

    def other(self, what=None):
        what = what or self.rng.choice(OTHERS)
        if what == "comment":
            self._block("@comment{c %d}" % len(self.items), {"kind": "comment", "comment": "c %d" % len(self.items)})
        elif what == "preamble":
            self._block('@preamble{"p" # "q"}', {"kind": "preamble", "value": '"p" # "q"'})
        else:
            self.entry("zz%d" % len(self.items), ["x"])

    def text(self):
        return "".join(self.parts)


def _names(rng, n_max=3):
    return rng.sample(["x", "y", "title", "T"], rng.randint(0, n_max))


def _maybe_other(rng, d, p=0.2):
    if rng.random() < p:
        d.other()


def gen_entry_case(rng, cls, atom, pos, shape):
    key = make_key(atom, pos)
    d = Doc(rng)
    E = lambda k=key, **kw: d.entry(k, _names(rng), **kw)                              # noqa: E731
    W = lambda k=key: d.entry(k, rng.choice([["x", "x"], ["x", "y", "x"], ["y", "x", "x"], ["x", "x", "x"]]))  # noqa: E731
    if shape == "single":
        _maybe_other(rng, d, 0.4)
        d.entry(key, _names(rng) or ["x"])
        _maybe_other(rng, d, 0.4)
    elif shape == "single0":
        _maybe_other(rng, d, 0.4)
        d.entry(key, [], bare=True)
        _maybe_other(rng, d, 0.4)
    elif shape in ("dup2", "dup3"):
        for i in range(2 if shape == "dup2" else 3):
            if i:
                _maybe_other(rng, d)
            E()
    elif shape == "dupfield":
        W()
        if rng.random() < 0.3:
            W()
        _maybe_other(rng, d)
        E()
        if rng.random() < 0.6:
            E()
    elif shape == "dupfield-after":
        E()
        _maybe_other(rng, d)
        W()
        E()
    elif shape == "string-mix":
        plan = rng.choice(["SESE", "ESES", "SSEE", "EESS", "SEES", "ESE", "SES", "ES", "SE"])
        for c in plan:
            if c == "E":
                E()
            else:
                d.string(key)
    else:
        sib = sibling_key(rng, atom, pos, key)
        E()
        E(sib)
        if rng.random() < 0.7:
            E()
        if rng.random() < 0.4:
            E(sib)
    return _case(d, "entry-key", cls, atom, pos, shape, rng)


def gen_string_case(rng, cls, atom, pos, shape):
    name = make_key(atom, pos)
    d = Doc(rng)
    if shape == "single":
        _maybe_other(rng, d, 0.4)
        d.string(name)
        _maybe_other(rng, d, 0.4)
    elif shape in ("dup2", "dup3"):
        for i in range(2 if shape == "dup2" else 3):
            if i:
                _maybe_other(rng, d)
            d.string(name)
    elif shape == "string-mix":
        for c in rng.choice(["SSE", "SES", "ESS", "SESE", "SSES"]):
            if c == "E":
                d.entry(name, _names(rng))
            else:
                d.string(name)
    else:
        sib = sibling_key(rng, atom, pos, name)
        d.string(name)
        d.string(sib)
        if rng.random() < 0.7:
            d.string(name)
        if rng.random() < 0.4:
            d.string(sib)
    return _case(d, "string-name", cls, atom, pos, shape, rng)


def gen_field_case(rng, cls, atom, pos, shape):
    name = make_key(atom, pos)
    d = Doc(rng)
    key = rng.choice(["k1", "a", name])
    if shape == "distinct":
        names = [name] + _names(rng, 2)
        rng.shuffle(names)
    elif shape == "repeat":
        names = [name, name] + _names(rng, 2)
        rng.shuffle(names)
    elif shape == "repeat-late":
        names = _names(rng, 2) + [name] + ["y2"] * rng.randint(0, 1) + [name]
    else:
        names = [name, sibling_key(rng, atom, pos, name)] + _names(rng, 1)
        rng.shuffle(names)
    if rng.random() < 0.3:
        d.entry(key, _names(rng))
    d.entry(key, names)
    if rng.random() < 0.6:
        d.entry(key, [name] if rng.random() < 0.5 else _names(rng))
    return _case(d, "field-name", cls, atom, pos, shape, rng)


def gen_near_case(rng, pair):
    a, b = pair if rng.random() < 0.5 else (pair[1], pair[0])
    d = Doc(rng)
    what = rng.choice(["entry-key", "entry-key", "string-name", "field-name"])
    if what == "entry-key":
        d.entry(a, _names(rng))
        d.entry(b, _names(rng))
        if rng.random() < 0.7:
            d.entry(a, _names(rng))
    elif what == "string-name":
        d.string(a)
        d.string(b)
        if rng.random() < 0.7:
            d.string(a)
    else:
        d.entry("k1", [a, b] + _names(rng, 1))
        if rng.random() < 0.5:
            d.entry("k1", [a, b, a])
    return _case(d, what, "near", "/".join(pair), "near", "near", rng)


def _case(d, where, cls, atom, pos, shape, rng):
    r = rng.random()
    how = ["empty", "default"] + (["split"] if r < 0.5 else []) + (["two-part"] if len(d.items) >= 2 and rng.random() < 0.4 else [])
    cut = d.offs[rng.randrange(1, len(d.offs))] if "two-part" in how else None
    return {"stream": "keychars", "input": {"text": d.text(), "items": d.items,
                                            "keychars": {"where": where, "class": cls, "atom": atom, "position": pos, "shape": shape,
                                                         "how": how, "cut": cut}}}


def generate(rng, tier):
    quick = tier == "quick"
    cases = []
    # entry keys: every ASCII atom at every position (shape drawn in turn), the other atoms at every position in the thorough
    # tier and at two drawn positions in the quick tier; then every atom in every shape (position drawn)
    n = 0
    for cls, atom in ATOMS:
        ascii_ = (cls, atom) in ASCII_ATOMS
        for pos in (POSITIONS if ascii_ or not quick else rng.sample(POSITIONS, 2)):
            shapes = ENTRY_SHAPES if not quick else [ENTRY_SHAPES[n % len(ENTRY_SHAPES)]]
            n += 1
            for shape in shapes:
                cases.append(gen_entry_case(rng, cls, atom, pos, shape))
    for cls, atom in ATOMS:
        ascii_ = (cls, atom) in ASCII_ATOMS
        for shape in ENTRY_SHAPES:
            if quick and not ascii_ and rng.random() < 0.5:
                continue
            cases.append(gen_entry_case(rng, cls, atom, rng.choice(POSITIONS), shape))
    # @string names and field names: every atom, every position for the ASCII atoms (shape drawn), one or two drawn positions otherwise
    for gen, shapes in ((gen_string_case, STRING_SHAPES), (gen_field_case, FIELD_SHAPES)):
        for cls, atom in ATOMS:
            ascii_ = (cls, atom) in ASCII_ATOMS
            for pos in (POSITIONS if ascii_ or not quick else rng.sample(POSITIONS, 1)):
                for shape in (shapes if not quick else [rng.choice(shapes)]):
                    cases.append(gen(rng, cls, atom, pos, shape))
    # different keys that look alike
    for pair in NEAR_PAIRS:
        for _ in range(1 if quick else 6):
            cases.append(gen_near_case(rng, pair))
    return cases


# ------------------------------------------------------------------------------------------------------------ evaluation
def impl(case):
    import logging
    import warnings
    import bibtexparser
    import implutil
    import splitcommon as SC
    from bibtexparser.splitter import Splitter
    from props import c09_copies as CP
    inp = case["input"]
    text, items, k = inp["text"], inp["items"], inp["keychars"]
    rec, r = SC.base_record(text)                  # parse_string(text, parse_stack=[]) and its sx encoding for the model
    tags = ["keychars", "keychars:" + k["where"], "keychars:%s:%s" % (k["where"], k["shape"]), "keychars:class:" + k["class"],
            "keychars:position:" + k["position"]] + ["keychars:via-" + h for h in k["how"]]
    collisions = sum(1 for kind, _ in CP.expected_kinds(items) if kind not in ("first", "other"))
    tags.append("keychars:collisions" if collisions else "keychars:no-collision")
    rec["nontrivial"] = collisions > 0
    rec["key"] = hashlib.sha1(text.encode("utf-8", "surrogatepass")).hexdigest()
    rec["tags"] = tags
    if r[0] == "exc":
        rec["oracle"] = {"ok": False, "detail": "parse_string(text, parse_stack=[]) raised " + r[2]}
        return rec
    cut = k.get("cut")

    def two_part():
        la = bibtexparser.parse_string(text[:cut], parse_stack=[])
        lb = bibtexparser.parse_string(text[cut:], parse_stack=[], library=la)
        if lb is not la:
            raise AssertionError("parse_string(.., library=L) returned another library")
        return lb
    entry_points = {"empty": ("parse_string(text, parse_stack=[])", lambda: r[1]),
                    "split": ("Splitter(text).split()", lambda: Splitter(text).split()),
                    "default": ("parse_string(text) (default parse stack)", lambda: bibtexparser.parse_string(text)),
                    "two-part": ("parsing the text in two parts (cut before offset %r, second part with library=first, empty stack)" % cut,
                                 two_part)}
    problem = None
    prev_disable = logging.root.manager.disable
    logging.disable(logging.CRITICAL)              # the middlewares log every failed block they pass on
    try:
        with warnings.catch_warnings():
            warnings.simplefilter("ignore")
            for h in k["how"]:
                what, go = entry_points[h]
                g = implutil.guarded(go)
                if g[0] == "exc":
                    problem = "%s raised %s" % (what, g[2])
                    break
                lib = g[1]
                its = items
                if h == "two-part":
                    # raw texts are the same; start lines of the second part count from its own beginning
                    base = text[:cut].count("\n")
                    its, pos = [], 0
                    for it in items:
                        pos = text.index(it["raw"], pos)
                        its.append(dict(it, line=it["line"] - base) if pos >= cut else it)
                        pos += len(it["raw"])
                p, link = CP.judge(lib, its, positional=True, what="the library returned by " + what)
                problem = p or link
                if problem is None and h != "default":
                    # the live blocks are complete as well (nothing merged into, dropped from or renamed in the first block)
                    for b, it in zip(lib.blocks, its):
                        cn = type(b).__name__
                        if cn == "Entry" and (b.key != it["key"] or [[f.key, f.value] for f in b.fields] != [[f[0], f[1]] for f in it["fields"]]):
                            problem = "%s: the live entry %r does not hold the key and fields of its source block" % (what, it["key"])
                        elif cn == "String" and (b.key != it["key"] or b.value != it["value"]):
                            problem = "%s: the live string %r does not hold the name and value of its source block" % (what, it["key"])
                        if problem:
                            break
                if problem:
                    break
    finally:
        logging.disable(prev_disable)
    if problem:
        problem = "[%s %r (%s, %s), shape %s] %s" % (k["where"], k["atom"], k["class"], k["position"], k["shape"], problem)
    rec["oracle"] = {"ok": problem is None, "detail": (problem or "")[:1500]}
    return rec
