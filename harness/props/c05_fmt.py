"""C05, stream `fmtedge`: edge values of EVERY BibtexFormat setting x every block kind at every position.

The class (all of it whitespace-only, i.e. inside the hypothesis `wf_fmt` of the theorems):

  block_separator, indent   the pool EDGE_WS below: empty; one blank; ending in blanks (' ', '\\t', '\\n  ', ' \\n ', '\\n\\t');
                            not ending in a newline; carriage returns; every character of charclasses.OTHER_ISSPACE alone and next
                            to a newline / a blank; long (hundreds to thousands of characters, one kind and mixed)
  value_column              0, 1, len(key)+2 / +3 / +4 for a field key of the document (VAL_SEP is three characters wide: the padding
                            is -1 / 0 / 1), very large, 'auto' (also on documents without any field)
  trailing_comma            both (also on entries without fields)
  documents                 an implicit (free-text) comment, an explicit comment, a preamble, a @string and an entry each occur
                            first / in the middle / last and next to each other kind: the single-block documents, every ordered
                            pair, every triple, and "tours" (a random Eulerian circuit through all 24 adjacencies of the 5 kinds;
                            two free texts cannot be neighbours: they are one implicit comment) - every separator of the pool
                            meets every adjacency

Every choice comes from the rng handed in; the documents are plain (built here block by block with pairwise different keys), so a
block that is lost, merged, doubled or changed shows in the comparison of the re-parsed content.
"""
from props import charclasses as CC

KINDS = ["free", "comment", "preamble", "string", "entry"]
VAL_SEP_LEN = 3


# ----------------------------------------------------------------------------------------------------------------- whitespace pool
def edge_ws(rng):
    """The whitespace-only strings used as block_separator and as indent: list of (text, label).  Fixed part first, then the
    long strings drawn from the rng."""
    out = []
    basic = ["", " ", "\t", "\n", "\n\n", "  ", "\n  ", " \n ", "\n\t", "\t\n", " \n", "\n ", "\t \t", "\n\n\n ", "\n \n\t",
             "\r", "\r\n", "\n\r", " \r\n\t", "\r\n\r\n", "\r "]
    for s in basic:
        out.append(s)
    for k, c in enumerate(CC.OTHER_ISSPACE):
        out.append(c)
        out.append(["\n" + c, c + "\n", " " + c, c + " ", c + c, "\n" + c + "\n", c + "\t", "\t" + c][k % 8])
    out.append("".join(CC.OTHER_ISSPACE))
    out.append("\n" + "".join(CC.LINE_BOUNDARIES))
    # long
    out += [" " * 257, "\n" * 300, "\t" * 1000, " \n\t" * 400, "".join(CC.all_whitespace()) * 20, "\n" * 64 + " " * 64]
    allws = CC.all_whitespace()
    for _ in range(3):
        out.append("".join(rng.choice(allws) for _ in range(rng.randint(300, 2000))))
    out.append("".join(rng.choice(" \t") for _ in range(rng.randint(100, 600))))
    seen, res = set(), []
    for s in out:
        if s not in seen:
            seen.add(s)
            assert s.strip() == "", repr(s)
            res.append(s)
    return res


def ws_labels(s):
    """The classes of the task statement a whitespace-only string belongs to (several may apply)"""
    labs = []
    if s == "":
        return ["empty"]
    if len(s) == 1 and s in " \t":
        labs.append("one-blank")
    if len(s) > 1 and s[-1] in " \t":
        labs.append("ends-in-blank")
    if s.endswith("\n"):
        labs.append("ends-in-newline")
    else:
        labs.append("no-final-newline")
    if "\n" in s and not s.endswith("\n"):
        labs.append("last-line-nonempty")
    if "\r" in s:
        labs.append("carriage-return")
    if any(c not in " \t\r\n" for c in s):
        labs.append("other-isspace")
    if len(s) >= 100:
        labs.append("long")
    return labs


# ----------------------------------------------------------------------------------------------------------------- blocks
FIELD_NAMES = ["a", "ab", "year", "title", "author", "month", "note", "howpublished", "x-y", "f.1", "averyveryveryverylongfieldname"]


class Doc:
    """Source text built block by block; knows the kinds and the field keys it contains."""

    def __init__(self, rng):
        self.rng = rng
        self.n = 0
        self.kinds = []
        self.texts = []
        self.field_keys = []
        self.string_keys = []

    # -- values
    def value(self):
        r, i = self.rng, self.n
        k = r.randrange(12)
        if k == 0:
            return "{v%d}" % i
        if k == 1:
            return '"T%d {B}r"' % i
        if k == 2:
            return str(1900 + i % 200)
        if k == 3 and self.string_keys:
            return r.choice(self.string_keys)
        if k == 4 and self.string_keys:
            return "%s # { %d} # \"~\"" % (r.choice(self.string_keys), i)
        if k == 5:
            return "{two\n  lines %d}" % i
        if k == 6:
            return "{{%d} \\& {n{e}}}" % i
        if k == 7:
            return "undefined%d" % (i % 3)
        if k == 8:
            return "{}" if r.random() < 0.5 else '""'
        if k == 9:
            return "{ padded %d }" % i
        if k == 10:
            return '"a, b = c" # {d%d}' % i
        return "{plain %d}" % i

    # -- one block of each kind
    def free(self):
        r, i = self.rng, self.n
        return r.choice([
            "%% remark %d", "free text %d", "line one %d\nline two", "first %d\n    indented continuation\n  less indented",
            "para %d\n\npara two after an empty line", "%% a = {%d},", "x } , = \" # %d {", "tab\tinside %d", "no break %d",
            "\u200bzero width first %d", "mail a@b.c %d", "%d", "%%%d\n%%\n%% three comment lines", "ends in brace %d}",
            "ends in comma %d,", "a\x0cform feed inside %d", "two\r\nlines with carriage return %d",
        ]) % i

    def comment(self):
        r, i = self.rng, self.n
        return r.choice([
            "@comment{c%d}", "@Comment{ padded %d }", "@comment{two\n  lines %d}", "@COMMENT{{nested} %d, x = {y}}", "@comment{%d \"quote}",
            "@comment {hws %d}", "@comment{\n  own lines %d\n}", "@comment{%% percent %d}", "@comment{}%.0s",
        ]) % i

    def preamble(self):
        r, i = self.rng, self.n
        return r.choice([
            '@preamble{"\\newcommand{\\noop}[1]{} %d"}', "@preamble{ {b} # s %d }", "@Preamble{p%d}", "@preamble{two\nlines %d}",
            "@PREAMBLE{\\def\\p%d{}}", "@preamble\t{ \"q%d\" # abbr }", "@preamble{}%.0s",
        ]) % i

    def string(self):
        r, i = self.rng, self.n
        key = r.choice(["s%d", "S%d", "abbr%d", "a.long-string:key%d", "j%d"]) % i
        prev = r.choice(self.string_keys) if self.string_keys else "undefined"
        val = r.choice(['"S %d"' % i, "{S{%d}}" % i, "%d" % i, "%s # { x}" % prev, prev, "{two\n lines}", '""'])
        lay = r.choice(["@string{%s = %s}", "@String{ %s=%s }", "@STRING{%s\n  =\n  %s\n}", "@string {%s = %s}"])
        self.string_keys.append(key)
        return lay % (key, val)

    def entry(self, nf=None):
        r, i = self.rng, self.n
        typ = r.choice(["article", "Book", "misc", "a", "inProceedings", "x_1"])
        key = r.choice(["k%d", "K%d", "doe2020:%d", "a/very.long-entry+key_%d", "%d"]) % i
        nf = r.choice([0, 0, 1, 1, 2, 3, 4]) if nf is None else nf
        if nf == 0:
            return "@%s{%s%s}" % (typ, key, r.choice(["", ",", ",\n", " , "]))
        names = r.sample(FIELD_NAMES, nf)
        self.field_keys += names
        fs = ["%s = %s" % (nm, self.value()) for nm in names]
        lay = r.randrange(4)
        if lay == 0:
            return "@%s{%s,\n  %s\n}" % (typ, key, ",\n  ".join(fs))
        if lay == 1:
            return "@%s{%s, %s}" % (typ, key, ", ".join(fs))
        if lay == 2:
            return "@%s{%s,\n%s,\n}" % (typ, key, ",\n".join(fs))
        return "@%s{ %s ,\n\t%s ,\n}" % (typ, key, " ,\n\t".join(f.replace(" = ", "=") for f in fs))

    def add(self, kind, **kw):
        self.texts.append(getattr(self, kind)(**kw))
        self.kinds.append(kind)
        self.n += 1

    def text(self):
        r = self.rng
        style = r.randrange(4)
        parts = [r.choice(["", "", "\n", "  ", "\n\n \t"])]
        for k, t in enumerate(self.texts):
            parts.append(t)
            if k < len(self.texts) - 1:
                if style == 0:
                    g = "\n"
                elif style == 1:
                    g = "\n\n"
                else:
                    g = r.choice(["\n", "\n\n", " \n", "\n  ", "\n\t", " ", "", "\r\n", "\n \n\n", "\x0c\n"])
                # two free texts in a row would be ONE implicit comment
                assert not (self.kinds[k] == "free" and self.kinds[k + 1] == "free")
                parts.append(g)
        parts.append(r.choice(["", "\n", "\n", " ", "\n\n"]))
        return "".join(parts)


def build(rng, kinds, nf=None, max_nf=None):
    d = Doc(rng)
    for k in kinds:
        if k == "entry" and max_nf is not None:
            d.add(k, nf=rng.randint(0, max_nf))
        elif k == "entry" and nf is not None:
            d.add(k, nf=nf)
        else:
            d.add(k)
    return d


def tour(rng):
    """A sequence of kinds that contains every ordered pair of kinds as neighbours (free-free excepted): a random Eulerian
    circuit (Hierholzer) of the complete digraph with loops, started at a random kind; sometimes one more block is appended so that
    first and last kind differ."""
    succ = {a: [b for b in KINDS if not (a == "free" and b == "free")] for a in KINDS}
    for a in KINDS:
        rng.shuffle(succ[a])
    start = rng.choice(KINDS)
    stack, circuit = [start], []
    while stack:
        v = stack[-1]
        if succ[v]:
            stack.append(succ[v].pop())
        else:
            circuit.append(stack.pop())
    circuit.reverse()
    if rng.random() < 0.6:
        circuit.append(rng.choice([k for k in KINDS if not (k == "free" and circuit[-1] == "free")]))
    return circuit


def valid(kinds):
    return all(not (a == "free" and b == "free") for a, b in zip(kinds, kinds[1:]))


# ----------------------------------------------------------------------------------------------------------------- columns
COLUMN_KINDS = ["0", "1", "key+2", "key+3", "key+4", "huge", "auto"]


def column(rng, kind, doc, big=True):
    """value_column of the given kind for the document"""
    if kind == "0":
        return 0
    if kind == "1":
        return 1
    if kind == "auto":
        return "auto"
    if kind == "huge":
        # the widest column only where at most one field is written with it (the written text grows by the column per field)
        n = len(doc.field_keys)
        return rng.choice([255, 1000, 4099, 65537] if big and n <= 1 else [255, 1000, 4099] if big and n <= 3 else [255, 1000])
    keys = doc.field_keys or doc.string_keys or ["title"]
    return len(rng.choice(keys)) + int(kind[-1])


def fmt_of(indent, col, trailing, sep):
    return {"indent": indent, "column": col, "trailing": trailing, "sep": sep}


def case(doc, fmt, part, colkind):
    labels = ["fmtedge:" + part, "col:" + colkind, "trailing:%d" % int(fmt["trailing"])]
    labels += ["sep:" + l for l in ws_labels(fmt["sep"])] + ["indent:" + l for l in ws_labels(fmt["indent"])]
    return {"stream": "fmtedge", "input": {"text": doc.text(), "fmt": fmt, "n_items": len(doc.kinds), "labels": labels}}


def generate(rng, tier):
    quick = tier == "quick"
    ws = edge_ws(rng)
    cases = []

    class Cycle:
        """every element of the pool in turn (shuffled once), so that a fixed number of draws covers the pool evenly"""

        def __init__(self, pool):
            self.pool = list(pool)
            rng.shuffle(self.pool)
            self.k = 0

        def __call__(self):
            x = self.pool[self.k % len(self.pool)]
            self.k += 1
            return x
    sep_c, ind_c, col_c = Cycle(ws), Cycle(ws), Cycle(COLUMN_KINDS)

    def rnd_fmt(doc, sep=None, indent=None, colkind=None, big=True):
        ck = colkind or col_c()
        return fmt_of(ind_c() if indent is None else indent, column(rng, ck, doc, big), rng.random() < 0.5, sep_c() if sep is None else sep), ck

    # 1. single blocks: every kind alone (first = last), every column kind, both trailing commas
    for k in KINDS:
        for ck in COLUMN_KINDS:
            d = build(rng, [k])
            f, _ = rnd_fmt(d, colkind=ck)
            cases.append(case(d, f, "single", ck))
    # 2. every ordered pair of kinds: the smallest documents with a separator.  quick: 4 separators of the pool per pair (the pool
    #    is walked through in turn); thorough: every separator
    pairs = [(a, b) for a in KINDS for b in KINDS if valid((a, b))]
    for a, b in pairs:
        seps = [sep_c() for _ in range(4)] if quick else ws
        for s in seps:
            d = build(rng, [a, b])
            f, ck = rnd_fmt(d, sep=s)
            cases.append(case(d, f, "pair", ck))
    # 3. every triple: each kind in the middle between each two others
    triples = [(a, b, c) for a in KINDS for b in KINDS for c in KINDS if valid((a, b, c))]
    for t in triples:
        for _ in range(1 if quick else 12):
            d = build(rng, list(t))
            f, ck = rnd_fmt(d)
            cases.append(case(d, f, "triple", ck))
    # 4. tours: EVERY separator of the pool meets every adjacency of kinds (one document each; thorough: four).  The long
    #    separators (what they do next to a block is decided by their first and last characters, which the short ones of the pool
    #    cover) are written into a third of a tour in the quick tier
    for s in ws:
        for _ in range(1 if quick else 4):
            kinds = tour(rng)
            if quick and len(s) >= 100:
                k0 = rng.randrange(len(kinds) - 8)
                kinds = kinds[k0:k0 + 8]
            d = build(rng, kinds, max_nf=2 if quick else 4)
            f, ck = rnd_fmt(d, sep=s, big=False)
            cases.append(case(d, f, "tour", ck))
    # 5. entries: EVERY indent of the pool (quick: the trailing comma alternates; thorough: x both), fields 0..4 at every
    #    position, columns next to the key lengths
    for k_ind, ind in enumerate(ws):
        for tr in ((bool(k_ind % 2),) if quick else (False, True)):
            kinds = [rng.choice(KINDS) if rng.random() < 0.3 else "entry" for _ in range(rng.randint(1, 4))]
            if "entry" not in kinds:
                kinds[rng.randrange(len(kinds))] = "entry"
            if not valid(kinds):
                kinds = [k if k != "free" else "comment" for k in kinds]
            d = build(rng, kinds)
            f, ck = rnd_fmt(d, indent=ind, big=len(ind) < 50)
            f["trailing"] = tr
            cases.append(case(d, f, "indent", ck))
    # 6. columns: every column kind x both trailing commas x number of fields 0..4 (one of five document shapes; thorough: all)
    for ck in COLUMN_KINDS:
        for tr in (False, True):
            for nf in range(5):
                shapes = [["entry"], ["string", "entry", "entry"], ["entry", "free", "entry"], ["entry", "entry"], ["comment", "entry", "preamble"]]
                for shape in ([shapes[(nf + int(tr)) % 3]] if quick else shapes):
                    d = build(rng, shape, nf=nf)
                    f, _ = rnd_fmt(d, colkind=ck)
                    f["trailing"] = tr
                    cases.append(case(d, f, "column", ck))
    # 7. everything at random: 1..9 blocks, all four settings from the pools
    for _ in range(80 if quick else 6000):
        kinds = []
        for _ in range(rng.randint(1, 9)):
            k = rng.choice(KINDS)
            if kinds and kinds[-1] == "free" and k == "free":
                k = rng.choice(KINDS[1:])
            kinds.append(k)
        d = build(rng, kinds)
        f, ck = rnd_fmt(d, sep=rng.choice(ws), indent=rng.choice(ws), big=False)
        cases.append(case(d, f, "random", ck))
    return cases


def position_tags(block_kinds):
    """first / middle / last / neighbour tags of a parsed library (class names of its blocks)"""
    short = {"ImplicitComment": "free", "ExplicitComment": "comment", "Preamble": "preamble", "String": "string", "Entry": "entry"}
    ks = [short.get(k, k) for k in block_kinds]
    tags = set()
    if ks:
        tags.add("first:" + ks[0])
        tags.add("last:" + ks[-1])
    for k in ks[1:-1]:
        tags.add("middle:" + k)
    for a, b in zip(ks, ks[1:]):
        tags.add("adj:%s>%s" % (a, b))
    return sorted(tags)
