"""C07, streams 'strref' / 'heapstrref': libraries whose @string definitions REFER TO OTHER DEFINITIONS.

Seeding round 12 (well-meant fixes that overreach): ResolveStringReferences was taught to expand `#`-concatenations and
definitions that refer to definitions, memoising the expanded value IN the String block it had looked up through the
caller's strings_dict before the copy-mode deepcopy.  The documents of the other streams draw @string values from the
grammar's value generator, which all but never names another definition, so a definition was never itself something to
resolve.  Here the definitions form a small reference graph:

    plain          @string{a = {lit}}
    chain          @string{a = b} @string{b = c} @string{c = "lit"}                       (length 2-4)
    concat         @string{full = first # " " # last}                                     (every spelling of ` # `)
    alias_concat   @string{alias = full} (and an alias of the alias) over a concat
    concat_concat  a concatenation whose pieces are concatenations / aliases
    mutual         @string{a = b} @string{b = a}, 3-cycles, cycles through a concatenation
    selfref        @string{a = a}, @string{a = a # {x}}, @string{a = {x} # a}
    undefined      @string{a = nosuch}, @string{a = nosuch # b}, @string{a = b # nosuch}
    dupdef         the same name defined twice (literal then reference, reference then literal, two references);
                   the later one becomes a DuplicateBlockKeyBlock
each USED by entry fields (bare reference, inside a concatenation, both, or only indirectly: through another definition
that is used) or by NONE; definitions written leaves-first, heads-first (every definition refers to a LATER one) or
shuffled; the entries before, after or between the definitions (use before definition); a user definition of a month
name used by a month field; comments, a preamble, now and then a failed block, a duplicate entry key, or a whole
document of the general generator appended.

Parsed with the EMPTY stack (definitions and fields still as written) and with the default stack (fields resolved one
level: a field then holds the NAME its alias stood for, definitions untouched), now and then with the other parse
options; x every shipped middleware configuration singly, stacks of 2-3 (half of them holding Resolve somewhere), the
same instance twice, write_string's default path (few with prepended middleware); judged by the property (c07.check_stage
and the write oracle: the input - every block, field, value, metadata, and strings_dict / entries_dict, which the
snapshot reaches through the library object - equals its prior copy, consists of the same objects, shares nothing mutable
with the result).  'heapstrref': the same documents against the Coq heap model (ops resolve / library / sort / write /
stacks, both modes): the model takes which values are bare references from an independent reference in the harness, so
it can represent every document of the class.

The tags are MEASURED on the parsed library by an independent reading of the values (pieces at top-level `#`), not taken
from the generator's plan: strref_nested_used_bare = some definition refers to a definition AND is named by a whole
field value (directly or through used definitions), ..._used_concat = named by a piece of a field's concatenation.
"""
NAMES = ["first", "last", "full", "alias", "a", "b", "c", "abbr", "jan", "Foo", "x1", "nm", "AB", "mar"]
UNDEF = ["nosuch", "undef", "zz9", "First", "A"]
LITS = ['"Ada"', "{Lovelace}", '" "', "{ }", "12", "{J. of {X}}", '""', "{}", '" and "', "{, }", "1990", '"a # b"', "{x # y}",
        "{March}", '"{Q}uoted"', "{\\'e}"]
HASH = [" # ", " # ", "#", " #", "# ", "  #  ", "\n # ", " #\n  ", "\t#\t"]
ENTRY_KEYS = ["k1", "k2", "K1", "e", "plain", "nested"]
REF_FIELDS = ["author", "editor", "journal", "title", "note", "publisher", "month", "Author", "series"]
USES = ["none", "none", "bare", "bare", "concat", "both", "indirect"]
LAYOUTS = ["defs_first", "defs_first", "uses_first", "between", "shuffled"]
ORDERS = ["leaves_first", "heads_first", "shuffled"]
SHAPES = ["plain", "chain", "chain", "concat", "concat", "alias_concat", "alias_concat", "concat_concat", "mutual", "selfref",
          "undefined", "dupdef", "dupdef"]


def _concat(rng, pieces):
    out = pieces[0]
    for p in pieces[1:]:
        out += rng.choice(HASH) + p
    return out


def _fresh(rng, used, n):
    pool = [x for x in NAMES if x not in used]
    rng.shuffle(pool)
    while len(pool) < n:
        pool.append("s%d" % (len(used) + len(pool)))
    used.update(pool[:n])
    return pool[:n]


def gen_structure(rng, shape, used):
    """(defs leaves-first [(name, value text)], heads = the names worth using)"""
    lit = lambda: rng.choice(LITS)  # noqa: E731
    if shape == "plain":
        (a,) = _fresh(rng, used, 1)
        return [(a, lit())], [a]
    if shape == "chain":
        ns = _fresh(rng, used, rng.choice([2, 2, 3, 4]))
        defs = [(ns[-1], lit())]
        for i in range(len(ns) - 2, -1, -1):
            defs.append((ns[i], ns[i + 1]))
        return defs, [ns[0]] + ([rng.choice(ns[1:])] if rng.random() < 0.3 else [])
    if shape in ("concat", "alias_concat", "concat_concat"):
        m = rng.choice([1, 2, 2, 3])
        ns = _fresh(rng, used, m + 1)
        parts, full = ns[:m], ns[m]
        defs = [(p, lit()) for p in parts]
        pieces = []
        for p in parts:
            pieces.append(p)
            if rng.random() < 0.5:
                pieces.append(lit())
        if len(pieces) == 1:
            pieces.insert(rng.randrange(2), lit())
        if rng.random() < 0.3:
            rng.shuffle(pieces)
        defs.append((full, _concat(rng, pieces)))
        head = full
        if shape == "alias_concat":
            for al in _fresh(rng, used, rng.choice([1, 1, 2])):
                defs.append((al, head))
                head = al
        elif shape == "concat_concat":
            (al, top) = _fresh(rng, used, 2)
            defs.append((al, full))
            defs.append((top, _concat(rng, rng.sample([full, al, lit(), rng.choice(parts)], rng.choice([2, 3, 4])))))
            head = top
        return defs, [head] + ([full] if head != full and rng.random() < 0.4 else [])
    if shape == "mutual":
        ns = _fresh(rng, used, rng.choice([2, 2, 3]))
        defs = []
        for i, n in enumerate(ns):
            nxt = ns[(i + 1) % len(ns)]
            defs.append((n, nxt if rng.random() < 0.7 else _concat(rng, rng.sample([nxt, lit()], 2))))
        return defs, [rng.choice(ns)]
    if shape == "selfref":
        (a,) = _fresh(rng, used, 1)
        v = rng.choice([a, _concat(rng, [a, lit()]), _concat(rng, [lit(), a]), _concat(rng, [a, a])])
        defs = [(a, v)]
        head = a
        if rng.random() < 0.4:
            (al,) = _fresh(rng, used, 1)
            defs.append((al, a))
            head = al
        return defs, [head]
    if shape == "undefined":
        a, b = _fresh(rng, used, 2)
        u = rng.choice(UNDEF)
        v = rng.choice([u, _concat(rng, [u, b]), _concat(rng, [b, u]), _concat(rng, [u, lit()])])
        defs = [(b, lit()), (a, v)]
        head = a
        if rng.random() < 0.4:
            (al,) = _fresh(rng, used, 1)
            defs.append((al, a))
            head = al
        return defs, [head]
    if shape == "dupdef":
        a, b = _fresh(rng, used, 2)
        two = rng.choice([[lit(), b], [b, lit()], [b, _concat(rng, [b, lit()])], [_concat(rng, [b, lit()]), b], [b, b]])
        defs = [(b, lit()), (a, two[0]), (a, two[1])]
        head = a
        if rng.random() < 0.5:
            (al,) = _fresh(rng, used, 1)
            defs.append((al, a))
            head = al
        return defs, [head]
    raise ValueError(shape)


def _string_block(rng, name, value):
    kw = rng.choice(["string", "string", "String", "STRING"])
    sp = rng.choice(["", " "])
    return "@%s{%s%s%s=%s%s%s}" % (kw, sp, name, rng.choice(["", " "]), rng.choice(["", " "]), value, sp)


def _use_fields(rng, head, use, taken):
    """field texts `key = value` that use the definition `head` in the way `use`"""
    lit = lambda: rng.choice(LITS)  # noqa: E731
    out = []

    def key():
        pool = [k for k in REF_FIELDS if k not in taken] or REF_FIELDS
        k = rng.choice(pool)
        taken.add(k)
        return k
    if use in ("bare", "both"):
        out.append("%s = %s" % (key(), head))
    if use in ("concat", "both"):
        pieces = rng.choice([[head, lit()], [lit(), head], [lit(), head, lit()], [head, head], [head, rng.choice(UNDEF)]])
        out.append("%s = %s" % (key(), _concat(rng, pieces)))
    return out


def gen_doc(rng, P=None):
    """(text, plan) - plan = [[shape, use], ...], layout, order (what the generator meant; the tags are measured)"""
    used = set()
    strings, entries, plan = [], [], []
    ekeys = []

    def ekey():
        # mostly distinct entry keys (a duplicate makes the later entry a DuplicateBlockKeyBlock: its fields use nothing)
        pool = [k for k in ENTRY_KEYS if k not in ekeys]
        k = rng.choice(pool) if pool and rng.random() < 0.9 else rng.choice(ENTRY_KEYS) if rng.random() < 0.5 else "e%d" % len(ekeys)
        ekeys.append(k)
        return k
    order = rng.choice(ORDERS)
    n_struct = rng.choice([1, 1, 2, 2, 3])
    all_heads = []
    for _ in range(n_struct):
        shape = rng.choice(SHAPES)
        defs, heads = gen_structure(rng, shape, used)
        if rng.random() < 0.12 and all_heads:          # structures overlap: this one also names a head of an earlier one
            defs.append((defs[-1][0] if shape == "plain" else _fresh(rng, used, 1)[0], rng.choice(all_heads)))
        use = rng.choice(USES)
        if use == "indirect":
            # used only through another definition which is used by a field
            (via,) = _fresh(rng, used, 1)
            defs.append((via, heads[0] if rng.random() < 0.6 else _concat(rng, [heads[0], rng.choice(LITS)])))
            heads = [via]
            fields_use = rng.choice(["bare", "concat", "both"])
        else:
            fields_use = use
        if order == "heads_first":
            defs = defs[::-1]
        elif order == "shuffled":
            rng.shuffle(defs)
        strings += [_string_block(rng, n, v) for n, v in defs]
        all_heads += heads
        plan.append([shape, use])
        if fields_use != "none":
            for h in heads:
                taken = set()
                fields = _use_fields(rng, h, fields_use, taken)
                if rng.random() < 0.6:
                    # a field that uses nothing; now and then under a key the entry already has (a duplicate field key)
                    lk = rng.choice([k for k in ["title", "year", "pages", "note"] if k not in taken or rng.random() < 0.1])
                    taken.add(lk)
                    fields.insert(rng.randrange(len(fields) + 1), "%s = %s" % (lk, rng.choice(LITS)))
                if rng.random() < 0.2 and "month" not in taken:
                    fields.append("month = %s" % rng.choice(["jan", "mar", h, "{March}", "3"]))
                sep = rng.choice([", ", ",\n  ", ","])
                entries.append("@%s{%s%s%s%s}" % (rng.choice(["misc", "article", "Book"]), ekey(), sep, sep.join(fields),
                                                  rng.choice(["", ",", "\n"])))
    # an entry that uses nothing (and one whose bare value is no definition at all)
    if rng.random() < 0.6:
        entries.append("@misc{%s, note = %s, title = %s}" % (ekey(), rng.choice(LITS),
                                                             rng.choice(LITS + UNDEF)))
    extras = []
    if rng.random() < 0.3:
        extras.append(rng.choice(["@comment{c}", "% free text", "@preamble{\"p\"}", "@preamble{ first # last }", "just text"]))
    layout = rng.choice(LAYOUTS)
    if layout == "defs_first":
        blocks = strings + entries
    elif layout == "uses_first":
        blocks = entries + strings
    elif layout == "between":
        k = rng.randrange(len(strings) + 1)
        blocks = strings[:k] + entries + strings[k:]
    else:
        blocks = strings + entries
        rng.shuffle(blocks)
    for x in extras:
        blocks.insert(rng.randrange(len(blocks) + 1), x)
    if rng.random() < 0.12:                                 # a failed block: somewhere, or cutting the document short
        bad = rng.choice(["@article{bad, author = ", "@string{broken = first # }", "@string{noeq first}", "@misc{k1, title = {open",
                          "@string{q = \"open # first}"])
        if rng.random() < 0.5:
            blocks.append(bad)
        else:
            blocks.insert(rng.randrange(len(blocks) + 1), bad + "\n")
    text = rng.choice(["\n", "\n\n", "\n\n", " \n"]).join(blocks) + rng.choice(["", "\n"])
    if P is not None and rng.random() < 0.15:
        other = P.gen_text(rng)
        text = text + "\n" + other if rng.random() < 0.5 else other + "\n" + text
    return text, {"shapes": plan, "layout": layout, "order": order}


# ---------------------------------------------------------------------------------------------- cases
def _stack_with_resolve(rng, P, n):
    st = [rng.choice(P.SPECS) for _ in range(n)]
    if rng.random() < 0.55:
        st[rng.randrange(n)] = ["Resolve"]
    return st


def _popt(rng, P):
    r = rng.random()
    return "raw" if r < 0.5 else "default" if r < 0.85 else rng.choice(P.PARSE_OPTS)


def generate(rng, tier, P):
    quick = tier == "quick"
    cases = []

    def doc():
        text, plan = gen_doc(rng, P)
        return text, plan

    def add(kind, popt, **kw):
        text, plan = doc()
        inp = {"kind": kind, "text": text, "parse": popt, "strref": plan}
        inp.update(kw)
        cases.append({"stream": "strref", "input": inp})
    # every shipped configuration singly: with the empty stack and with the default stack
    for spec in P.SPECS:
        reps = (16 if quick else 400) if spec[0] == "Resolve" else (1 if quick else 30)
        for _ in range(reps):
            add("stack", "raw", stack=[spec])
            add("stack", "default" if spec[0] != "Resolve" or rng.random() < 0.7 else _popt(rng, P), stack=[spec])
    # stacks of 2 and 3
    for _ in range(70 if quick else 5000):
        add("stack", _popt(rng, P), stack=_stack_with_resolve(rng, P, rng.choice([2, 2, 3])))
    # the same instance applied to its own output
    for _ in range(14 if quick else 500):
        add("reuse", _popt(rng, P), stack=[["Resolve"] if rng.random() < 0.5 else rng.choice(P.SPECS)])
    # write_string: the default path (no prepended middleware) most of the time
    for _ in range(40 if quick else 2500):
        add("write", _popt(rng, P), format=rng.randrange(len(P.FORMATS)),
            prepend=rng.choice([None, None, None, None, [], [["Resolve"]], [rng.choice(P.SPECS)], [["Resolve"], rng.choice(P.SPECS)]]),
            prepend_tuple=rng.random() < 0.2)
    # the same class against the Coq heap model
    import props.c07_heap as H

    def addh(text, plan, popt, op):
        cases.append({"stream": "heapstrref", "input": {"kind": "heap", "text": text, "parse": popt, "op": op, "strref": plan}})
    for _ in range(9 if quick else 300):
        text, plan = doc()
        popt = rng.choice(["raw", "raw", "default"])
        for inplace in (False, True):
            addh(text, plan, "raw", ["resolve", inplace])
        addh(text, plan, "default", ["resolve", False])
        addh(text, plan, popt, ["library", False])
        addh(text, plan, popt, ["sort", rng.randrange(len(H.BLOCK_ORDERS)), rng.random() < 0.5])
        addh(text, plan, popt, ["write", rng.choice([None, "auto", 7])])
    for _ in range(16 if quick else 600):
        text, plan = doc()
        st = []
        for _ in range(rng.randint(2, 3)):
            r = rng.random()
            if r < 0.45:
                st.append(["resolve", rng.random() < 0.3])
            elif r < 0.6:
                st.append(["library", rng.random() < 0.3])
            elif r < 0.8:
                st.append(["block", rng.random() < 0.3, rng.randrange(H.PROBES)])
            else:
                st.append(["sort", rng.randrange(len(H.BLOCK_ORDERS)), rng.random() < 0.5])
        addh(text, plan, rng.choice(["raw", "raw", "default"]), ["stack", st])
    return cases


# ---------------------------------------------------------------------------------------------- measurements (for the tags)
def pieces(value):
    """the pieces of a value at its top-level `#` (outside braces and quotes), stripped; [value] if it is no string"""
    if not isinstance(value, str):
        return [value]
    out, depth, quoted, start = [], 0, False, 0
    for i, ch in enumerate(value):
        if ch == "{":
            depth += 1
        elif ch == "}":
            depth = max(depth - 1, 0)
        elif ch == '"' and depth == 0:
            quoted = not quoted
        elif ch == "#" and depth == 0 and not quoted:
            out.append(value[start:i].strip())
            start = i + 1
    out.append(value[start:].strip())
    return out


def measure(lib):
    """tags describing the reference graph of the @string definitions of a parsed library and how the entries use it"""
    defs = {}
    n_dup = 0
    order = {}
    for i, b in enumerate(lib.blocks):
        kind = type(b).__name__
        if kind == "String":
            defs[b.key] = pieces(b.value)
            order[b.key] = i
        elif kind == "DuplicateBlockKeyBlock" and type(getattr(b, "ignore_error_block", None)).__name__ == "String":
            n_dup += 1
    refs = {n: [p for p in ps if isinstance(p, str) and p in defs] for n, ps in defs.items()}
    nested = set(n for n, r in refs.items() if r)
    tags = []
    if not defs:
        return ["strref_no_definitions"]
    used_bare, used_concat = set(), set()
    first_use = {}
    for i, b in enumerate(lib.blocks):
        if type(b).__name__ != "Entry":
            continue
        for f in b.fields:
            ps = pieces(f.value)
            for p in ps:
                if isinstance(p, str) and p in defs:
                    (used_bare if len(ps) == 1 else used_concat).add(p)
                    first_use.setdefault(p, i)

    def closure(start):
        seen, todo = set(start), list(start)
        while todo:
            for m in refs.get(todo.pop(), []):
                if m not in seen:
                    seen.add(m)
                    todo.append(m)
        return seen
    reach_bare, reach_concat = closure(used_bare), closure(used_concat)
    if nested & used_bare:
        tags.append("strref_nested_used_bare")
    if nested & used_concat:
        tags.append("strref_nested_used_concat")
    if (nested & (reach_bare | reach_concat)) - used_bare - used_concat:
        tags.append("strref_nested_used_indirectly")
    if nested and not nested & (reach_bare | reach_concat):
        tags.append("strref_nested_unused")
    if not nested:
        tags.append("strref_plain_definitions_only")
    if any(len(ps) > 1 for ps in defs.values()):
        tags.append("strref_def_is_concatenation")
    if any(len(ps) == 1 and refs[n] for n, ps in defs.items()):
        tags.append("strref_def_is_alias")
    if any(len(defs[m]) > 1 for n, ps in defs.items() if len(ps) == 1 for m in refs[n]):
        tags.append("strref_alias_of_concatenation")
    if any(n in refs[n] for n in defs):
        tags.append("strref_self_reference")
    if any(n in closure(refs[n]) and n not in refs[n] for n in defs):
        tags.append("strref_mutual_reference")
    if any(isinstance(p, str) and p and p not in defs and p[0] not in '{"' and not p.isdigit() for ps in defs.values() for p in ps):
        tags.append("strref_def_names_undefined")
    if n_dup:
        tags.append("strref_duplicate_definition")
    if any(order[m] > order[n] for n in defs for m in refs[n]):
        tags.append("strref_def_refers_to_later_def")
    if any(first_use[n] < order[n] for n in first_use):
        tags.append("strref_use_before_definition")
    return tags


def tags_for(inp, lib, P):
    """the reference graph is read off the definitions AS WRITTEN (the empty-stack parse of the text): after the default
    stack a literal has lost its enclosing and would read as a name"""
    if lib is None or inp["parse"] != "raw":
        try:
            lib = P.parse(inp["text"], "raw")
        except Exception:  # noqa: BLE001
            pass
    if lib is None:
        return ["strref_unmeasured"]
    out = measure(lib)
    out.append("strref_parse_" + (inp["parse"] if inp["parse"] in ("raw", "default") else "other"))
    return out
