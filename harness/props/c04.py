"""C04 - malformed blocks never damage neighbours: parsing resyncs at the next @block."""
import gens_split as G
import splitcommon as SC

ENGINE = "split"
RULE = ("triples (D1, X, D2): D1, D2 grammar documents (D1 ending in a complete block, D2 starting with '@type{' at a line start, "
        "disjoint key pools), X = every token sequence up to length 3 (quick) / 4 (thorough) over the splitter alphabet, random longer "
        "ones, and truncations/corruptions of valid blocks; checked: parse(D1+X+'\\n'+D2) starts with parse(D1) and ends with parse(D2) "
        "shifted; concatenations D1+D2. Half of the D1 / D2 documents are syntactically well-formed documents whose entries repeat "
        "field names (DuplicateFieldKeyBlock) or entry / string keys (DuplicateBlockKeyBlock). Blocks are compared on everything "
        "public: class, raw, start line, type, key, fields with their lines, and for failed blocks the error class and text, "
        "duplicate_keys, key, ignore_error_block and previous_block (each taken as it is when parse returns). "
        "distinct = distinct (D1, X, D2); non-trivial = X is non-empty and not whitespace")
TRUSTED = ["the decomposition into D1 / X / D2 is the generator's"]
ASSUMPTIONS = []
CASE_TIMEOUT_S = 60


def _repeats(it):
    names = [f[0] for f in it.get("fields", [])]
    return len(set(names)) != len(names)


def _docs(rng, n, prefix, dup=False):
    """dup: syntactically well-formed documents in which entries repeat field names (-> DuplicateFieldKeyBlock) and blocks may
    repeat entry / string keys (-> DuplicateBlockKeyBlock); every second one ends in an entry with a repeated field name."""
    out = []
    while len(out) < n:
        pool = ["%s%d" % (prefix, i) for i in range(40)]
        rng.shuffle(pool)
        if dup:
            text, items = G.gen_doc(rng, max_items=4, depth=2, entry_keys=pool[:6], string_keys=pool[20:23],
                                    field_names=["a", "A", "title", "ID", "1/"],
                                    kinds=["entry", "entry", "entry", "string", "preamble", "comment"])
            if not items or not any(_repeats(it) for it in items):
                continue
            if len(out) % 2 == 0 and not _repeats(items[-1]):
                continue
        else:
            text, items = G.gen_doc(rng, max_items=4, depth=2, entry_keys=pool[:20], string_keys=pool[20:],
                                    kinds=["entry", "entry", "string", "preamble", "comment"])
            # unique keys inside the document
            if not items or not SC.doc_is_nodup(items):
                continue
        first = items[0]["raw"]
        last = items[-1]["raw"]
        body = text[text.index(first): text.rindex(last) + len(last)]       # starts with '@', ends in the closing brace
        out.append(body)
    return out


def generate(rng, tier):
    d1s = _docs(rng, 6, "P")
    d2s = _docs(rng, 6, "Q")
    # well-formed suffixes whose first block has a type with non-ASCII word characters
    d2s += ["@%s%s{Qe%d, a = {b}}\n%s" % (t, rng.choice(G.HWS), i, rng.choice(d2s[:6])) for i, t in enumerate(G.EDGE_TYPES)]
    # well-formed documents with repeated field names / repeated block keys (appended last: the draws above stay as they were)
    d1s += _docs(rng, 6, "P", dup=True)
    d2s += _docs(rng, 6, "Q", dup=True)
    cases = []
    maxlen = 3 if tier == "quick" else 4
    xs = list(G.token_seqs(maxlen))
    for x in xs:
        cases.append({"stream": "T", "input": {"d1": rng.choice(d1s), "x": x, "d2": rng.choice(d2s)}})
    for _ in range(1500 if tier == "quick" else 40000):
        cases.append({"stream": "T-long", "input": {"d1": rng.choice(d1s), "x": G.random_token_seq(rng, maxlen + 1, 12), "d2": rng.choice(d2s)}})
    docs = [G.gen_doc(rng, entry_keys=["m%d" % i for i in range(50)])[0] for _ in range(100)]
    for _ in range(800 if tier == "quick" else 20000):
        cases.append({"stream": "M", "input": {"d1": rng.choice(d1s), "x": G.mutate(rng, rng.choice(docs)), "d2": rng.choice(d2s)}})
    for _ in range(200 if tier == "quick" else 3000):
        cases.append({"stream": "U", "input": {"d1": rng.choice(d1s), "x": G.garbage(rng), "d2": rng.choice(d2s)}})
    for a in d1s:
        for b in d2s:
            cases.append({"stream": "concat", "input": {"d1": a, "x": "", "d2": b}})
    return cases


def _view(b, depth=0):
    """Everything public on a block, start lines kept apart so that they can be shifted: (content, lines)."""
    cn = type(b).__name__
    if b is None or depth > 4:
        return [cn], []
    c, ln = [cn, b.raw], [b.start_line]
    if cn == "Entry":
        c += [b.entry_type, b.key, [[type(f).__name__, f.key, f.value] for f in b.fields]]
        ln += [f.start_line for f in b.fields]
    elif cn == "String":
        c += [b.key, b.value]
    elif cn == "Preamble":
        c += [b.value]
    elif cn in ("ExplicitComment", "ImplicitComment"):
        c += [b.comment]
    elif hasattr(b, "ignore_error_block"):
        err = b.error
        c.append(type(err).__name__)
        if cn in ("DuplicateFieldKeyBlock", "DuplicateBlockKeyBlock"):
            c.append(str(err))                       # these messages name keys only, no positions
        if cn == "DuplicateFieldKeyBlock":
            dk = b.duplicate_keys
            c += [type(dk).__name__, sorted(dk, key=repr)]
        if cn == "DuplicateBlockKeyBlock":
            c.append(b.key)
            pc, pl = _view(b.previous_block, depth + 1)
            c.append(pc)
            ln.append(pl)
        ic, il = _view(b.ignore_error_block, depth + 1)
        c.append(ic)
        ln.append(il)
    md = getattr(b, "parser_metadata", None)
    c.append(sorted(md) if isinstance(md, dict) else None)
    return c, ln


def _views(lib):
    return [_view(b) for b in lib.blocks]


def _shifted(ln, shift):
    return [(_shifted(x, shift) if isinstance(x, list) else (x + shift if isinstance(x, int) else x)) for x in ln]


def _same(v1, v2, shift):
    """v1: block of the document parsed alone, v2: block of the combined parse, shift lines further down."""
    if v1[0] != v2[0]:
        i = next((k for k in range(min(len(v1[0]), len(v2[0]))) if v1[0][k] != v2[0][k]), min(len(v1[0]), len(v2[0])))
        return "alone %r, in context %r" % (v1[0][i:i + 1], v2[0][i:i + 1])
    if _shifted(v1[1], shift) != v2[1]:
        return "lines alone %r (+%d), in context %r" % (v1[1], shift, v2[1])
    return ""


def impl(case):
    inp = case["input"]
    d1, x, d2 = inp["d1"], inp["x"], inp["d2"]
    text = d1 + x + "\n" + d2
    rec, r = SC.base_record(text)
    # each parse is looked at as it is when it returns, before anything else is parsed
    v = _views(r[1]) if r[0] != "exc" else None
    r1 = SC.split_impl(d1)
    v1 = _views(r1[1]) if r1[0] != "exc" else None
    r2 = SC.split_impl(d2)
    v2 = _views(r2[1]) if r2[0] != "exc" else None
    if v is None or v1 is None or v2 is None:
        rec["oracle"] = {"ok": False, "detail": "parse raised"}
        rec["nontrivial"] = True
        return rec
    bs = r[1].blocks
    ok, detail = True, ""
    if len(v) < len(v1) + len(v2):
        ok, detail = False, "%d blocks, but the neighbours alone have %d + %d" % (len(v), len(v1), len(v2))
    else:
        for i, w in enumerate(v1):
            d = _same(w, v[i], 0)
            if d:
                ok, detail = False, "block %d of the well-formed prefix changed: %r: %s" % (i, (bs[i].raw or "")[:50], d)
                break
        shift = (d1 + x + "\n").count("\n")
        off = len(v) - len(v2)
        if ok:
            for i, w in enumerate(v2):
                d = _same(w, v[off + i], shift)
                if d:
                    ok, detail = False, "block %d of the well-formed suffix not parsed as on its own: %s raw %r line %r: %s" % (
                        i, type(bs[off + i]).__name__, (bs[off + i].raw or "")[:50], bs[off + i].start_line, d)
                    break
        if ok and x.strip() == "" and len(v) != len(v1) + len(v2):
            ok, detail = False, "concatenation of well-formed documents gives %d blocks instead of %d" % (len(v), len(v1) + len(v2))
    rec["oracle"] = {"ok": ok, "detail": detail}
    rec["nontrivial"] = x.strip() != ""
    rec["key"] = str(hash((d1, x, d2)))
    rec["tags"] = [case["stream"]]
    return rec


def shrink(case):
    return SC.shrink_text(case, "x")
