"""C04 - malformed blocks never damage neighbours: parsing resyncs at the next @block."""
import gens_split as G
import splitcommon as SC
from props import c04_selfref as SR
from props import c04_keys as KY

ENGINE = "split"
RULE = ("triples (D1, X, D2): D1, D2 grammar documents (D1 ending in a complete block, D2 starting with '@type{' at a line start, "
        "disjoint key pools), X = every token sequence up to length 3 (quick) / 4 (thorough) over the splitter alphabet, random longer "
        "ones, and truncations/corruptions of valid blocks; checked: parse(D1+X+'\\n'+D2) starts with parse(D1) and ends with parse(D2) "
        "shifted; concatenations D1+D2. Half of the D1 / D2 documents are syntactically well-formed documents whose entries repeat "
        "field names (DuplicateFieldKeyBlock) or entry / string keys (DuplicateBlockKeyBlock). Blocks are compared on everything "
        "public: class, raw, start line, type, key, fields with their lines, and for failed blocks the error class and text, "
        "duplicate_keys, key, ignore_error_block and previous_block (each taken as it is when parse returns). "
        "Stream TR: X = a block cut off inside each state of the splitter's scanners (after '@type{', in the key, after the comma, "
        "after a field name, after '=', inside a quoted / braced / nested / concatenated value, behind a finished value, inside "
        "@string / @preamble / @comment bodies; optionally behind garbage, complete blocks or another cut-off block) crossed with "
        "suffixes D2 that hold, early, what would end the open construct (a quote followed by ',' or '}', closing braces, '=', ',') "
        "in braced values, comment / preamble / string bodies and free text behind the first block. Also checked for every "
        "non-empty X: parse(D1+X) alone starts with parse(D1). "
        "Streams SR-* (c04_selfref.py): the library's own artefacts as input, texts made in the child from the tree under test - "
        "the writer's warning comment (selfref.warning_lines: exact and 23 near misses incl. other digit systems, case, blanks, "
        "doubled, the bare template; default and 9 custom templates) ending X directly above / one or two blank lines above / far "
        "from / with trailing blanks, CR, indentation (SR-above), for every count 0..lines(D2)+2 (SR-sweep), starting X right behind "
        "the last block of D1 (SR-below), inside explicit comments / values / @string / @preamble / cut-off blocks of X and at the end "
        "of D1 / start of D2 (SR-inside, SR-edge), above a block of X that fails in the splitter / repeats a field / repeats a key / is "
        "valid, with counts that stop at that block or reach into D2 (SR-written); the announced count is the lines of the first "
        "block of D2, of its first two blocks, of all of D2, or up to its first empty line, D2's first block being every kind of valid "
        "block (13), a duplicate-field block or the first of a duplicate-key pair, followed by EOF, a newline, a blank line, no blank "
        "line, a block on the same line, CRLF; default separator / indent / VAL_SEP / template and the reserved words as X (SR-words); "
        "and what arises by itself (SR-cycle): parse -> write repeated 2, 3, 4 times under 8 formats with the empty and the default "
        "stacks on documents with failed blocks of every kind, as X between plain or written D1 / D2, or the whole D1+X+D2 written "
        "and cut again into written D1, middle, written D2. For documents made of own blocks the statement is also checked on the "
        "library returned with the default middleware stack (oracle only). "
        "Stream KEY (c04_keys.py): one name used by blocks of different kinds and of different parts - an @string name and an "
        "entry key (both orders), an entry key and a field name / field text / entry type / preamble text / comment text / "
        "free-text line / the key of an entry that repeats a field / the key of a cut-off block of X, the same entry key twice, "
        "the same string name twice, spellings that differ in letter case only - the two occurrences in D1-D1, D1-X, D1-D2, "
        "X-X, X-D2, D2-D2, and random mixes of 3-5 occurrences; expected from C04 + C09 with the generator's knowledge of the "
        "source blocks: the parse returns, one block per source block of D1 and D2, raw and start line of the source, kind and "
        "key as on its own except that an entry / string behind a live block of the same kind and key is the duplicate-key "
        "block (key, previous_block = that first live block, the complete duplicate inside); empty and default stacks. "
        "distinct = distinct (D1, X, D2); non-trivial = X is non-empty and not whitespace")
TRUSTED = ["the decomposition into D1 / X / D2 is the generator's"]
ASSUMPTIONS = []
CASE_TIMEOUT_S = 60


def _repeats(it):
    names = [f[0] for f in it.get("fields", [])]
    return len(set(names)) != len(names)


def _docs(rng, n, prefix, dup=False):
    """dup: syntactically well-formed documents in which entries repeat field names (-> DuplicateFieldKeyBlock) and blocks may
    repeat entry / string keys (-> DuplicateBlockKeyBlock); every second one ends in an entry with a repeated field name."""
    out = []
    while len(out) < n:
        pool = ["%s%d" % (prefix, i) for i in range(40)]
        rng.shuffle(pool)
        if dup:
            text, items = G.gen_doc(rng, max_items=4, depth=2, entry_keys=pool[:6], string_keys=pool[20:23],
                                    field_names=["a", "A", "title", "ID", "1/"],
                                    kinds=["entry", "entry", "entry", "string", "preamble", "comment"])
            if not items or not any(_repeats(it) for it in items):
                continue
            if len(out) % 2 == 0 and not _repeats(items[-1]):
                continue
        else:
            text, items = G.gen_doc(rng, max_items=4, depth=2, entry_keys=pool[:20], string_keys=pool[20:],
                                    kinds=["entry", "entry", "string", "preamble", "comment"])
            # unique keys inside the document
            if not items or not SC.doc_is_nodup(items):
                continue
        first = items[0]["raw"]
        last = items[-1]["raw"]
        body = text[text.index(first): text.rindex(last) + len(last)]       # starts with '@', ends in the closing brace
        out.append(body)
    return out


def generate(rng, tier):
    d1s = _docs(rng, 6, "P")
    d2s = _docs(rng, 6, "Q")
    # well-formed suffixes whose first block has a type with non-ASCII word characters
    d2s += ["@%s%s{Qe%d, a = {b}}\n%s" % (t, rng.choice(G.HWS), i, rng.choice(d2s[:6])) for i, t in enumerate(G.EDGE_TYPES)]
    # well-formed documents with repeated field names / repeated block keys (appended last: the draws above stay as they were)
    d1s += _docs(rng, 6, "P", dup=True)
    d2s += _docs(rng, 6, "Q", dup=True)
    cases = []
    maxlen = 3 if tier == "quick" else 4
    xs = list(G.token_seqs(maxlen))
    for x in xs:
        cases.append({"stream": "T", "input": {"d1": rng.choice(d1s), "x": x, "d2": rng.choice(d2s)}})
    for _ in range(1500 if tier == "quick" else 40000):
        cases.append({"stream": "T-long", "input": {"d1": rng.choice(d1s), "x": G.random_token_seq(rng, maxlen + 1, 12), "d2": rng.choice(d2s)}})
    docs = [G.gen_doc(rng, entry_keys=["m%d" % i for i in range(50)])[0] for _ in range(100)]
    for _ in range(800 if tier == "quick" else 20000):
        cases.append({"stream": "M", "input": {"d1": rng.choice(d1s), "x": G.mutate(rng, rng.choice(docs)), "d2": rng.choice(d2s)}})
    for _ in range(200 if tier == "quick" else 3000):
        cases.append({"stream": "U", "input": {"d1": rng.choice(d1s), "x": G.garbage(rng), "d2": rng.choice(d2s)}})
    for a in d1s:
        for b in d2s:
            cases.append({"stream": "concat", "input": {"d1": a, "x": "", "d2": b}})
    # blocks truncated inside every scanner state x suffixes that contain, early, what would 'complete' the open construct
    # (appended last: the draws above stay as they were)
    for _ in range(1 if tier == "quick" else 10):
        for hclass, head in _completing_heads(rng):
            for state, tx in _truncated(rng):                 # fresh fillers for every suffix
                x = _lead(rng) + tx + rng.choice(["", "", "\n", " ", "\n\n", "\t", "\r\n", " \n "])
                d2 = head + rng.choice(["", "\n", "\n@book{R9, title = {Third}}\n", "\n" + rng.choice(d2s[:6]), " " + rng.choice(d2s)])
                cases.append({"stream": "TR", "input": {"d1": rng.choice(d1s), "x": x, "d2": d2, "state": state, "hclass": hclass}})
    # the library's own artefacts as X and at the edges of D1 / D2 (appended last: the draws above stay as they were)
    cases += SR.gen(rng, tier, _truncated)
    # one name used by blocks of different kinds / of different parts (appended last: the draws above stay as they were)
    cases += KY.gen(rng, tier, _truncated)
    return cases


# ------------------------------------------------------------------ truncated blocks x 'completing' suffixes
_WORDS = ["An", "unfinished", "title", "24", "x", "é", "Zoë", ".", ":", "-", "and", "4K", "size", "1999"]
_TRICKY = [",", "=", ", ", " = ", "{b}", "{}", "#", "\\\"", "\\{", "\\}", "\\", "\n", "\t", "\r\n", "@", "a@b.c", "{a, b = c}"]


def _fill(rng, quote_ok=False, lo=0):
    """text inside an open value / body: keeps the scanner in the state it is in (no active quote unless quote_ok, braces paired)"""
    out = []
    for _ in range(rng.randint(lo, 4)):
        r = rng.random()
        if r < 0.2:
            out.append(rng.choice(_TRICKY))
        elif r < 0.27 and quote_ok:
            out.append(rng.choice(['"', '" ', '"a"']))
        else:
            out.append(rng.choice(_WORDS))
        if rng.random() < 0.6:
            out.append(rng.choice([" ", " ", " ", "\n", "  "]))
    return "".join(out)


def _lead(rng):
    """what X has before its truncated block: nothing, garbage lines, complete blocks (keys X*), another truncated block"""
    r = rng.random()
    if r < 0.45:
        return ""
    if r < 0.6:
        return rng.choice(["\n", " ", "\n\n", "junk\n", "} }\n", "\" , = {\n", "% note\n", "=\n", ",\n", "\"\n"])
    if r < 0.8:
        return rng.choice(["\n", " ", ""]) + rng.choice([
            "@misc{X1, a = {b}}", "@misc{X2, a = \"b\", c = 1}", "@string{X3 = \"s\"}", "@comment{x}", "@preamble{\"p\"}",
            "@misc{X4}"]) + rng.choice(["\n", " ", "", "\n\n"])
    return rng.choice(["\n", ""]) + rng.choice(_truncated(rng))[1] + "\n"


def _truncated(rng):
    """one block cut off inside each state of the splitter's scanners -> [(state, text)]"""
    ws = lambda: rng.choice(G.INNER_WS)
    sp = lambda: rng.choice(["", " ", " ", " ", "\n", "\t", "  "])
    typ = rng.choice(["article", "Book", "misc", "a", "x_1"])
    key = rng.choice(["X5", "broken", "X6:a", "x.7"])
    name = rng.choice(["title", "a", "ID", "Author", "1/"])

    def ehead():
        h = "@" + typ + rng.choice(G.HWS) + "{" + ws() + key + ws() + ","
        for i in range(rng.choice([0, 0, 0, 1, 1, 2])):           # complete fields before the one that is cut off
            h += ws() + "f%d" % i + sp() + "=" + sp() + rng.choice(["{A. Uthor}", "\"q\"", "1999", "{a {b} c}", "jan # \"x\"", "{}"]) + ws() + ","
        return h

    def eq():
        return ehead() + ws() + name + sp() + "=" + sp()

    skw = "@" + rng.choice(["string", "String", "STRING"]) + rng.choice(G.HWS) + "{"
    pkw = "@" + rng.choice(["preamble", "Preamble", "PREAMBLE"]) + rng.choice(G.HWS) + "{"
    ckw = "@" + rng.choice(["comment", "Comment", "COMMENT"]) + rng.choice(G.HWS) + "{"
    out = [
        ("e-open", "@" + typ + rng.choice(G.HWS) + "{"),
        ("e-key", "@" + typ + rng.choice(G.HWS) + "{" + ws() + key),
        ("e-key-ws", "@" + typ + "{" + key + rng.choice([" ", "\n", " x y"])),
        ("e-comma", ehead()),
        ("e-name", ehead() + ws() + name),
        ("e-eq", eq()),
        ("e-quoted", eq() + '"' + _fill(rng, lo=1)),
        ("e-quoted-empty", eq() + '"'),
        ("e-braced", eq() + "{" + _fill(rng, quote_ok=True, lo=1)),
        ("e-braced-empty", eq() + "{"),
        ("e-braced-nested", eq() + "{" + _fill(rng, quote_ok=True) + "{" + _fill(rng, quote_ok=True)),
        ("e-braced-quote", eq() + "{" + _fill(rng) + '"' + _fill(rng)),
        ("e-quoted-brace", eq() + '"' + _fill(rng) + "{" + _fill(rng)),
        ("e-quoted-brace-closed", eq() + '"' + _fill(rng) + "{" + rng.choice(_WORDS) + "}" + _fill(rng)),
        ("e-concat", eq() + rng.choice(['"a"', "{a}", "jan"]) + sp() + "#" + sp()),
        ("e-concat-quoted", eq() + rng.choice(['"a"', "{a}", "jan"]) + sp() + "#" + sp() + '"' + _fill(rng)),
        ("e-concat-braced", eq() + rng.choice(['"a"', "{a}", "jan"]) + sp() + "#" + sp() + "{" + _fill(rng, quote_ok=True)),
        ("e-value-done-braced", eq() + "{" + _fill(rng) + "}"),
        ("e-value-done-quoted", eq() + '"' + _fill(rng) + '"'),
        ("e-bare", eq() + rng.choice(["1999", "jan", "x-y"])),
        ("e-quote-after-value", eq() + rng.choice(["{a}", '"a"', "12"]) + sp() + '"' + _fill(rng)),
        ("s-open", skw),
        ("s-name", skw + ws() + "X8"),
        ("s-eq", skw + ws() + "X8" + sp() + "=" + sp()),
        ("s-quoted", skw + ws() + "X8" + sp() + "=" + sp() + '"' + _fill(rng)),
        ("s-braced", skw + ws() + "X8" + sp() + "=" + sp() + "{" + _fill(rng, quote_ok=True)),
        ("s-value-done", skw + "X8 = " + rng.choice(['"a"', "{a}", "12", '"a" # ']) + ws()),
        ("s-noeq-quoted", skw + ws() + '"' + _fill(rng)),
        ("p-open", pkw),
        ("p-text", pkw + _fill(rng, lo=1)),
        ("p-quoted", pkw + ws() + '"' + _fill(rng)),
        ("p-braced", pkw + ws() + "{" + _fill(rng, quote_ok=True)),
        ("p-concat-quoted", pkw + '"a"' + sp() + "#" + sp() + '"' + _fill(rng)),
        ("c-open", ckw),
        ("c-text", ckw + _fill(rng, lo=1)),
        ("c-quoted", ckw + ws() + '"' + _fill(rng)),
        ("c-braced", ckw + _fill(rng) + "{" + _fill(rng, quote_ok=True)),
        ("c-braced2", ckw + "{{" + _fill(rng, quote_ok=True)),
    ]
    return out


def _completing_heads(rng):
    """Starts of well-formed suffix documents (keys R*): the first block - or free text right behind it - holds, early, the
    characters that would end a construct left open before it: a quote followed by `,` or `}`, closing braces, `=`, `,`.
    All are derivations of the dialect grammar: a quote inside braces is an ordinary character, free text may hold any delimiter."""
    w = lambda: rng.choice(_WORDS)
    g = lambda: rng.choice(["", "", " ", "  ", "\n", "\t"])
    typ = lambda: rng.choice(["article", "Book", "misc", "a"]) + rng.choice(G.HWS)
    nm = lambda: rng.choice(["title", "a", "note"])
    fixed = [
        ("v-q-comma", "@%s{R1, %s = {A 24\", 4K display}, year = 2020}" % (typ(), nm())),
        ("v-q-comma", "@%s{R1,%s%s%s=%s{%s\"%s,%s}%s}" % (typ(), g(), nm(), g(), g(), w(), g(), w(), g())),
        ("v-q-brace", "@%s{R1, %s = {say \"}, year = 2020}" % (typ(), nm())),
        ("v-q-brace", "@%s{R1,%s%s%s=%s{%s\"%s}%s}" % (typ(), g(), nm(), g(), g(), w(), g(), g())),
        ("v-q-only", "@%s{R1, %s = {\"}}" % (typ(), nm())),
        ("v-q-nested", "@%s{R1, %s = {a {b\", c} d}, e = {\"}}" % (typ(), nm())),
        ("v-quoted", "@%s{R1, %s = \"Second\", year = 2000}" % (typ(), nm())),
        ("v-quoted", "@%s{R1, %s = \"Second\"%s}" % (typ(), nm(), g())),
        ("v-quoted-empty", "@%s{R1, %s = \"\"%s%s" % (typ(), nm(), g(), rng.choice(["}", ", b = 1}", ",}"]))),
        ("v-quoted-concat", "@%s{R1, %s = \"a\" # \"b\", c = {d}}" % (typ(), nm())),
        ("v-braces", "@%s{R1, %s = {{x}}}" % (typ(), nm())),
        ("v-braces", "@%s{R1, %s = {}}" % (typ(), nm())),
        ("v-eq", "@%s{R1, %s = {a = b, c = d}}" % (typ(), nm())),
        ("v-bare", "@%s{R1, %s = 1, b = jan}" % (typ(), nm())),
        ("e-keyonly", "@%s{R1}" % typ()),
        ("e-keyonly", "@%s{R1,%s}" % (typ(), g())),
        ("c-q", "@comment{the \" character}"),
        ("c-q", "@Comment{\"}"),
        ("c-q-comma", "@comment{%s\"%s, %s}" % (w(), g(), w())),
        ("c-q-comma", "@COMMENT {\" ,}"),
        ("c-q-brace", "@comment{%s {%s\"%s} }" % (w(), w(), g())),
        ("c-eq", "@comment{x = y}"),
        ("c-eq", "@comment{=}"),
        ("c-comma", "@comment{,}"),
        ("c-braces", "@comment{{}}"),
        ("c-empty", "@comment{}"),
        ("p-q", "@preamble{ \"}"),
        ("p-q-comma", "@preamble{\"%s\"%s, %s}" % (w(), g(), w())),
        ("p-q-comma", "@Preamble {%s\"%s,}" % (w(), g())),
        ("p-quoted", "@preamble{ \"text\" }"),
        ("p-eq", "@preamble{=}"),
        ("p-braces", "@preamble{{}}"),
        ("s-q-comma", "@string{R1 = {a\", b}}"),
        ("s-q", "@String{R1 = {\"}}"),
        ("s-quoted", "@string{R1 = \"x\"}"),
        ("s-bare", "@string{R1%s=%s1}" % (g(), g())),
        ("f-q-comma", "@comment{checked}\nsize: 24\", weight: 2kg"),
        ("f-q-comma", "@%s{R1}%ssize %s\"%s, %s" % (typ(), rng.choice(["\n", " ", "\n\n"]), w(), g(), w())),
        ("f-q-brace", "@%s{R1, a = 1}\n%s \"%s} %s" % (typ(), w(), g(), w())),
        ("f-q", "@comment{x}\n\""),
        ("f-brace", "@%s{R1}\nfree } text" % typ()),
        ("f-brace", "@comment{x}\n}}"),
        ("f-eq", "@%s{R1}\na = b, c" % typ()),
        ("f-comma", "@string{R1 = 1}\n, x"),
        ("f-mixed", "@preamble{x}\n%s = \"%s\", }" % (w(), w())),
    ]
    out = list(fixed)
    # random ones: a container x a few atoms drawn from words and completing characters
    comp = ['"', '",', '" ,', '"\n,', "=", ",", "{}", '{"}', '{",}']
    for _ in range(12):
        r = rng.random()
        free = r >= 0.75
        body = ""
        for _ in range(rng.randint(1, 4)):
            a = rng.choice(comp + (['"}', '" }', "}"] if free else [])) if rng.random() < 0.6 else w()   # lone closers: free text only
            body += a + rng.choice(["", " ", " ", "\n"])
        if r < 0.3:
            out.append(("r-value", "@%s{R1, %s = {%s}, z = 1}" % (typ(), nm(), body)))
        elif r < 0.5:
            out.append(("r-comment", "@comment{%s}" % body))
        elif r < 0.65:
            out.append(("r-preamble", "@preamble{%s}" % body))
        elif r < 0.75:
            out.append(("r-string", "@string{R1 = {%s}}" % body))
        else:
            out.append(("r-free", "@%s{R1}\n%s" % (typ(), body.strip())))
    return out


def _view(b, depth=0):
    """Everything public on a block, start lines kept apart so that they can be shifted: (content, lines)."""
    cn = type(b).__name__
    if b is None or depth > 4:
        return [cn], []
    c, ln = [cn, b.raw], [b.start_line]
    if cn == "Entry":
        c += [b.entry_type, b.key, [[type(f).__name__, f.key, f.value] for f in b.fields]]
        ln += [f.start_line for f in b.fields]
    elif cn == "String":
        c += [b.key, b.value]
    elif cn == "Preamble":
        c += [b.value]
    elif cn in ("ExplicitComment", "ImplicitComment"):
        c += [b.comment]
    elif hasattr(b, "ignore_error_block"):
        err = b.error
        c.append(type(err).__name__)
        if cn in ("DuplicateFieldKeyBlock", "DuplicateBlockKeyBlock"):
            c.append(str(err))                       # these messages name keys only, no positions
        if cn == "DuplicateFieldKeyBlock":
            dk = b.duplicate_keys
            c += [type(dk).__name__, sorted(dk, key=repr)]
        if cn == "DuplicateBlockKeyBlock":
            c.append(b.key)
            pc, pl = _view(b.previous_block, depth + 1)
            c.append(pc)
            ln.append(pl)
        ic, il = _view(b.ignore_error_block, depth + 1)
        c.append(ic)
        ln.append(il)
    md = getattr(b, "parser_metadata", None)
    c.append(sorted(md) if isinstance(md, dict) else None)
    return c, ln


def _views(lib):
    return [_view(b) for b in lib.blocks]


def _shifted(ln, shift):
    return [(_shifted(x, shift) if isinstance(x, list) else (x + shift if isinstance(x, int) else x)) for x in ln]


def _same(v1, v2, shift):
    """v1: block of the document parsed alone, v2: block of the combined parse, shift lines further down."""
    if v1[0] != v2[0]:
        i = next((k for k in range(min(len(v1[0]), len(v2[0]))) if v1[0][k] != v2[0][k]), min(len(v1[0]), len(v2[0])))
        return "alone %r, in context %r" % (v1[0][i:i + 1], v2[0][i:i + 1])
    if _shifted(v1[1], shift) != v2[1]:
        return "lines alone %r (+%d), in context %r" % (v1[1], shift, v2[1])
    return ""


def _judge(parse, d1, x, glue, d2, r=None):
    """The property statement on the implementation's objects; parse(text) -> guarded result.  -> (ok, detail)"""
    if r is None:
        r = parse(d1 + x + glue + d2)
    # each parse is looked at as it is when it returns, before anything else is parsed
    v = _views(r[1]) if r[0] != "exc" else None
    r1 = parse(d1)
    v1 = _views(r1[1]) if r1[0] != "exc" else None
    r2 = parse(d2)
    v2 = _views(r2[1]) if r2[0] != "exc" else None
    if v is None or v1 is None or v2 is None:
        return False, "parse raised"
    bs = r[1].blocks
    ok, detail = True, ""
    if len(v) < len(v1) + len(v2):
        ok, detail = False, "%d blocks, but the neighbours alone have %d + %d" % (len(v), len(v1), len(v2))
    else:
        for i, w in enumerate(v1):
            d = _same(w, v[i], 0)
            if d:
                ok, detail = False, "block %d of the well-formed prefix changed: %r: %s" % (i, (bs[i].raw or "")[:50], d)
                break
        shift = (d1 + x + glue).count("\n")
        off = len(v) - len(v2)
        if ok:
            for i, w in enumerate(v2):
                d = _same(w, v[off + i], shift)
                if d:
                    ok, detail = False, "block %d of the well-formed suffix not parsed as on its own: %s raw %r line %r: %s" % (
                        i, type(bs[off + i]).__name__, (bs[off + i].raw or "")[:50], bs[off + i].start_line, d)
                    break
        if ok and x.strip() == "" and len(v) != len(v1) + len(v2):
            ok, detail = False, "concatenation of well-formed documents gives %d blocks instead of %d" % (len(v), len(v1) + len(v2))
    if ok and x != "":
        # first clause on its own: the arbitrary text is the end of the input (nothing well-formed behind it)
        r3 = parse(d1 + x)
        v3 = _views(r3[1]) if r3[0] != "exc" else None
        if v3 is None:
            ok, detail = False, "parse of prefix + arbitrary text raised"
        elif len(v3) < len(v1):
            ok, detail = False, "prefix + arbitrary text: %d blocks, the prefix alone has %d" % (len(v3), len(v1))
        else:
            for i, w in enumerate(v1):
                d = _same(w, v3[i], 0)
                if d:
                    ok, detail = False, "block %d of the well-formed prefix changed by the text behind it (no suffix): %s" % (i, d)
                    break
    return ok, detail


def _parse_default(text):
    import bibtexparser
    import implutil
    return implutil.guarded(lambda: bibtexparser.parse_string(text))


def impl(case):
    inp = case["input"]
    notes = []
    if "kt" in inp:
        return _impl_keys(case)
    if "sr" in inp:
        # the library's own artefacts: the texts are made here, from the tree under test (c04_selfref.py)
        d1, x, glue, d2, notes = SR.materialise(inp)
    else:
        d1, x, glue, d2 = inp["d1"], inp["x"], "\n", inp["d2"]
    text = d1 + x + glue + d2
    rec, r = SC.base_record(text)
    ok, detail = _judge(SC.split_impl, d1, x, glue, d2, r)
    if ok and inp.get("own"):
        # documents made of own blocks (nothing in D2 refers to an @string of a neighbour): the statement also holds for the
        # library that parse_string returns with its default middleware stack; no model counterpart, the oracle alone decides
        ok, detail = _judge(_parse_default, d1, x, glue, d2)
        if not ok:
            detail = "default parse stack: " + detail
    if not ok and "sr" in inp:
        detail += " :: D1 %r X %r%s D2 %r" % (d1, x, "" if glue == "\n" else " glue %r" % glue, d2)
    rec["oracle"] = {"ok": ok, "detail": detail}
    rec["nontrivial"] = x.strip() != "" or "parse raised" in detail
    rec["key"] = str(hash((d1, x, d2)))
    rec["tags"] = [case["stream"]]
    if "state" in inp:
        rec["tags"] += ["TR-state:" + inp["state"], "TR-suffix:" + inp["hclass"]]
    if "sr" in inp:
        rec["tags"] += list(inp["sr"]) + notes + (["SR-default-stack-too"] if inp.get("own") else [])
    return rec


def _impl_keys(case):
    """stream KEY: the expectation is stated from the source blocks the generator laid out (c04_keys.judge)"""
    inp = case["input"]
    d1, x, d2 = inp["d1"], inp["x"], inp["d2"]
    rec, r = SC.base_record(d1 + x + "\n" + d2)
    ok, detail = KY.judge(SC.split_impl, inp, _view, _same, r)
    if ok:
        # no field of these documents refers to an @string: the statement also holds for the library that parse_string returns
        # with its default middleware stack (no model counterpart, the oracle alone decides); the stack leaves the inside of a
        # failed block alone, so the inside of a wrapper caused by D1 / X is compared on class, raw, line and key only
        ok, detail = KY.judge(_parse_default, inp, _view, _same, None, full_inner=False)
        if not ok:
            detail = "default parse stack: " + detail
    if not ok:
        detail += " :: D1 %r X %r D2 %r" % (d1, x, d2)
    rec["oracle"] = {"ok": ok, "detail": detail}
    rec["nontrivial"] = True
    rec["key"] = str(hash((d1, x, d2)))
    rec["tags"] = [case["stream"]] + list(inp["kt"]) + ["KEY-default-stack-too"]
    return rec


def shrink(case):
    if "kt" in case["input"]:
        return iter(())                 # the expectation is tied to the source blocks as laid out
    return SC.shrink_text(case, "x")
