"""C04 - malformed blocks never damage neighbours: parsing resyncs at the next @block."""
import gens_split as G
import splitcommon as SC

ENGINE = "split"
RULE = ("triples (D1, X, D2): D1, D2 grammar documents (D1 ending in a complete block, D2 starting with '@type{' at a line start, "
        "disjoint key pools), X = every token sequence up to length 3 (quick) / 4 (thorough) over the splitter alphabet, random longer "
        "ones, and truncations/corruptions of valid blocks; checked: parse(D1+X+'\\n'+D2) starts with parse(D1) and ends with parse(D2) "
        "shifted; concatenations D1+D2. distinct = distinct (D1, X, D2); non-trivial = X is non-empty and not whitespace")
TRUSTED = ["the decomposition into D1 / X / D2 is the generator's"]
ASSUMPTIONS = []
CASE_TIMEOUT_S = 60


def _docs(rng, n, prefix):
    out = []
    while len(out) < n:
        pool = ["%s%d" % (prefix, i) for i in range(40)]
        rng.shuffle(pool)
        text, items = G.gen_doc(rng, max_items=4, depth=2, entry_keys=pool[:20], string_keys=pool[20:],
                                kinds=["entry", "entry", "string", "preamble", "comment"])
        # unique keys inside the document
        if not items or not SC.doc_is_nodup(items):
            continue
        first = items[0]["raw"]
        last = items[-1]["raw"]
        body = text[text.index(first): text.rindex(last) + len(last)]       # starts with '@', ends in the closing brace
        out.append(body)
    return out


def generate(rng, tier):
    d1s = _docs(rng, 6, "P")
    d2s = _docs(rng, 6, "Q")
    # well-formed suffixes whose first block has a type with non-ASCII word characters
    d2s += ["@%s%s{Qe%d, a = {b}}\n%s" % (t, rng.choice(G.HWS), i, rng.choice(d2s[:6])) for i, t in enumerate(G.EDGE_TYPES)]
    cases = []
    maxlen = 3 if tier == "quick" else 4
    xs = list(G.token_seqs(maxlen))
    for x in xs:
        cases.append({"stream": "T", "input": {"d1": rng.choice(d1s), "x": x, "d2": rng.choice(d2s)}})
    for _ in range(1500 if tier == "quick" else 40000):
        cases.append({"stream": "T-long", "input": {"d1": rng.choice(d1s), "x": G.random_token_seq(rng, maxlen + 1, 12), "d2": rng.choice(d2s)}})
    docs = [G.gen_doc(rng, entry_keys=["m%d" % i for i in range(50)])[0] for _ in range(100)]
    for _ in range(800 if tier == "quick" else 20000):
        cases.append({"stream": "M", "input": {"d1": rng.choice(d1s), "x": G.mutate(rng, rng.choice(docs)), "d2": rng.choice(d2s)}})
    for _ in range(200 if tier == "quick" else 3000):
        cases.append({"stream": "U", "input": {"d1": rng.choice(d1s), "x": G.garbage(rng), "d2": rng.choice(d2s)}})
    for a in d1s:
        for b in d2s:
            cases.append({"stream": "concat", "input": {"d1": a, "x": "", "d2": b}})
    return cases


def _same(b1, b2, shift):
    return SC.block_content(b1) == SC.block_content(b2) and b1.raw == b2.raw and b1.start_line + shift == b2.start_line


def impl(case):
    inp = case["input"]
    d1, x, d2 = inp["d1"], inp["x"], inp["d2"]
    text = d1 + x + "\n" + d2
    rec, r = SC.base_record(text)
    r1 = SC.split_impl(d1)
    r2 = SC.split_impl(d2)
    if r[0] == "exc" or r1[0] == "exc" or r2[0] == "exc":
        rec["oracle"] = {"ok": False, "detail": "parse raised"}
        rec["nontrivial"] = True
        return rec
    bs, b1, b2 = r[1].blocks, r1[1].blocks, r2[1].blocks
    ok, detail = True, ""
    if len(bs) < len(b1) + len(b2):
        ok, detail = False, "%d blocks, but the neighbours alone have %d + %d" % (len(bs), len(b1), len(b2))
    else:
        for i, b in enumerate(b1):
            if not _same(b, bs[i], 0):
                ok, detail = False, "block %d of the well-formed prefix changed: %r" % (i, (bs[i].raw or "")[:50])
                break
        shift = (d1 + x + "\n").count("\n")
        off = len(bs) - len(b2)
        if ok:
            for i, b in enumerate(b2):
                if not _same(b, bs[off + i], shift):
                    ok, detail = False, "block %d of the well-formed suffix not parsed as on its own: %s raw %r line %r" % (
                        i, type(bs[off + i]).__name__, (bs[off + i].raw or "")[:50], bs[off + i].start_line)
                    break
        if ok and x.strip() == "" and len(bs) != len(b1) + len(b2):
            ok, detail = False, "concatenation of well-formed documents gives %d blocks instead of %d" % (len(bs), len(b1) + len(b2))
    rec["oracle"] = {"ok": ok, "detail": detail}
    rec["nontrivial"] = x.strip() != ""
    rec["key"] = str(hash((d1, x, d2)))
    rec["tags"] = [case["stream"]]
    return rec


def shrink(case):
    return SC.shrink_text(case, "x")
