"""C17, streams for RESERVED AND MAGIC NAMES as field keys and as items of a custom order (imported by c17.py only).

A field may be called anything: `ID`, `ENTRYTYPE` (the pseudo keys of the v1 / dict-like interface of an entry), `id`,
`entrytype`, `key`, `fields`, `entry_type`, `raw`, the metadata keys of the shipped middlewares
(`sorted_fields_custom`, ...), a format string of the writer.  The property does not know any of these names: listed keys
come first in listed order WHATEVER THEY ARE CALLED, alphabetical order is by code point, normalisation lower-cases and
merges `ID` and `id` like any other pair.  The word pool is selfref.magic_for_tree() of the tree under test (read in a
child interpreter with PYTHONPATH=<tree>; the static selfref.MAGIC_WORDS if that fails), every word also in other cases.

    reserved-systematic   every word w of the pool x { [o1, w, o2], [zz, w, A], [o1, V, w] (V = w in another case), [w] } x
                          { alphabetical, normalise, custom orders that list w first / last / only / in the middle /
                            in another case than the entry has it, each case-sensitive and not }
    reserved-ctor         orders that list a word twice (exactly, or in two cases): ValueError iff equal after folding
    reserved-random       1-8 fields, reserved and ordinary keys mixed, 1-3 steps, orders drawn from the entry's own keys,
                          their case variants, other words of the pool and ordinary names; other blocks around; user
                          subclasses of Entry; the entry's own type and key sometimes reserved words as well
"""
import json
import os
import subprocess
import sys

ORDINARY = ["a", "A", "b", "B", "ab", "c", "m", "Z", "z"]
_POOL = None


def magic_pool():
    """selfref.magic_for_tree() OF THE TREE UNDER TEST (the generator runs in the parent, where `bibtexparser` is not that tree)."""
    global _POOL
    if _POOL is not None:
        return _POOL
    from props import selfref
    words = None
    here = os.path.dirname(os.path.dirname(os.path.abspath(__file__)))
    code = ("import json, sys; sys.path.insert(0, %r); from props import selfref; "
            "print('MAGIC=' + json.dumps(selfref.magic_for_tree()))" % here)
    try:
        env = dict(os.environ, PYTHONPATH=os.environ.get("VERIF_REPO", "/repo"), PYTHONHASHSEED="0", PYTHONDONTWRITEBYTECODE="1")
        p = subprocess.run([sys.executable, "-B", "-c", code], env=env, capture_output=True, text=True, timeout=120)
        for line in p.stdout.splitlines():
            if line.startswith("MAGIC="):
                words = json.loads(line[6:])
    except Exception:  # noqa: BLE001
        words = None
    if not words:
        words = list(dict.fromkeys(selfref.MAGIC_WORDS))
    _POOL = [w for w in words if isinstance(w, str)]
    return _POOL


def variants(w):
    """w in other cases (w itself first); one element for a word without cased letters"""
    return list(dict.fromkeys([w, w.lower(), w.upper(), w.swapcase(), w.capitalize(), w.title()]))


def generate_reserved(rng, tier, cases):
    quick = tier == "quick"
    magic = magic_pool()
    head = magic[:13] if len(magic) >= 13 else magic          # ID, ENTRYTYPE, id, ..., the attribute names of the model

    def add(stream, names, steps, ctx=0, inplace=True, cls=0, ek=None):
        inp = {"names": list(names), "steps": steps, "ctx": ctx, "inplace": inplace}
        if cls:
            inp["cls"] = cls
        if ek:
            inp["ek"] = list(ek)
        cases.append({"stream": stream, "input": inp})

    def flip():
        return bool(rng.getrandbits(1))

    def two_ordinary(w):
        while True:
            o1, o2 = rng.sample(ORDINARY, 2)
            if len({o1.lower(), o2.lower(), w.lower()}) == 3:
                return o1, o2

    # (1) every word, every position in the order, both case modes
    for w in magic:
        o1, o2 = two_ordinary(w)
        others = variants(w)[1:]
        vs = others if not quick else ([rng.choice(others)] if others else [])
        e1 = [o1, w, o2]
        for order in ([w, o2], [o2, w], [w], [o2, w, o1]):
            for cs in (0, 1):
                add("reserved-systematic", e1, [[1, cs, rng.randint(0, 1), order]], 0, flip())
        add("reserved-systematic", e1, [[0]], 0, flip())
        add("reserved-systematic", ["zz", w, "A"], [[0]], 0, flip())    # a neighbour on either side of any word with a letter
        add("reserved-systematic", e1, [[2]], 0, flip())
        for v in vs:
            # the order names the word in another case than the entry holds it: a listed key iff case-insensitive
            for cs in (0, 1):
                add("reserved-systematic", e1, [[1, cs, rng.randint(0, 1), [v, o2]]], 0, flip())
            # the entry holds the word in two cases: `ID` and `id` collide like any other pair
            e2 = [o1, v, w] if flip() else [w, o1, v]
            add("reserved-systematic", e2, [[0]], 0, flip())
            add("reserved-systematic", e2, [[2]], 0, flip())
            add("reserved-systematic", e2, [[1, 0, rng.randint(0, 1), [w]]], 0, flip())
            add("reserved-systematic", e2, [[1, 1, rng.randint(0, 1), [w]]], 0, flip())
            add("reserved-systematic", e2, [[1, 1, rng.randint(0, 1), [w, v]]], 0, flip())
            add("reserved-systematic", e2, [[2], [1, rng.randint(0, 1), rng.randint(0, 1), [w.lower(), o1]]], 0, flip())
        add("reserved-systematic", [w], [rng.choice([[0], [2], [1, 0, 0, [w]], [1, 1, 1, [w]]])], rng.choice([0, 1, 2]), flip())
    # (2) constructor: a word listed twice, exactly or in two cases
    cased = [w for w in magic if len(variants(w)) > 1]
    for w in (cased if not quick else head[:6] + rng.sample(cased, min(len(cased), 24))):
        v = rng.choice(variants(w)[1:])
        o1, _ = two_ordinary(w)
        for order in ([w, v], [v, o1, w], [w, w], [o1, w, o1]):
            for cs in (0, 1):
                add("reserved-ctor", [o1, v, w], [[1, cs, rng.randint(0, 1), order]], 0, True)
    # (3) mixed entries, several steps, frames, user classes

    def word():
        w = rng.choice(head) if rng.random() < 0.4 else rng.choice(magic)
        return rng.choice(variants(w)) if rng.random() < 0.35 else w

    def order_for(names, cs):
        items = []
        for _ in range(rng.randint(0, 5)):
            r = rng.random()
            if names and r < 0.5:
                items.append(rng.choice(names))
            elif names and r < 0.7:
                items.append(rng.choice(variants(rng.choice(names))))
            elif r < 0.9:
                items.append(word())
            else:
                items.append(rng.choice(ORDINARY))
        if rng.random() < 0.92:
            # a legal order: no item twice (after folding unless case-sensitive); the rest are constructor errors
            seen, legal = set(), []
            for k in items:
                f = k if cs else k.lower()
                if f not in seen:
                    seen.add(f)
                    legal.append(k)
            items = legal
        return items

    def step(names):
        r = rng.random()
        if r < 0.2:
            return [0]
        if r < 0.45:
            return [2]
        cs = rng.randint(0, 1)
        return [1, cs, rng.randint(0, 1), order_for(names, cs)]

    for _ in range(1200 if quick else 24000):
        n = rng.randint(1, 8)
        names = [word() if rng.random() < 0.55 else rng.choice(ORDINARY) for _ in range(n)]
        if n >= 2 and rng.random() < 0.3:
            # make sure of a collision between two spellings of one word
            i, j = rng.sample(range(n), 2)
            names[j] = rng.choice(variants(names[i]))
        ek = [word(), word()] if rng.random() < 0.2 else None
        add("reserved-random", names, [step(names) for _ in range(rng.randint(1, 3))], rng.choice([0, 0, 0, 1, 2]), flip(),
            rng.choice([0, 0, 0, 1, 2]), ek)


# -------------------------------------------------------------------------------------------- labels (implementation child)
_SETS = None


def _sets():
    global _SETS
    if _SETS is None:
        from props import selfref
        static = set(selfref.MAGIC_WORDS)
        tree = set(selfref.magic_for_tree())
        _SETS = (static, tree, {w.lower() for w in static | tree})
    return _SETS


def family(k):
    """'' for an ordinary name, else which kind of reserved word k is (in any case)"""
    static, tree, lowered = _sets()
    if k.lower() in ("id", "entrytype"):
        return "v1-pseudo-key"
    if k in static or k in tree:
        return "static-word" if k in static else "tree-derived-word"
    if k.lower() in lowered:
        return "case-variant-of-a-word"
    return ""


def tags(inp, mw_names):
    """The kinds of a case that has a reserved word among its field keys or order items, measured on the case itself."""
    names, steps = inp["names"], inp["steps"]
    res_names = [k for k in names if family(k)]
    res_items = [k for s in steps if s[0] == 1 for k in s[3] if family(k)]
    if not res_names and not res_items:
        return []
    out = set()
    for k in res_names:
        out.add("reserved/field-key=" + family(k))
    if any(a != b and a.lower() == b.lower() for a in res_names for b in res_names):
        out.add("reserved/entry-holds-one-word-in-two-cases")
    if len(set(res_names)) != len(res_names):
        out.add("reserved/entry-holds-one-word-twice")
    if res_names and len(res_names) == len(names):
        out.add("reserved/entry-has-only-reserved-keys")
    for s in steps:
        if not res_names and not (s[0] == 1 and any(family(k) for k in s[3])):
            continue
        out.add("reserved/mw=" + mw_names[s[0]])
        if s[0] != 1:
            continue
        cs, order = s[1], s[3]
        mode = "case-sensitive" if cs else "case-insensitive"
        for i, k in enumerate(order):
            if not family(k):
                continue
            out.add("reserved/order-item=" + family(k))
            pos = "only" if len(order) == 1 else "first" if i == 0 else "last" if i == len(order) - 1 else "middle"
            out.add("reserved/order-lists-reserved=%s/%s" % (pos, mode))
            if k in names:
                hit = "exact"
            elif k.lower() in [x.lower() for x in names]:
                hit = "other-case(listed)" if not cs else "other-case(not listed)"
            else:
                hit = "absent"
            out.add("reserved/listed-reserved-word-in-entry=" + hit)
        if any(family(k) for k in order) and any(not family(k) for k in order):
            out.add("reserved/order-mixes-reserved-and-ordinary")
    if inp.get("ek"):
        out.add("reserved/entry-type-and-key-are-reserved-words")
    return sorted(out)
