"""C04, stream KEY: the same key used by blocks of different kinds and by blocks of different parts (D1, X, D2).

Class (seeding round 13, C04-m): a name that occurs twice - as an @string name and an entry key (string first / entry first), as
an entry key and a field name / a field text / an entry type, as the text of a preamble / an explicit comment / a free-text line
and a key, as the key of an entry that repeats a field name (not registered) and of an ordinary entry, as the key cut off in a
truncated block of X and a key of D2, twice as an entry key or twice as a string name (then the later one is the duplicate-key
block that C09 prescribes), or in two spellings that differ in letter case only (then nothing is a duplicate) - the two
occurrences lying in the same part or in different parts: D1-D1, D1-X, D1-D2, X-X, X-D2, D2-D2; random mixes of three to five
occurrences on top.

The expectation comes from the property statements, not from the implementation.  The generator knows every source block of
D1 and D2 (kind, key, raw text); C04 + C09 say: parse_string(D1 + X + glue + D2) returns, the first blocks are one per source
block of D1, the last blocks one per source block of D2, raw = the source text of the block, start line = the line it stands
on, and the kind is: an entry that repeats a field name -> DuplicateFieldKeyBlock (key not registered); an entry / string whose
key is the key of an EARLIER LIVE block OF THE SAME KIND (in D1, in what X gave, in D2) -> DuplicateBlockKeyBlock with that key,
previous_block = that first live block (the object in `blocks`), the complete duplicate inside; anything else the block
itself.  What X gives is taken as it comes (only Entry / String blocks among it count as live).  The same expectation is
checked on D1 alone and on D2 alone (so the generator's reading of its own documents is checked too), and the blocks of the
combined parse are compared with those of the parts on their own on everything public (c04._view), the inner block of a
wrapper that only the combination causes against the block on its own.
"""

TYPES = ["article", "Book", "misc", "a", "x_1", "INPROCEEDINGS"]
KEYS = ["knuth", "Knuth", "tug", "TUG", "a", "A", "title", "ID", "year", "k1", "x_1", "k.1", "a-b", "k:1", "comment", "String",
        "preamble", "jan", "ENTRYTYPE", "é1", "Zoë", "author", "b2"]
RESERVED = ("comment", "string", "preamble")
MAIN = ["E", "S"]
OTHERS = ["E", "S", "F", "N", "V", "Y", "P", "C", "T"]
PLACES = [("D1", "D1"), ("D1", "X"), ("D1", "D2"), ("X", "X"), ("X", "D2"), ("D2", "D2")]
KIND_CLASS = {"E": "Entry", "S": "String", "F": "DuplicateFieldKeyBlock", "P": "Preamble", "C": "ExplicitComment",
              "T": "ImplicitComment"}


def _case_variant(rng, k):
    vs = [v for v in (k.upper(), k.lower(), k.swapcase(), k.capitalize(), k[:-1] + k[-1].swapcase()) if v != k]
    return rng.choice(vs) if vs else None


def _val(rng, text=None):
    t = text if text is not None else rng.choice(["A. Uthor", "x", "The {TeX} book", "", "a, b = c", "say \"hi\"", "1--2"])
    r = rng.random()
    if text is None and r < 0.15:
        return rng.choice(["1999", "12", "0"])
    if r < 0.6 or '"' in t:
        return "{" + t + "}"
    return '"' + t + '"'


def _entry(rng, key, fields=None, typ=None):
    """-> raw text of an entry with the given key; fields: [(name, value text)]"""
    ws = lambda: rng.choice(["", " ", " ", "\n  ", "\t"])
    if fields is None:
        names = ["title", "note", "year", "author", "a"]
        rng.shuffle(names)
        fields = [(n, _val(rng)) for n in names[:rng.choice([0, 1, 1, 2])]]
    s = "@" + (typ or rng.choice(TYPES)) + rng.choice(["", "", " "]) + "{" + rng.choice(["", "", " "]) + key
    for n, v in fields:
        s += "," + ws() + n + rng.choice(["=", " = ", " ="]) + v
    s += rng.choice(["", "", ",", " ", "\n"]) + "}"
    return s


def _string(rng, key, text=None):
    kw = rng.choice(["string", "string", "String", "STRING"])
    return "@" + kw + rng.choice(["", "", " "]) + "{" + rng.choice(["", " "]) + key + rng.choice(["=", " = "]) + _val(rng, text) + \
        rng.choice(["", "", " "]) + "}"


def _typeable(k):
    return k.replace("_", "a").isalnum() and k.isascii() and k.lower() not in RESERVED


def block(rng, role, k, other):
    """one source block in which the name k plays the given role -> item {kind, key, raw, role}"""
    if role == "Y" and not _typeable(k):
        role = "N"
    if role == "E":
        it = ("E", k, _entry(rng, k))
    elif role == "S":
        it = ("S", k, _string(rng, k, rng.choice([None, None, k])))
    elif role == "F":
        n = rng.choice(["a", "title", k])
        it = ("F", k, _entry(rng, k, [(n, _val(rng)), ("b", _val(rng)), (n, _val(rng))]))
    elif role == "N":
        it = ("E", other, _entry(rng, other, [(k, _val(rng, rng.choice([None, k])))] + ([("z", _val(rng))] if rng.random() < 0.4 else [])))
    elif role == "V":
        it = ("E", other, _entry(rng, other, [(rng.choice(["title", "crossref", "key"]), _val(rng, k))]))
    elif role == "Y":
        it = ("E", other, _entry(rng, other, typ=k))
    elif role == "P":
        it = ("P", None, "@" + rng.choice(["preamble", "Preamble"]) + "{" + rng.choice(['"%s"', "{%s}", "%s", " %s "]) % k + "}")
    elif role == "C":
        it = ("C", None, "@" + rng.choice(["comment", "Comment"]) + "{" + rng.choice(["%s", "%s", " %s ", "{%s}", "%s = x", " %s,"]) % k + "}")
    elif role == "T":
        it = ("T", None, rng.choice(["%s", "%s", "%s,", "%s = {x}", "see %s"]) % k)
    else:
        raise ValueError(role)
    return {"kind": it[0], "key": it[1], "raw": it[2], "role": role}


def _filler(rng, prefix, n):
    out = []
    for i in range(n):
        k = "%s%d" % (prefix, rng.randrange(1000))
        out.append(block(rng, rng.choice(["E", "E", "S", "C", "P", "F"]), k, k + "o"))
    ks = [(o["kind"] == "S", o["key"]) for o in out if o["key"]]
    return out if len(set(ks)) == len(ks) else _filler(rng, prefix, n)


def _join(rng, items):
    """items -> text; free text gets lines of its own, other blocks are separated by white space (at least one character)"""
    s = ""
    for i, it in enumerate(items):
        if i:
            if it["kind"] == "T" or items[i - 1]["kind"] == "T":
                s += rng.choice(["\n", "\n\n", "\r\n"])
            else:
                s += rng.choice(["\n", "\n", "\n\n", "\r\n", " ", "\n \n"])
        s += it["raw"]
    return s


def _arrange(rng, own, fill, first_block=False, last_block=False):
    """the occurrences keep their order, fillers go anywhere; free text neither first (D2) nor last (D1) nor next to free text
    (two adjacent free texts are one block by the definition of the dialect): a comment is put where that would happen"""
    items = list(own)
    for f in fill:
        items.insert(rng.randrange(len(items) + 1), f)
    pad = lambda: block(rng, "C", "pad", "pad")
    out = []
    for it in items:
        if it["kind"] == "T" and out and out[-1]["kind"] == "T":
            out.append(pad())
        out.append(it)
    if out and first_block and out[0]["kind"] == "T":
        out.insert(0, pad())
    if out and last_block and out[-1]["kind"] == "T":
        out.append(pad())
    return out


def _broken(rng, k):
    """a block of X cut off behind the key k"""
    return rng.choice(['@article{%s, title = "Foo {Bar', "@misc{%s, a = {b", "@misc{%s,", "@misc{%s", '@string{%s = "baz',
                       "@string{%s = {x", "@string{%s", "@book{%s, a = 1, b"]) % k


GARBAGE = ["", "", "\n", " ", "\n\n", "some notes, unbalanced } brace and \" quote\n", "}}} , = \n", "junk\n", "% note\n", "=\n",
           "\"\n", "{\n", "\\\n"]


def make(rng, occ, truncated):
    """occ: [(place, role, key)] in source order (places ascending D1 < X < D2) -> input dict"""
    parts = {"D1": [], "X": [], "D2": []}
    xbroken = []
    n = 0
    for place, role, k in occ:
        n += 1
        if role == "B":
            xbroken.append(_broken(rng, k))
            continue
        parts[place].append(block(rng, role, k, "o%d%s" % (n, place)))
    i1 = _arrange(rng, parts["D1"], _filler(rng, "P", rng.choice([0, 1, 1, 2]) if parts["D1"] else 1), last_block=True)
    i2 = _arrange(rng, parts["D2"], _filler(rng, "Q", rng.choice([0, 1, 1, 2]) if parts["D2"] else 1), first_block=True)
    ix = _arrange(rng, parts["X"], _filler(rng, "W", rng.choice([0, 0, 1])) if parts["X"] else [])
    if ix or xbroken:
        x = rng.choice(["", "", "\n", " ", "junk\n", "} }\n", "\"\n"]) + _join(rng, ix)
        for b in xbroken:
            x += rng.choice(["\n", "\n", " ", ""] if x else [""]) + b
        r = rng.random()
        if not xbroken and r < 0.25:
            x += "\n" + rng.choice(truncated(rng))[1]
        elif r < 0.5:
            x += rng.choice(["\n", " ", "\n\n", "\njunk }", " ,"])
    else:
        r = rng.random()
        x = rng.choice(GARBAGE) if r < 0.75 else rng.choice(truncated(rng))[1] + rng.choice(["", "\n"])
    strip = lambda its: [{"kind": it["kind"], "key": it["key"], "raw": it["raw"]} for it in its]
    return {"d1": _join(rng, i1), "x": x, "d2": _join(rng, i2), "items1": strip(i1), "items2": strip(i2)}


def gen(rng, tier, truncated):
    cases = []
    reps = 2 if tier == "quick" else 16

    def add(occ, tags):
        inp = make(rng, occ, truncated)
        inp["kt"] = tags
        inp["own"] = True
        cases.append({"stream": "KEY", "input": inp})

    pairs = []
    for m in MAIN:
        for o in OTHERS:
            for p in ((m, o), (o, m)):
                if p not in pairs:
                    pairs.append(p)
    for ra, rb in pairs:
        for pa, pb in PLACES:
            for rep in range(reps):
                k = rng.choice(KEYS)
                k2 = k
                rel = "same"
                if rep % 2 == 1 and rng.random() < 0.5:
                    v = _case_variant(rng, k)
                    if v:
                        k2, rel = v, "case"
                add([(pa, ra, k), (pb, rb, k2)], ["KEY-pair:%s-%s" % (ra, rb), "KEY-places:%s-%s" % (pa, pb), "KEY-rel:" + rel])
    # the key of a block of X that is cut off, against keys of D1 / D2
    for m in MAIN:
        for rep in range(reps):
            k = rng.choice(KEYS)
            add([("X", "B", k), ("D2", m, k)], ["KEY-pair:B-%s" % m, "KEY-places:X-D2", "KEY-rel:same"])
            add([("D1", m, k), ("X", "B", k)], ["KEY-pair:%s-B" % m, "KEY-places:D1-X", "KEY-rel:same"])
            add([("D1", m, k), ("X", "B", k), ("D2", rng.choice(MAIN), k)], ["KEY-pair:%s-B-*" % m, "KEY-places:D1-X-D2", "KEY-rel:same"])
    # three to five occurrences of one or two names, anywhere
    order = {"D1": 0, "X": 1, "D2": 2}
    for _ in range(150 if tier == "quick" else 3000):
        k = rng.choice(KEYS)
        names = [k, k, k, _case_variant(rng, k) or k, rng.choice(KEYS)]
        occ = [(rng.choice(["D1", "D1", "X", "D2", "D2"]), rng.choice(["E", "E", "S", "S"] + OTHERS), rng.choice(names))
               for _ in range(rng.randint(3, 5))]
        occ.sort(key=lambda o: order[o[0]])
        add(occ, ["KEY-mix:%d" % len(occ), "KEY-mix-places:" + "".join(sorted({o[0][-1] if o[0] != "X" else "X" for o in occ}))])
    return cases


# ------------------------------------------------------------------ child side: the statement on the implementation's objects
def _info(lib, view):
    """what is needed of a parse, taken when it returns: per block class, raw, line, key, index of previous_block, views"""
    bs = lib.blocks
    out = []
    for b in bs:
        cn = type(b).__name__
        d = {"cn": cn, "raw": b.raw, "line": b.start_line, "key": getattr(b, "key", None) if cn in ("Entry", "String", "DuplicateBlockKeyBlock") else None,
             "view": view(b)}
        if cn in ("DuplicateBlockKeyBlock", "DuplicateFieldKeyBlock"):
            inner = b.ignore_error_block
            d["inner"] = {"cn": type(inner).__name__, "raw": getattr(inner, "raw", None), "line": getattr(inner, "start_line", None),
                          "key": getattr(inner, "key", None), "view": view(inner)}
        if cn == "DuplicateBlockKeyBlock":
            p = b.previous_block
            d["prev"] = next((i for i, c in enumerate(bs) if c is p), -1)
        out.append(d)
    return out


def _lines(text, items):
    """start line of every source block (the raws are laid out one after the other, white space between them)"""
    pos, out = 0, []
    for it in items:
        j = text.index(it["raw"], pos)
        out.append(text.count("\n", 0, j))
        pos = j + len(it["raw"])
    return out


def _expect(info, lo, items, lines, shift, live, what):
    """blocks info[lo : lo+len(items)] against the source blocks `items`; live: {(class, key): index of the first live block}.
    -> (detail or "", [indices into items whose kind depends on an earlier part])"""
    for j, it in enumerate(items):
        i = lo + j
        g = info[i]
        want_cn = KIND_CLASS[it["kind"]]
        prev = None
        if it["kind"] in ("E", "S"):
            prev = live.get((want_cn, it["key"]))
            if prev is None:
                live[(want_cn, it["key"])] = i
        here = "block %d of %s (%s, source %r)" % (j, what, KIND_CLASS[it["kind"]] + (" key %r" % it["key"] if it["key"] else ""), it["raw"][:50])
        if prev is not None:
            if g["cn"] != "DuplicateBlockKeyBlock":
                return "%s: a live %s with that key precedes it (block %d), expected a DuplicateBlockKeyBlock, got %s" % (here, want_cn, prev, g["cn"])
            if g["key"] != it["key"]:
                return "%s: duplicate-key block exposes key %r" % (here, g["key"])
            if g["prev"] != prev:
                return "%s: previous_block is block %r of the library, the first live %s with that key is block %d" % (here, g["prev"], want_cn, prev)
            inner = g["inner"]
            if (inner["cn"], inner["raw"], inner["line"], inner["key"]) != (want_cn, it["raw"], lines[j] + shift, it["key"]):
                return "%s: the duplicate inside is %s key %r raw %r line %r" % (here, inner["cn"], inner["key"], (inner["raw"] or "")[:40], inner["line"])
        else:
            if g["cn"] != want_cn:
                return "%s: got a %s (key %r, raw %r)" % (here, g["cn"], g["key"], (g["raw"] or "")[:40])
            if it["kind"] in ("E", "S") and g["key"] != it["key"]:
                return "%s: key %r" % (here, g["key"])
            if it["kind"] == "F" and (g["inner"]["cn"], g["inner"]["key"]) != ("Entry", it["key"]):
                return "%s: inside is %s key %r" % (here, g["inner"]["cn"], g["inner"]["key"])
        if g["raw"] != it["raw"]:
            return "%s: raw %r" % (here, (g["raw"] or "")[:60])
        if g["line"] != lines[j] + shift:
            return "%s: start line %r, stands on line %d" % (here, g["line"], lines[j] + shift)
    return ""


def judge(parse, inp, view, same, r=None, full_inner=True):
    """-> (ok, detail).  parse(text) -> guarded result; view / same: c04._view / c04._same"""
    d1, x, d2, glue = inp["d1"], inp["x"], inp["d2"], "\n"
    items1, items2 = inp["items1"], inp["items2"]
    if r is None:
        r = parse(d1 + x + glue + d2)
    v = _info(r[1], view) if r[0] != "exc" else None
    r1 = parse(d1)
    v1 = _info(r1[1], view) if r1[0] != "exc" else None
    r2 = parse(d2)
    v2 = _info(r2[1], view) if r2[0] != "exc" else None
    if v is None or v1 is None or v2 is None:
        which = "D1+X+D2" if v is None else ("D1 alone" if v1 is None else "D2 alone")
        rr = r if v is None else (r1 if v1 is None else r2)
        return False, "parse raised (%s): %s" % (which, rr[2] if len(rr) > 2 else rr[1])
    n1, n2 = len(items1), len(items2)
    l1, l2 = _lines(d1, items1), _lines(d2, items2)
    # the parts on their own: one block per source block, kinds by C09
    for what, vv, items, ll in (("D1 alone", v1, items1, l1), ("D2 alone", v2, items2, l2)):
        if len(vv) != len(items):
            return False, "%s: %d blocks for %d source blocks" % (what, len(vv), len(items))
        d = _expect(vv, 0, items, ll, 0, {}, what)
        if d:
            return False, d
    if len(v) < n1 + n2:
        return False, "%d blocks, but the neighbours have %d + %d source blocks" % (len(v), n1, n2)
    if x.strip() == "" and len(v) != n1 + n2:
        return False, "concatenation of well-formed documents gives %d blocks instead of %d" % (len(v), n1 + n2)
    off = len(v) - n2
    shift = (d1 + x + glue).count("\n")
    live = {}
    d = _expect(v, 0, items1, l1, 0, live, "D1 in D1+X+D2")
    if d:
        return False, d
    for i in range(n1, off):                                     # what X gave, as it comes
        if v[i]["cn"] in ("Entry", "String"):
            live.setdefault((v[i]["cn"], v[i]["key"]), i)
    before = dict(live)
    d = _expect(v, off, items2, l2, shift, live, "D2 in D1+X+D2")
    if d:
        return False, d
    # everything public, against the parts on their own
    for i in range(n1):
        d = same(v1[i]["view"], v[i]["view"], 0)
        if d:
            return False, "block %d of the well-formed prefix changed: %r: %s" % (i, (v[i]["raw"] or "")[:50], d)
    for j, it in enumerate(items2):
        g, a = v[off + j], v2[j]
        if it["kind"] in ("E", "S") and (KIND_CLASS[it["kind"]], it["key"]) in before:
            # wrapped (or given another first block) because of D1 / X only: the complete duplicate inside is the block on its own
            if not full_inner:
                continue
            d = same(a["inner"]["view"] if a["cn"] == "DuplicateBlockKeyBlock" else a["view"], g["inner"]["view"], shift)
        else:
            d = same(a["view"], g["view"], shift)
        if d:
            return False, "block %d of the well-formed suffix not parsed as on its own: %s raw %r line %r: %s" % (
                j, g["cn"], (g["raw"] or "")[:50], g["line"], d)
    if x != "":
        r3 = parse(d1 + x)
        v3 = _info(r3[1], view) if r3[0] != "exc" else None
        if v3 is None:
            return False, "parse of prefix + arbitrary text raised"
        if len(v3) < n1:
            return False, "prefix + arbitrary text: %d blocks, the prefix has %d" % (len(v3), n1)
        for i in range(n1):
            d = same(v1[i]["view"], v3[i]["view"], 0)
            if d:
                return False, "block %d of the well-formed prefix changed by the text behind it (no suffix): %s" % (i, d)
    return True, ""
