"""C01, streams W / P-W / W-inc: THE LIBRARY'S OWN ARTEFACTS AS INPUT (props/selfref.py).

The texts of the other streams are made of grammar pieces, garbage and blank-like characters; none of them contains what the
library ITSELF writes.  Yet the most common input of all is a file the library wrote: for every failed block the writer puts

    % WARNING Parsing failed for the following N lines.          (BibtexFormat.parsing_failed_comment, N = lines of the raw text)

above the raw text, and when that file is parsed again the sentence comes back as (the end of) an implicit comment directly in
front of the block that fails again.  Code that recognises its own sentence (to avoid repeating it, to re-attach it, to count
with it) is reached by no other stream.  The statement judged is C01's: parse_string and write_string never raise whatever the
text, every failed block carries an error and its raw text (a str that occurs in the text parsed) - on EVERY parse and EVERY
write of every cycle.

A case is a RECIPE (case["input"]["self"]); the text is rendered from it in the implementation child, so that the warning
sentence, the block separator, the indent and VAL_SEP are those of the TREE UNDER TEST (case["input"]["text"] is a preview rendered
with the values of the pinned tree).  Families:

    placed     target block x placement x container x warning variant x format.
               target     a block that fails in the splitter (unterminated at the end of the input / before the next block, missing
                          comma, bare @string, unterminated @preamble / @comment, 5 and 12 lines, CRLF and other line boundaries),
                          a duplicate-key block (entry, @string, several lines), a duplicate-field block, every kind of VALID block
               placement  warning directly above / one blank line above / the separator above / same line / CRLF above / below /
                          blank below / far above / far below / above and below / last line of a longer comment / not the last line /
                          a near miss above the exact one
               container  free text, @comment{..}, braced / quoted value, @string value, @preamble, entry key
               variant    selfref.warning_lines(n, fmt): exact, n-1, n+1, 0, 1, 10^6, negative, padded, +n, superscript, Arabic-Indic,
                          full-width, circled, a word, empty, float, upper / lower case, no percent, blanks, doubled, no period, the
                          bare template; plus (EXTRA below) subscript, every props/charclasses.DIGIT_ODDITIES character, Ethiopic,
                          Kharosthi, a digit followed / preceded by a superscript, 4400 digits, underscores, NBSP / tab / double blanks,
                          invisible characters, CR at the end, prefix only, suffix only ...
               n          the number of lines of the raw text of the block the target ACTUALLY becomes (probe parse in the child);
                          the lines of the target text when it does not fail
               format     the default and custom BibtexFormats: parsing_failed_comment templates ({n} at the end / at the start /
                          twice / absent / empty / with a format spec / regex metacharacters / several lines / an @comment / digit
                          oddities next to the count), block_separator, indent, value_column, trailing_comma; the warning in the text
                          follows the format's template or the default one
    perturbed  a document with failed blocks is WRITTEN by the tree under the format; every warning sentence found in that output
               (the template filled with a count) is replaced by a variant of it; the result is the input
    cycles     parse -> write -> parse -> write ... 2, 3 and 4 times on documents with failed blocks of every kind (and mutated
               grammar documents), the same format every time or two formats alternating
    slots      the default separator / indent / VAL_SEP / the template / an exact warning as TEXT in every slot of props/c01_blank.SLOTS
    magic      selfref.magic_for_tree() words (reserved names, metadata keys, attribute names, format strings) in those slots

W runs the splitter comparison with the model (op 132) on the rendered text plus the oracle; every eighth default-format case is
also run as P-W through the public entry points against the composed model (op 151); W-inc feeds the text in two pieces (cut
between warning and target) into one library (oracle only, as K-inc).  Every choice comes from the rng passed in."""
from props import c01_blank
from props import charclasses as CC
from props import selfref

# ------------------------------------------------------------------------------------------------------------------ pools
# (name, text that has to stand EARLIER in the document, target text, must-be-last?)
FAILING = [
    ("fs:unterminated-eoi", "", "@article{key,\n  title = {Never closed\n", True),
    ("fs:unterminated-then-block", "", "@article{key,\n  title = {Never closed\n\n@book{b2, t = {x}}", False),
    ("fs:missing-comma-1", "", "@a{k x = {1}}", False),
    ("fs:double-comma", "", "@a{k,, x}", False),
    ("fs:string-no-eq", "", "@string{k}", False),
    ("fs:string-no-name", "", "@string{ {v}}", False),
    ("fs:preamble-unterminated", "", "@preamble{\"never closed\n", True),
    ("fs:comment-unterminated", "", "@comment{never closed\n", True),
    ("fs:missing-eq-4", "", "@article{key,\n  title = {A},\n  year = {2020},\n  note {missing eq}\n}", False),
    ("fs:12-lines", "", "@book{big,\n" + "".join("  f%d = {v%d},\n" % (i, i) for i in range(10)) + "  g {no eq}\n}", False),
    ("fs:12-lines-eoi", "", "@book{big,\n" + "".join("  f%d = {v%d},\n" % (i, i) for i in range(10)) + "  g = {never closed\n", True),
    ("fs:crlf", "", "@a{k,\r\n  t = {x},\r\n  u {y}\r\n}", False),
    ("fs:line-boundaries", "", "@a{k,\x0c t = {x},\x85 u {y}\u2028}", False),
    ("fs:just-at", "", "@a{", True),
    ("dup-key", "@a{k, t = {x}}\n\n", "@a{k, t = {y}}", False),
    ("dup-key:lines", "@a{k, t = {x}}\n", "@a{k,\n  t = {y},\n  u = {z}\n}", False),
    ("dup-key:string", "@string{s = {v}}\n\n", "@string{s = {w}}", False),
    ("dup-field", "", "@a{j, t = {x}, t = {y}}", False),
    ("dup-field:lines", "", "@a{j,\n  t = {x},\n  u = {y},\n  t = {z}\n}", False),
    ("dup-field:12-lines", "", "@book{big2,\n" + "".join("  f%d = {v%d},\n" % (i, i) for i in range(9)) + "  f0 = {again}\n}", False),
]
VALID = [
    ("ok:entry", "", "@article{v1,\n  title = {A},\n  year = 2020\n}", False),
    ("ok:entry-1", "", "@a{v2, t = {x}}", False),
    ("ok:entry-nofields", "", "@a{v3}", False),
    ("ok:string", "", "@string{s1 = {v}}", False),
    ("ok:preamble", "", "@preamble{\"p\"}", False),
    ("ok:comment", "", "@comment{c}", False),
    ("ok:free-text", "", "just some text\non two lines", False),
    ("ok:entry-missing-comma-5", "", "@article{key,\n  title = {A},\n  year = 2020\n  note = {missing comma}\n}", False),   # tolerated
    ("ok:string-no-name", "", "@string{= {v}}", False),                                                                  # tolerated
]
TARGETS = FAILING + VALID
TARGET_BY_NAME = {t[0]: t for t in TARGETS}

# placement: pieces in order; "W" = the warning in its container, "W2" = a second (near-miss) warning, "T" = the target
PLACEMENTS = [
    ("above", ["W", "\n", "T"]),
    ("blank-above", ["W", "\n\n", "T"]),
    ("sep-above", ["W", ["sep"], "T"]),
    ("same-line", ["W", " ", "T"]),
    ("crlf-above", ["W", "\r\n", "T"]),
    ("indented-above", ["\t", "W", "\n", "T"]),
    ("text-then-above", ["some free text\n", "W", "\n", "T"]),
    ("above-then-text", ["W", "\nmore text\n", "T"]),
    ("nearmiss-then-above", ["W2", "\n", "W", "\n", "T"]),
    ("above-then-nearmiss", ["W", "\n", "W2", "\n", "T"]),
    ("sep-nearmiss-sep-above", ["W2", ["sep"], "W", "\n", "T"]),
    ("below", ["T", "\n", "W"]),
    ("blank-below", ["T", "\n\n", "W"]),
    ("both", ["W", "\n", "T", "\n", "W"]),
    ("far-above", ["W", "\n\n@misc{between, t = {x}}\n\n", "T"]),
    ("far-below", ["T", "\n\n@misc{between, t = {x}}\n\n", "W"]),
    ("above-two-targets", ["W", "\n", "T", "\n\n", "W", "\n", "T"]),
]
PLACEMENT_BY_NAME = dict(PLACEMENTS)
CLOSE = ("above", "blank-above")

CONTAINERS = [
    ("free", "\x01"),
    ("expl-comment", "@comment{\x01}"),
    ("value", "@misc{c1, note = {\x01}}"),
    ("qvalue", "@misc{c2, note = \"\x01\"}"),
    ("string-value", "@string{w = {\x01}}"),
    ("preamble", "@preamble{\"\x01\"}"),
    ("key", "@misc{\x01, t = {x}}"),
]
CONTAINER_BY_NAME = dict(CONTAINERS)

LEADS = ["", "", "@a{lead, t = {x}}\n\n", "% a comment\n\n", "@string{s0 = {v}}\n", "\n\n"]
TRAILS = ["", "", "\n", "\n\n@a{trail, t = {x}}\n", "\n% end\n", "\n\n\n"]

# custom parsing_failed_comment templates: every one is a valid format string whose only field is n (str.format(n=<int>) succeeds
# on the pinned tree); a template the caller got wrong is the caller's error, not a text the library must survive
TEMPLATES = [
    "% WARNING Parsing failed for the following {n} lines.",
    "% failed: {n}",
    "{n} lines could not be parsed",
    "% parsing failed",
    "",
    "% {n} of {n} lines failed",
    "% failed {{n}}: {n:>4} lines",
    "% WARNING {n!r} lines [a-z]+ (.*) \\d $^",
    "% l\xednea{n}\xb2 \u2460",
    "% WARNING\n% failed for {n} lines",
    "@comment{{failed {n}}}",
    "{n}",
    "% 100% of {n}\t",
    "% failed ( {n} [lines \\",
]
SEPARATORS = ["\n", "", "\n\n\n", " ", "\n% sep\n", "\r\n\r\n"]
INDENTS = ["  ", "", " \t"]
COLUMNS = ["auto", 12, 3]

_SELFREF_LABELS = [lab for lab, _ in selfref.warning_lines(23)]
_SUB = "\u2080\u2081\u2082\u2083\u2084\u2085\u2086\u2087\u2088\u2089"
_CIRCLED = "".join(chr(0x2460 + i) for i in range(20))
# (label, count as a function of n) - counts that are put into the template instead of the number
EXTRA_COUNTS = [
    ("x:subscript", lambda n: "".join(_SUB[int(d)] for d in str(n))),
    ("x:circled-n", lambda n: _CIRCLED[n - 1] if 1 <= n <= 20 else _CIRCLED[0]),
    ("x:digit-then-superscript", lambda n: "%d\xb2" % n),
    ("x:superscript-then-digit", lambda n: "\xb2%d" % n),
    ("x:ethiopic", lambda n: "\u1369"),
    ("x:kharosthi", lambda n: "\U00010a40"),
    ("x:devanagari", lambda n: "".join(chr(0x0966 + int(d)) for d in str(n))),
    ("x:math-double-struck", lambda n: "".join(chr(0x1d7d8 + int(d)) for d in str(n))),
    ("x:long-digits", lambda n: str(n).rjust(4400, "0")),
    ("x:underscore", lambda n: "_".join(str(n)) if n > 9 else "0_%d" % n),
    ("x:blanks-around-count", lambda n: " %d " % n),
    ("x:newline-in-count", lambda n: "%d\n" % n),
    ("x:minus-zero", lambda n: "-0"),
    ("x:hex", lambda n: hex(n)),
    ("x:exponent", lambda n: "%de0" % n),
    ("x:invisible-in-count", lambda n: "\u200b%d" % n),
    ("x:nbsp-in-count", lambda n: "\xa0%d" % n),
    ("x:brace-in-count", lambda n: "{%d}" % n),
    ("x:placeholder", lambda n: "{n}"),
] + [("x:odd:U+%04X" % ord(c), (lambda c: (lambda n: c))(c)) for c in CC.DIGIT_ODDITIES]
# (label, text as a function of the exact text, of the text before the count and of the text behind it)
EXTRA_TEXTS = [
    ("x:nbsp", lambda e, b, a: e.replace(" ", "\xa0")),
    ("x:tabs", lambda e, b, a: e.replace(" ", "\t")),
    ("x:double-blanks", lambda e, b, a: e.replace(" ", "  ")),
    ("x:cr-end", lambda e, b, a: e + "\r"),
    ("x:invisible-end", lambda e, b, a: e + "\u200b"),
    ("x:formfeed-end", lambda e, b, a: e + "\x0c"),
    ("x:bom-start", lambda e, b, a: "\ufeff" + e),
    ("x:swapcase", lambda e, b, a: e.swapcase()),
    ("x:percent-doubled", lambda e, b, a: "%" + e),
    ("x:prefix-only", lambda e, b, a: b),
    ("x:suffix-only", lambda e, b, a: a),
    ("x:no-count", lambda e, b, a: b + a),
    ("x:thrice", lambda e, b, a: e + "\n" + e + "\n\n" + e),
    ("x:exact-then-blank-line", lambda e, b, a: e + "\n"),
]
EXTRA_LABELS = [lab for lab, _ in EXTRA_COUNTS] + [lab for lab, _ in EXTRA_TEXTS]
LABELS = _SELFREF_LABELS + EXTRA_LABELS
# the variants a change that compares, cuts out or converts the count is most likely to stumble over
KEY_LABELS = ["exact", "n-1", "n+1", "zero", "huge", "negative", "superscript", "x:subscript", "circled", "arabic-indic", "fullwidth",
              "x:long-digits", "x:underscore", "empty-count", "word", "upper", "trailing-blank", "leading-blank", "twice",
              "template-itself", "no-period", "x:digit-then-superscript", "x:cr-end", "x:prefix-only"]
NEAR_LABELS = ["n-1", "n+1", "zero", "superscript", "upper", "template-itself", "exact"]


# ------------------------------------------------------------------------------------------------------------------ rendering
def _lib():
    import bibtexparser
    return bibtexparser


def make_format(spec):
    """the BibtexFormat of a recipe, built through its public setters; None = the library's default (no argument passed)"""
    if not spec:
        return None
    f = _lib().BibtexFormat()
    if "pfc" in spec:
        f.parsing_failed_comment = spec["pfc"]
    if "sep" in spec:
        f.block_separator = spec["sep"]
    if "indent" in spec:
        f.indent = spec["indent"]
    if "col" in spec:
        f.value_column = spec["col"]
    if "tc" in spec:
        f.trailing_comma = bool(spec["tc"])
    return f


class _Tpl:
    """stand-in with the one attribute selfref.warning_lines reads, for rendering without the library (the preview)"""
    def __init__(self, tpl):
        self.parsing_failed_comment = tpl


_VAR_CACHE = {}


def variants(n, fmt):
    """label -> text: selfref.warning_lines(n, fmt) plus the EXTRA variants, for the template of `fmt` (None: the tree's default)"""
    tpl = fmt.parsing_failed_comment if fmt is not None else _default_template()
    key = (n, tpl)
    if key in _VAR_CACHE:
        return _VAR_CACHE[key]
    d = {}
    for lab, t in selfref.warning_lines(n, _Tpl(tpl)):
        d[lab] = t

    def f(k):
        try:
            return tpl.format(n=k)
        except Exception:  # noqa: BLE001 - a count the template's format spec does not take: the bare template, as selfref does
            return tpl
    exact = d.get("exact", f(n))
    mark = "\ue002"
    filled = f(mark)
    before, found, after = filled.partition(mark)
    if not found:
        before, after = filled, ""
    for lab, fn in EXTRA_COUNTS:
        d[lab] = f(fn(n))
    for lab, fn in EXTRA_TEXTS:
        d[lab] = fn(exact, before, after)
    if len(_VAR_CACHE) > 400:
        _VAR_CACHE.clear()
    _VAR_CACHE[key] = d
    return d


_DEFAULTS = None


def _defaults():
    """(template, separator, indent, VAL_SEP) of the tree under test, through public names; the pinned values when unreadable"""
    global _DEFAULTS
    if _DEFAULTS is None:
        tpl, sep, ind, vs = "% WARNING Parsing failed for the following {n} lines.", "\n\n", "\t", " = "
        try:
            f = _lib().BibtexFormat()
            tpl, sep, ind = f.parsing_failed_comment, f.block_separator, f.indent
            import bibtexparser.writer as W
            v = getattr(W, "VAL_SEP", vs)
            vs = v if isinstance(v, str) else vs
        except Exception:  # noqa: BLE001
            pass
        _DEFAULTS = tuple(x if isinstance(x, str) else y for x, y in
                          zip((tpl, sep, ind, vs), ("% WARNING Parsing failed for the following {n} lines.", "\n\n", "\t", " = ")))
    return _DEFAULTS


def _default_template():
    return _defaults()[0]


def warning_text(label, n, fmt):
    d = variants(n, fmt)
    return d[label] if label in d else d["exact"]        # selfref drops a variant whose text equals an earlier one's


def _atom(seg, n, wfmt, wsep):
    """text of one recipe segment"""
    if isinstance(seg, str):
        return seg
    kind = seg[0]
    if kind == "w":
        return CONTAINER_BY_NAME[seg[2]].replace("\x01", warning_text(seg[1], n, wfmt))
    if kind == "sep":
        return wsep if wsep is not None else _defaults()[1]
    if kind == "indent":
        return _defaults()[2]
    if kind == "valsep":
        return _defaults()[3]
    if kind == "tpl":
        return _default_template()
    if kind == "magic":
        words = selfref.magic_for_tree()
        return words[seg[1] % len(words)]
    if kind == "t":
        return seg[1]
    raise ValueError(seg)


def render(segs, n, wfmt, wsep):
    """-> (text, offset of the first target segment or None)"""
    out, off, pos = [], None, 0
    for seg in segs:
        s = _atom(seg, n, wfmt, wsep)
        if not isinstance(seg, str) and seg[0] == "t" and off is None:
            off = pos
        out.append(s)
        pos += len(s)
    return "".join(out), off


def _target_text(segs):
    for seg in segs:
        if not isinstance(seg, str) and seg[0] == "t":
            return seg[1]
    return None


def static_n(segs):
    t = _target_text(segs)
    return max(1, len(t.splitlines())) if t else 1


_PROBE_CACHE = {}


def probe_n(segs, wfmt, wsep):
    """the number of lines of the raw text of the failed block the target becomes in this document (None: it does not fail).
    The document is probed with the EXACT sentence at every warning (the variants differ from it in the count and in blanks,
    which do not move block boundaries), so that one probe serves all variants of the same document."""
    import implutil
    tgt = _target_text(segs)
    if not tgt:
        return None
    # (the drawn lead - segs[0], well-formed blocks or blank lines - is left out for the same reason)
    probe = [seg if isinstance(seg, str) or seg[0] != "w" else ["w", "exact", seg[2]] for seg in segs[1:]]
    text, _ = render(probe, static_n(segs), wfmt, wsep)
    if text in _PROBE_CACHE:
        return _PROBE_CACHE[text]
    n = None
    r = implutil.guarded(lambda: _lib().parse_string(text))
    if r[0] == "ok":
        try:
            head = tgt.rstrip()
            for b in r[1].failed_blocks:
                raw = b.raw
                if isinstance(raw, str) and raw.strip() and (raw.startswith(head) or head.startswith(raw.rstrip())):
                    n = len(raw.splitlines())
                    break
        except Exception:  # noqa: BLE001 - the probe only chooses n; the case itself is judged by the oracle
            n = None
    if len(_PROBE_CACHE) > 2000:
        _PROBE_CACHE.clear()
    _PROBE_CACHE[text] = n
    return n


def _wfmt(spec):
    """the format whose template the warnings IN THE TEXT follow"""
    f = spec.get("fmt")
    if spec.get("wtpl") == "fmt" and f and "pfc" in f:
        return _Tpl(f["pfc"])
    return None


def _wsep(spec):
    f = spec.get("fmt")
    return f["sep"] if f and "sep" in f and spec.get("wtpl") == "fmt" else None


def preview(spec):
    """the text as the pinned tree would make it, without running the library (families perturbed / cycles: the base document)"""
    try:
        segs = spec["segs"]
        return render(segs, static_n(segs), _wfmt(spec), _wsep(spec))[0]
    except Exception:  # noqa: BLE001
        return ""


def _perturb(out, fmt, label, which):
    """every warning sentence in `out` (the template of `fmt` filled with a count) replaced by its variant `label`"""
    tpl = fmt.parsing_failed_comment if fmt is not None else _default_template()
    nl = out.count("\n") + 2
    found = []
    try:
        filled = {k: tpl.format(n=k) for k in range(nl + 1)}
    except Exception:  # noqa: BLE001 - a default template of the tree under test that str.format does not take
        return out, 0
    counts = [1] if filled[0] == filled[1] else range(nl, -1, -1)
    for k in counts:                                     # large counts first: "failed: 1" is the beginning of "failed: 12"
        w = filled[k]
        if w and w in out:
            mark = "\ue000%d\ue001" % k
            if which == "all":
                out = out.replace(w, mark)
            elif which == "first":
                out = out.replace(w, mark, 1)
            else:
                i = out.rfind(w)
                out = out[:i] + mark + out[i + len(w):]
            found.append(k)
    for k in found:
        out = out.replace("\ue000%d\ue001" % k, warning_text(label, k, fmt))
    return out, len(found)


def _fmt_kind(f):
    if not f:
        return "default"
    return "+".join(name for name, keys in (("template", ("pfc",)), ("separator", ("sep",)), ("layout", ("indent", "col", "tc")))
                    if any(k in f for k in keys))


def build(spec):
    """recipe -> (text or None, tags, failure detail or None, pieces for the incremental run or None).  Runs in the child."""
    import implutil
    fam = spec["family"]
    tags = ["self:family=" + fam] + ["self:%s=%s" % (k, spec[k]) for k in ("target", "place", "container", "label", "slot", "piece", "doc")
                                     if spec.get(k) is not None]
    tags.append("self:cycles=%d" % spec.get("cycles", 1))
    if "fmt2" in spec:
        tags.append("self:format=alternating:%s/%s" % tuple("custom" if spec.get(k) else "default" for k in ("fmt", "fmt2")))
    else:
        tags.append("self:format=" + _fmt_kind(spec.get("fmt")))
    for k in ("fmt", "fmt2"):
        if spec.get(k) and spec[k].get("pfc") in TEMPLATES:
            tags.append("self:template=%d:%s" % (TEMPLATES.index(spec[k]["pfc"]), spec[k]["pfc"][:24].replace("\n", "\\n")))
    if fam == "placed" and spec.get("fmt") and "pfc" in spec["fmt"]:
        tags.append("self:sentence-in-text-follows=" + ("the-format's-template" if spec.get("wtpl") == "fmt" else "the-default-template"))
    segs = spec["segs"]
    wfmt, wsep = _wfmt(spec), _wsep(spec)
    if fam == "placed":
        n = probe_n(segs, wfmt, wsep) if spec.get("fails") else None
        tags.append("self:n=" + ("probed" if n is not None else "lines-of-target"))
        if n is None:
            n = static_n(segs)
        tags.append("self:n-digits=%d" % len(str(n)))
        text, off = render(segs, n, wfmt, wsep)
        pieces = None
        if spec.get("inc") and off:
            # cut in front of the target, or in front of the warning when the target comes first
            pieces = [text[:off], text[off:]]
        return text, tags, None, pieces
    text, _ = render(segs, static_n(segs), wfmt, wsep)
    if fam == "perturbed":
        fmt = make_format(spec.get("fmt"))
        lib = _lib()
        w = implutil.guarded(lambda: lib.write_string(lib.parse_string(text)) if fmt is None
                             else lib.write_string(lib.parse_string(text), bibtex_format=fmt))
        if w[0] == "exc":
            return None, tags, "write_string(parse_string(text)) raised %s on the base document %r" % (w[2], text[:300]), None
        if not isinstance(w[1], str):
            return None, tags, "write_string returned %s on the base document %r" % (type(w[1]).__name__, text[:300]), None
        out, k = _perturb(w[1], fmt, spec["label"], spec.get("which", "all"))
        tags.append("self:warnings-found-in-own-output=%s" % (k if k < 3 else "3+"))
        return out, tags, None, None
    return text, tags, None, None


# ------------------------------------------------------------------------------------------------------------------ oracle
def _show(t):
    return repr(t if len(t) <= 400 else t[:300] + " ...[%d characters]... " % (len(t) - 360) + t[-60:])


def _observe(lib, fmt):
    """which situation the parse produced (for the distribution): the library's exact sentence directly above a failed block?"""
    tpl = fmt.parsing_failed_comment if fmt is not None else _default_template()
    tags = set()
    try:
        bs = lib.blocks
        for prev, cur in zip(bs, bs[1:]):
            if type(prev).__name__ == "ImplicitComment" and hasattr(cur, "error") and isinstance(cur.raw, str):
                last = prev.comment.rstrip().rpartition("\n")[2].strip()
                try:
                    want = tpl.format(n=len(cur.raw.splitlines()))
                except Exception:  # noqa: BLE001
                    want = tpl
                head = tpl.partition("{")[0].strip()
                if last == want.strip():
                    tags.add("self:obs=own-exact-sentence-directly-above-failed-block")
                elif head and last.lower().replace("\xa0", " ").startswith(head.lower()[:12]):
                    tags.add("self:obs=near-miss-sentence-directly-above-failed-block")
        n = len(lib.failed_blocks)
        tags.add("self:obs=failed-blocks:%s" % (n if n < 3 else "3+"))
    except Exception:  # noqa: BLE001 - observation only
        pass
    return tags


def judge(text, spec, pieces=None, first_split=None):
    """C01 on every parse and every write of every cycle.  -> (ok, detail, tags).  `first_split` = the guarded
    parse_string(text, parse_stack=[]) when the caller has it already; under a custom format the library of the first cycle is
    written with the default format too."""
    import implutil
    import splitcommon as SC
    lib_mod = _lib()
    Library = lib_mod.Library
    specs = [spec.get("fmt")] + ([spec["fmt2"]] if "fmt2" in spec else [])
    cycles = spec.get("cycles", 1)
    cur, tags = text, set()
    for i in range(cycles):
        fs = specs[i % len(specs)]
        where = "cycle %d of %d, %s, input of this cycle %s" % (i + 1, cycles, "format " + repr(fs) if fs else "default format", _show(cur))
        parts = pieces if (i == 0 and pieces) else [cur]
        lib, expected = None, 0
        for p in parts:
            s = first_split if (i == 0 and first_split is not None and not pieces) else SC.split_impl(p)
            if s[0] == "exc":
                return False, "parse_string(text, parse_stack=[]) raised %s at %s" % (s[2], where), tags
            expected += len(s[1].blocks)
            r = implutil.guarded((lambda p=p: lib_mod.parse_string(p)) if lib is None else (lambda p=p: lib_mod.parse_string(p, library=lib)))
            if r[0] == "exc":
                return False, "parse_string raised %s at %s" % (r[2], where), tags
            lib = r[1]
            if not isinstance(lib, Library):
                return False, "parse_string returned %s at %s" % (type(lib).__name__, where), tags
        for b in lib.failed_blocks:
            if not isinstance(b.raw, str) or not isinstance(b.error, Exception):
                return False, "failed block without raw text or error: %r at %s" % (b, where), tags
            if not any(b.raw in ("\n" + p) for p in parts):
                return False, "the raw text %s of a failed block does not occur in the text parsed, at %s" % (_show(b.raw), where), tags
        if len(lib.blocks) != expected:
            return False, "the text splits into %d blocks, the library holds %d at %s" % (expected, len(lib.blocks), where), tags
        fmt = make_format(fs)
        if i == 0:
            tags |= _observe(lib, fmt)
        w = implutil.guarded((lambda: lib_mod.write_string(lib)) if fmt is None else (lambda: lib_mod.write_string(lib, bibtex_format=fmt)))
        if w[0] == "exc":
            return False, "write_string raised %s at %s" % (w[2], where), tags
        if not isinstance(w[1], str):
            return False, "write_string returned %s at %s" % (type(w[1]).__name__, where), tags
        cur = w[1]
        if i == 0 and fmt is not None:
            w = implutil.guarded(lambda: lib_mod.write_string(lib))
            if w[0] == "exc":
                return False, "write_string (default format) raised %s at %s" % (w[2], where), tags
            if not isinstance(w[1], str):
                return False, "write_string (default format) returned %s at %s" % (type(w[1]).__name__, where), tags
    return True, "", tags


# ------------------------------------------------------------------------------------------------------------------ generation
def _fmt_pool(rng):
    """a custom format: (name, spec)"""
    r = rng.random()
    if r < 0.55:
        i = rng.randrange(len(TEMPLATES))
        return "tpl%d" % i, {"pfc": TEMPLATES[i]}
    if r < 0.7:
        i = rng.randrange(len(SEPARATORS))
        return "sep%d" % i, {"sep": SEPARATORS[i]}
    if r < 0.8:
        return "layout", {"indent": rng.choice(INDENTS), "col": rng.choice(COLUMNS), "tc": rng.choice([0, 1])}
    i, j = rng.randrange(len(TEMPLATES)), rng.randrange(len(SEPARATORS))
    return "tpl%d+sep%d" % (i, j), {"pfc": TEMPLATES[i], "sep": SEPARATORS[j], "indent": rng.choice(INDENTS + ["\t"]),
                                    "col": rng.choice(COLUMNS + [0]), "tc": rng.choice([0, 1])}


def placed(rng, target, place, container, label, fmt=None, fmtname="default", wtpl="fmt", cycles=1, inc=False, label2=None,
           lead=None, trail=None):
    name, pre, ttext, last = target
    segs = [rng.choice(LEADS) if lead is None else lead]
    if pre:
        segs.append(pre)
    pieces = PLACEMENT_BY_NAME[place]
    for k, p in enumerate(pieces):
        if p == "W":
            segs.append(["w", label, container])
        elif p == "W2":
            segs.append(["w", label2 or rng.choice(NEAR_LABELS), container])
        elif p == "T":
            segs.append(["t", ttext])      # an unterminated target swallows what follows it: that too is a case of the class
        else:
            segs.append(p)
    if not (last and pieces[-1] == "T"):
        segs.append(rng.choice(TRAILS) if trail is None else trail)
    elif rng.random() < 0.3:
        segs.append(rng.choice(["\n", "\n\n"]))
    spec = {"family": "placed", "segs": segs, "target": name, "place": place, "container": container, "label": label,
            "fmtname": fmtname, "cycles": cycles, "fails": 1 if target in FAILING else 0, "wtpl": wtpl}
    if fmt:
        spec["fmt"] = fmt
    if inc:
        spec["inc"] = 1
    return spec


def base_docs(rng, n_random):
    """(name, text): documents with failed blocks of every kind - one per failing target, then mixtures and mutated grammar documents"""
    import gens_split as G
    docs = []
    for name, pre, t, last in FAILING:
        docs.append((name, rng.choice(LEADS) + pre + t + ("" if last else rng.choice(TRAILS))))
    for k in range(n_random):
        if k % 3 == 2:
            docs.append(("mutated-grammar-document", G.mutate(rng, G.gen_doc(rng)[0])))
            continue
        parts, lastone, pres = [], None, set()
        for _ in range(rng.randint(2, 5)):
            name, pre, t, last = rng.choice(FAILING if rng.random() < 0.6 else VALID)
            if last:
                lastone = t
                continue
            if pre and pre not in pres:
                pres.add(pre)
                parts.append(pre.rstrip("\n"))
            parts.append(t)
        if lastone and rng.random() < 0.7:
            parts.append(lastone)
        elif lastone:
            parts.insert(rng.randrange(len(parts) + 1), lastone)
        sep = rng.choice(["\n\n", "\n\n", "\n", "\n\n\n", " ", "\r\n"])
        docs.append(("mixture", sep.join(parts)))
    return docs


def generate(rng, tier):
    thorough = tier != "quick"
    specs = []
    # ---- placed 1: every failing target x directly above / one blank line above x EVERY variant, free text, default format
    odd = [lab for lab in LABELS if lab.startswith("x:odd:")]
    for ti, target in enumerate(FAILING):
        for place in CLOSE:
            for label in (LABELS if thorough or place == "above" else KEY_LABELS):
                # quick: of the single odd digit characters, three per target in rotation (every one of them over the targets)
                if not thorough and label in odd and (odd.index(label) - 3 * ti) % len(odd) >= 3:
                    continue
                # directly above: at the very beginning of the text, as in a file the library wrote; a blank line above: drawn
                specs.append(placed(rng, target, place, "free", label, lead="" if place == "above" else None))
    # ---- placed 2: every valid target x above / blank above / below x the key variants
    for target in VALID:
        for place in ("above", "blank-above", "below"):
            for label in (LABELS if thorough else KEY_LABELS[:12]):
                specs.append(placed(rng, target, place, "free", label))
    # ---- placed 3: every placement x every container x every target, variants drawn
    for place, _ in PLACEMENTS:
        for container, _ in CONTAINERS:
            for target in TARGETS:
                if not thorough and rng.random() < 0.75:
                    continue
                for _ in range(3 if thorough else 1):
                    specs.append(placed(rng, target, place, container, rng.choice(KEY_LABELS if rng.random() < 0.7 else LABELS),
                                        cycles=rng.choice([1, 1, 2])))
    # ---- placed 4: every custom template x every failing target, the text following that template: exact + drawn variants
    for i, tpl in enumerate(TEMPLATES):
        for target in FAILING:
            labels = ["exact"] + ([rng.choice(KEY_LABELS[1:]) for _ in range(4)] if thorough else []) + [rng.choice(LABELS[1:])]
            for label in labels:
                specs.append(placed(rng, target, rng.choice(CLOSE) if label != "exact" else "above", "free", label,
                                    fmt={"pfc": tpl}, fmtname="tpl%d" % i, cycles=rng.choice([1, 2])))
    # ---- placed 5: everything drawn, incl. other format settings, the default sentence under a custom format, incremental pieces
    for _ in range(30000 if thorough else 700):
        target = rng.choice(FAILING) if rng.random() < 0.75 else rng.choice(VALID)
        place = rng.choice(CLOSE) if rng.random() < 0.45 else rng.choice(PLACEMENTS)[0]
        container = "free" if rng.random() < 0.6 else rng.choice(CONTAINERS)[0]
        label = rng.choice(KEY_LABELS) if rng.random() < 0.6 else rng.choice(LABELS)
        fmtname, fmt = ("default", None) if rng.random() < 0.4 else _fmt_pool(rng)
        specs.append(placed(rng, target, place, container, label, fmt=fmt, fmtname=fmtname,
                            wtpl="fmt" if rng.random() < 0.8 else "default", cycles=rng.choice([1, 1, 2, 3]),
                            inc=rng.random() < 0.12))
    # ---- perturbed: the tree's own output with its warning sentences replaced
    docs = base_docs(rng, 60 if thorough else 12)
    for name, text in docs:
        for label in (LABELS if thorough else KEY_LABELS[1:16]):
            specs.append({"family": "perturbed", "segs": [text], "doc": name, "label": label, "fmtname": "default", "cycles": 1,
                          "which": "all"})
    for _ in range(8000 if thorough else 300):
        name, text = rng.choice(docs)
        fmtname, fmt = ("default", None) if rng.random() < 0.3 else _fmt_pool(rng)
        spec = {"family": "perturbed", "segs": [text], "doc": name, "label": rng.choice(KEY_LABELS[1:] if rng.random() < 0.6 else LABELS[1:]),
                "fmtname": fmtname, "cycles": rng.choice([1, 1, 2]), "which": rng.choice(["all", "all", "first", "last"])}
        if fmt:
            spec["fmt"] = fmt
        specs.append(spec)
    # ---- cycles: parse -> write -> parse -> write ... 2, 3, 4 times
    docs = docs + base_docs(rng, 120 if thorough else 30)[len(FAILING):]
    for name, text in docs:
        for cycles in (2, 3, 4):
            for k in range(3 if thorough else 2):
                spec = {"family": "cycles", "segs": [text], "doc": name, "cycles": cycles, "fmtname": "default"}
                r = rng.random()
                if k == 0 and cycles != 3:
                    pass                                   # the default format every time
                elif r < 0.5:
                    spec["fmtname"], spec["fmt"] = _fmt_pool(rng)
                elif r < 0.75:
                    n2, spec["fmt2"] = _fmt_pool(rng)
                    spec["fmtname"] = "default/" + n2
                else:
                    n1, spec["fmt"] = _fmt_pool(rng)
                    n2, spec["fmt2"] = _fmt_pool(rng)
                    spec["fmtname"] = n1 + "/" + n2
                specs.append(spec)
    # ---- slots: separator / indent / VAL_SEP / template / an exact warning as text in every slot of a document
    pieces = [("sep", [["sep"]]), ("indent", [["indent"]]), ("valsep", [["valsep"]]), ("sep-sep", [["sep"], ["sep"]]),
              ("indent-valsep", [["indent"], ["valsep"]]), ("valsep-sep", [["valsep"], ["sep"]]), ("template", [["tpl"]]),
              ("warning", [["w", "exact", "free"]]), ("word-valsep-word", ["a", ["valsep"], "b"]), ("indent-word", [["indent"], "a"])]
    for slot, tmpl, valuelike in c01_blank.SLOTS:
        for pname, psegs in pieces:
            for how in (("bare", "braced", "quoted") if valuelike else ("bare",)):
                if not thorough and how != "bare" and rng.random() < 0.5:
                    continue
                specs.append({"family": "slots", "segs": _fill(tmpl, psegs, how), "slot": slot, "piece": pname + ":" + how,
                              "fmtname": "default", "cycles": 1})
    # ---- magic: the words the library reserves, emits or compares with, in those slots
    n_magic = len(selfref.MAGIC_WORDS) + 140
    for i in range(n_magic):
        for _ in range(6 if thorough else 2):
            slot, tmpl, valuelike = rng.choice(c01_blank.SLOTS)
            how = rng.choice(["bare", "braced", "quoted"]) if valuelike else "bare"
            specs.append({"family": "magic", "segs": _fill(tmpl, [["magic", i]], how), "slot": slot, "piece": how,
                          "fmtname": "default", "cycles": 1})
    # ---- cases
    cases, k = [], 0
    for spec in specs:
        inp = {"text": preview(spec), "self": spec}
        if spec.get("inc"):
            cases.append({"stream": "W-inc", "input": inp})
            continue
        cases.append({"stream": "W", "input": inp})
        if "fmt" not in spec and "fmt2" not in spec and spec["family"] != "cycles":
            k += 1
            if k % 8 == 0:
                cases.append({"stream": "P-W", "input": dict(inp, pipe=1)})
    return cases


def _fill(tmpl, psegs, how):
    """the slot template with the piece (recipe segments) at every \\x01, wrapped"""
    pre, post = {"bare": ("", ""), "braced": ("{", "}"), "quoted": ('"', '"')}[how]
    parts = tmpl.split("\x01")
    segs = []
    for i, p in enumerate(parts):
        if p:
            segs.append(p)
        if i < len(parts) - 1:
            if pre:
                segs.append(pre)
            segs.extend(psegs)
            if post:
                segs.append(post)
    return segs
