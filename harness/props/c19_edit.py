"""C19, caller edits of the public objects BETWEEN mapping operations (streams edit-exh, edit-field, edit-list).

The property: `fields`, `fields_dict` and `items()` ALWAYS describe the same fields in the same order, and the keyed
accessors give the results of an insertion-ordered dict holding exactly these fields.  Everything the entry hands out
is public and mutable: the `Field` objects (`Field.key` and `Field.value` have setters), the list `entry.fields`, and the
`fields` attribute itself (it has a setter).  An implementation that remembers anything between two calls (a key ->
position index, a cached `fields_dict`, a cached key list) keeps every test green and every pure operation sequence
right, and goes wrong only when the caller has edited one of these objects since the last lookup - above all when the
edit keeps the LENGTH of the list (rename, replace by index, remove + append, insert + pop, same-length slice assignment,
reverse, sort, swap), because the cheap staleness tests look at the length.

A case: a start entry (constructed, a trivial subclass, parsed with the raw or the default stack) and a list of steps
    ["op", op, chk]             one of the seven mapping operations (op as made by c19.mk_op), judged by the reference dict
    ["ed", kind, args, chk]     a caller edit (FIELD_KINDS: through the Field objects; LIST_KINDS: through the list /
                                the fields setter), see apply_edit
    ["views", chk]              fields / fields_dict / items() are read and compared (a lookup through fields_dict)
chk says what is compared AFTER the step: "full" (c19.entry_vs_dict: views and all keyed accessors on every present and
many absent keys), "views" (the three views only) or "none" (nothing is asked, so that the next step meets whatever the
edit left behind); the end of a case is always "full".  The generator keeps a shadow of the key order (the property
determines it) so that it can aim the next lookups / writes at the NEW key, the OLD key and the keys that moved.

Verdict: the reference is a dict key -> Field object.  After an edit through Field objects the dict is re-keyed from the
objects it holds (the entry held exactly these objects and no mapping operation happened); after an edit through the
list it is re-read from `e.fields` (the convention of the `edit` steps of the odd-* streams: what such an edit does to
the entry is not the property's business, that all accessors afterwards describe what `e.fields` shows is).  An edit that
would leave duplicate or reserved keys is not made (the hypothesis of the property).  Cases whose edits all go through
Field objects are executed a second time on fresh objects and recorded for Model/EntryObj.v (op 25: the model has
writes to the key and the value of a stored object, it has no list edits); the others are judged by the Python oracle alone.
"""
import json

EKEYS = ["a", "A", "b", "ab", "title", "Title", "year", "note", "x", "journal", "journaltitle", "Journal"]
EVALS = ["s", "", {"int": 3}, "ß", None, {"list": ["x", "y"]}, "v", {"int": 0}]
E_TYPES = ["article", "Book", "misc", "inProceedings"]
STARTS = ["built", "built", "sub", "parsed-raw", "parsed-default"]
VIAS = ["get", "dict", "list", "held"]
FIELD_KINDS = ["rename", "value", "swapkeys"]
LIST_KINDS = ["setidx", "setidx-samekey", "remove_append", "remove_append-samekey", "insert_pop", "pop_insert", "move",
              "swap", "slice-same", "slice-perm", "slice-diff", "reverse", "sort", "assign-copy", "assign-rotate",
              "assign-reversed", "assign-sorted", "assign-drop", "assign-replace", "assign-fresh", "append", "insert",
              "del", "delslice", "extend", "iadd", "clear"]
LENGTH_CHANGING = {"slice-diff", "assign-drop", "assign-fresh", "append", "insert", "del", "delslice", "extend", "iadd", "clear"}
THROUGH_SETTER = {"assign-copy", "assign-rotate", "assign-reversed", "assign-sorted", "assign-drop", "assign-replace",
                  "assign-fresh", "iadd"}
SORTS = {
    "key": (lambda k: k, False),
    "key-desc": (lambda k: k, True),
    "casefold": (lambda k: k.casefold(), False),
    "len-key": (lambda k: (len(k), k), False),
    "swapcase": (lambda k: k.swapcase(), False),
    "last-char": (lambda k: k[-1:], True),
}
O_NAMES = ["set_field", "setitem", "pop", "del", "get", "in", "getitem"]


# ------------------------------------------------------------------ one semantics for the shadow and for the real list
def mutate(lst, kind, a, objs, keyof):
    """Apply the list edit to lst (elements: keys in the generator's shadow, Field objects in the child).  In-place kinds
    return lst itself, the kinds that go through the `fields` setter return the new list.  objs: the new elements."""
    if kind in ("setidx", "setidx-samekey"):
        lst[a["i"]] = objs[0]
    elif kind in ("remove_append", "remove_append-samekey"):
        x = lst[a["i"]]
        lst.remove(x)
        lst.append(objs[0])
    elif kind == "insert_pop":
        lst.insert(a["i"], objs[0])
        lst.pop(a["j"])
    elif kind == "pop_insert":
        lst.pop(a["j"])
        lst.insert(a["i"], objs[0])
    elif kind == "move":
        lst.insert(a["j"], lst.pop(a["i"]))
    elif kind == "swap":
        i, j = a["i"], a["j"]
        lst[i], lst[j] = lst[j], lst[i]
    elif kind in ("slice-same", "slice-diff"):
        lst[a["i"]:a["j"]] = objs
    elif kind == "slice-perm":
        seg = lst[a["i"]:a["j"]]
        lst[a["i"]:a["j"]] = [seg[p] for p in a["perm"]]
    elif kind == "reverse":
        lst.reverse()
    elif kind == "sort":
        fn, rev = SORTS[a["how"]]
        lst.sort(key=lambda x: fn(keyof(x)), reverse=rev)
    elif kind == "assign-copy":
        return list(lst)
    elif kind == "assign-rotate":
        return lst[1:] + lst[:1]
    elif kind == "assign-reversed":
        return lst[::-1]
    elif kind == "assign-sorted":
        return sorted(lst, key=keyof)
    elif kind == "assign-drop":
        return lst[:a["i"]] + lst[a["i"] + 1:]
    elif kind == "assign-replace":
        return lst[:a["i"]] + [objs[0]] + lst[a["i"] + 1:]
    elif kind == "assign-fresh":
        return list(objs)
    elif kind == "append":
        lst.append(objs[0])
    elif kind == "insert":
        lst.insert(a["i"], objs[0])
    elif kind == "del":
        del lst[a["i"]]
    elif kind == "delslice":
        del lst[a["i"]:a["j"]]
    elif kind == "extend":
        lst.extend(objs)
    elif kind == "iadd":
        return lst + list(objs)          # the child writes `e.fields += objs`: getter, list.__iadd__, setter
    elif kind == "clear":
        lst.clear()
    else:
        raise ValueError("unknown edit kind %r" % (kind,))
    return lst


# ------------------------------------------------------------------ generator
class EditGen:
    """The steps of one case and the shadow of the key order."""

    def __init__(self, rng, keys):
        self.rng = rng
        self.keys = list(keys)
        self.steps = []
        self.line = 200
        self.tag = 0
        self.new, self.old, self.moved = [], [], []

    # ---- helpers
    def fresh_key(self, avoid):
        rng = self.rng
        variants = [k.swapcase() for k in self.keys if k.swapcase() != k and k.swapcase() not in avoid]
        if variants and rng.random() < 0.25:
            return rng.choice(variants)
        cands = [k for k in EKEYS if k not in avoid]
        if cands and rng.random() < 0.9:
            return rng.choice(cands)
        n = 0
        while "n%d" % n in avoid:
            n += 1
        return "n%d" % n

    def newf(self, k):
        self.line += 1
        return [k, self.rng.choice(EVALS), self.line]

    def fresh_fields(self, m, avoid):
        avoid = set(avoid)
        out = []
        for _ in range(m):
            k = self.fresh_key(avoid)
            avoid.add(k)
            out.append(self.newf(k))
        return out

    def chk(self, weights=(0.5, 0.2, 0.3)):
        p = self.rng.random()
        return "none" if p < weights[0] else "views" if p < weights[0] + weights[1] else "full"

    def focus(self, before):
        after = self.keys
        self.new = [k for k in after if k not in before]
        self.old = [k for k in before if k not in after]
        self.moved = [k for k in after if k in before and after.index(k) != before.index(k)]

    # ---- steps
    def op(self, code, k, chk=None):
        from props import c19 as base
        self.tag += 1
        op = base.mk_op(code, k, 300 + self.tag)
        if code in (base.O_SETFIELD, base.O_SETITEM) and self.rng.random() < 0.4:
            op[2] = self.rng.choice(EVALS)
        if code in (base.O_SETFIELD, base.O_SETITEM):
            if k not in self.keys:
                self.keys.append(k)
        elif code in (base.O_POP, base.O_DEL):
            if k in self.keys:
                self.keys.remove(k)
        self.steps.append(["op", op, chk or self.chk()])

    def views(self, chk=None):
        self.steps.append(["views", chk or self.chk()])

    def edit(self, kind, chk=None):
        """Append one edit of the given kind (False when the kind does not apply to the entry as it is now)."""
        rng = self.rng
        keys = self.keys
        n = len(keys)
        before = list(keys)
        a, specs = {}, []
        if kind in FIELD_KINDS:
            if n < (2 if kind == "swapkeys" else 1):
                return False
            a["via"] = rng.choice(VIAS)
            i = rng.randrange(n)
            a["i"], a["old"] = i, keys[i]
            if kind == "rename":
                a["new"] = self.fresh_key(set(keys))
                keys[i] = a["new"]
            elif kind == "value":
                a["v"] = rng.choice(EVALS + ["w%d" % self.line])
                self.line += 1
            else:
                j = rng.choice([x for x in range(n) if x != i])
                a["j"], a["old2"] = j, keys[j]
                keys[i], keys[j] = keys[j], keys[i]
            self.focus(before)
            if kind == "value":
                self.moved = [a["old"]]
            self.steps.append(["ed", kind, a, chk or self.chk()])
            return True
        # ---- through the list / the setter
        need = {"setidx": 1, "setidx-samekey": 1, "remove_append": 1, "remove_append-samekey": 1, "insert_pop": 1,
                "pop_insert": 1, "move": 2, "swap": 2, "slice-same": 1, "slice-perm": 2, "reverse": 2, "sort": 2,
                "assign-rotate": 2, "assign-reversed": 2, "assign-sorted": 2, "assign-drop": 1, "assign-replace": 1,
                "del": 1, "delslice": 1, "clear": 1}
        if n < need.get(kind, 0):
            return False
        neg = rng.random() < 0.2          # negative indexes are ordinary list usage
        if kind in ("setidx", "assign-replace"):
            i = rng.randrange(n)
            a["i"] = i - n if neg and kind == "setidx" else i
            specs = self.fresh_fields(1, set(keys))
        elif kind in ("setidx-samekey", "remove_append-samekey"):
            i = rng.randrange(n)
            a["i"] = i
            specs = [self.newf(keys[i])]          # another object with the same key
        elif kind == "remove_append":
            a["i"] = rng.randrange(n)
            specs = self.fresh_fields(1, set(keys))
        elif kind == "insert_pop":
            a["i"] = rng.choice([0, 0, n, rng.randint(0, n)])
            at = min(a["i"], n)
            a["j"] = rng.choice([-1, rng.randrange(n + 1)]) if at != n else rng.randrange(n)
            if a["j"] == at and n > 0:
                a["j"] = (at + 1) % (n + 1)
            specs = self.fresh_fields(1, set(keys))
        elif kind == "pop_insert":
            a["j"] = rng.choice([-1, 0, rng.randrange(n)])
            a["i"] = rng.randint(0, n - 1)
            specs = self.fresh_fields(1, set(keys))
        elif kind in ("move", "swap"):
            a["i"], a["j"] = rng.sample(range(n), 2)
        elif kind == "slice-same":
            i = rng.randrange(n)
            j = rng.randint(i + 1, min(n, i + 3))
            a["i"], a["j"] = i, j
            outside = set(keys[:i] + keys[j:])
            if j - i >= 2 and rng.random() < 0.3:
                specs = [self.newf(k) for k in reversed(keys[i:j])]          # new objects, the same keys in another order
            else:
                specs = self.fresh_fields(j - i, outside if rng.random() < 0.3 else set(keys))
        elif kind == "slice-perm":
            i = rng.randrange(n - 1)
            j = rng.randint(i + 2, min(n, i + 4))
            a["i"], a["j"] = i, j
            perm = list(range(j - i))
            while perm == list(range(j - i)):
                rng.shuffle(perm)
            a["perm"] = perm
        elif kind == "slice-diff":
            i = rng.randint(0, n)
            j = rng.randint(i, min(n, i + 2))
            m = rng.choice([x for x in (0, 1, 2, 3) if x != j - i])
            a["i"], a["j"] = i, j
            specs = self.fresh_fields(m, set(keys))
        elif kind == "sort":
            hows = sorted(SORTS)
            rng.shuffle(hows)
            a["how"] = hows[0]
            for h in hows:          # prefer an order that differs from the present one
                fn, rev = SORTS[h]
                if sorted(keys, key=fn, reverse=rev) != keys:
                    a["how"] = h
                    break
        elif kind in ("assign-drop", "del"):
            i = rng.randrange(n)
            a["i"] = i - n if neg and kind == "del" else i
        elif kind == "assign-fresh":
            pool = list(EKEYS)
            rng.shuffle(pool)
            specs = [self.newf(k) for k in pool[:rng.choice([0, 1, n, n, n, rng.randint(0, 5)])]]
        elif kind == "append":
            specs = self.fresh_fields(1, set(keys))
        elif kind == "insert":
            a["i"] = rng.choice([0, rng.randint(0, n), -1])
            specs = self.fresh_fields(1, set(keys))
        elif kind == "delslice":
            i = rng.randrange(n)
            a["i"], a["j"] = i, rng.randint(i + 1, min(n, i + 2))
        elif kind in ("extend", "iadd"):
            specs = self.fresh_fields(rng.choice([1, 1, 2]), set(keys))
        if specs:
            a["fs"] = specs
        if kind not in THROUGH_SETTER and rng.random() < 0.3:
            a["handle"] = "held"          # the list was taken from e.fields BEFORE the lookups that precede the edit
        res = mutate(list(keys), kind, a, [s[0] for s in specs], lambda k: k)
        if len(set(res)) != len(res):
            return False          # (cannot happen with fresh keys; the child would refuse the edit as well)
        self.keys = res
        self.focus(before)
        if kind.endswith("-samekey"):
            self.moved = self.moved or [specs[0][0]]
        self.steps.append(["ed", kind, a, chk or self.chk()])
        return True

    # ---- keys to aim at
    def pick(self, which):
        """A key of the wanted sort: 'new' (appeared with the last edit), 'old' (disappeared with it), 'moved' (changed
        position / object / value), 'present', 'absent'; falls back to the nearest sensible sort."""
        rng = self.rng
        absent = [k for k in EKEYS + ["zz", ""] if k not in self.keys]
        order = {"new": [self.new, self.moved, self.keys, absent], "old": [self.old, absent],
                 "moved": [self.moved, self.new, self.keys, absent], "present": [self.keys, absent],
                 "absent": [absent]}[which]
        for src in order:
            if src:
                return rng.choice(src)
        return "zz"


def rand_start(rng, nmax=6):
    n = rng.choice([1, 2, 3, 3, 4, 4, 5, rng.randint(0, nmax)])
    pool = list(EKEYS)
    rng.shuffle(pool)
    kind = rng.choice(STARTS)
    fields = []
    for j, k in enumerate(pool[:n]):
        fields.append([k, "v%d" % j if kind.startswith("parsed") else rng.choice(EVALS), j + 1])
    return {"start": kind, "type": rng.choice(E_TYPES), "key": rng.choice(["k", "k1", "smith2020"]), "fields": fields}


def fixed_start(which, kind):
    ks = [["a", "b", "ab"], ["A", "title", "a", "year"], ["journaltitle", "x"]][which % 3]
    return {"start": kind, "type": "article", "key": "k%d" % which, "fields": [[k, "v%d" % j, j + 1] for j, k in enumerate(ks)]}


WARM = [(c, t) for c in (4, 5, 6) for t in ("present", "new", "old")] + [("views", None), ("none", None)]
FOLLOW = [(c, t) for t in ("new", "old") for c in range(7)]


def edit_cases(rng, tier):
    """rng: the generator of these streams alone (a random.Random derived from the check's PRNG)"""
    from props import c19 as base
    quick = tier == "quick"
    cases = []

    def case(stream, start, g):
        return {"stream": stream, "input": {"edit": stream, "start": start, "steps": g.steps}}

    # a. every kind of edit x every kind of lookup before it x every operation on the new / the old key right after it
    #    (nothing is asked between the three, everything at the end); a second operation drawn at random
    n_exh = 0
    for rep in range(1 if quick else 6):
        for ki, kind in enumerate(FIELD_KINDS + LIST_KINDS):
            for wi, (wc, wt) in enumerate(WARM):
                for fi, (fc, ft) in enumerate(FOLLOW):
                    n_exh += 1
                    start = fixed_start(n_exh, STARTS[(n_exh // 3) % len(STARTS)]) if (n_exh + rep) % 2 == 0 else rand_start(rng)
                    g = EditGen(rng, [f[0] for f in start["fields"]])
                    kp = rng.choice(g.keys) if g.keys else "zz"
                    # the edit is drawn first on a clone: the lookup BEFORE it may aim at the key that will appear (absent
                    # now) or at the key that will go (present now); then it is drawn again, identically, on the case
                    probe = EditGen(rng, g.keys)
                    state = rng.getstate()
                    if not probe.edit(kind, "none"):
                        continue
                    rng.setstate(state)
                    if wc == "views":
                        g.views("none")
                    elif wc != "none":
                        # (an edit that brings / removes no key: the keys whose position, object or value it changes)
                        k = ((probe.new or probe.moved or [kp])[0] if wt == "new" else
                             (probe.old or probe.moved[::-1] or [kp])[0] if wt == "old" else kp)
                        g.op(wc, k, "none")
                    ok = g.edit(kind, "none")
                    assert ok and g.steps[-1] == probe.steps[-1], "generator: the edit drawn twice differs"
                    g.op(fc, g.pick(ft), rng.choice(["none", "none", "full"]))
                    if rng.random() < 0.6:
                        g.op(rng.randrange(7), g.pick(rng.choice(["new", "old", "moved", "present"])), "none")
                    cases.append(case("edit-exh", start, g))
    # b. random programs: rounds of (lookups, one or two edits, operations aimed at the new / old / moved keys)
    for stream, kinds, n_cases in (("edit-field", FIELD_KINDS, 500 if quick else 8000),
                                   ("edit-list", None, 900 if quick else 14000)):
        for _ in range(n_cases):
            start = rand_start(rng, 8)
            g = EditGen(rng, [f[0] for f in start["fields"]])
            for rnd in range(rng.choice([1, 1, 2, 2, 3, 4])):
                # lookups (the index / cache, if there is one, is warm when the edit comes)
                for _ in range(rng.choice([1, 1, 2, 3]) if rnd == 0 and rng.random() < 0.92 else rng.choice([0, 0, 1, 2])):
                    if rng.random() < 0.12:
                        g.views()
                    else:
                        g.op(rng.choice([4, 4, 5, 5, 6, 6, 0, 1, 2, 3]), g.pick(rng.choice(["present", "present", "absent", "old", "new"])))
                # the edit(s)
                for _ in range(rng.choice([1, 1, 1, 2])):
                    for attempt in range(6):
                        if kinds is not None:
                            kind = rng.choice(["rename", "rename", "rename", "value", "value", "swapkeys"])
                        elif rng.random() < 0.72:
                            kind = rng.choice([k for k in FIELD_KINDS + LIST_KINDS if k not in LENGTH_CHANGING])
                        else:
                            kind = rng.choice(sorted(LENGTH_CHANGING))
                        if g.edit(kind):
                            break
                # what comes next: mostly about the keys the edit touched, lookups and writes alike
                for _ in range(rng.choice([1, 2, 2, 3, 4])):
                    which = rng.choice(["new", "new", "new", "old", "old", "moved", "moved", "present", "absent"])
                    g.op(rng.choice([0, 1, 1, 2, 3, 4, 4, 5, 5, 6, 6]), g.pick(which))
            if g.steps:
                cases.append(case(stream, start, g))
    return cases


# ------------------------------------------------------------------ child: start entry
def start_entry(spec):
    """-> the entry the case starts from (a new object at every call)"""
    import bibtexparser
    from bibtexparser.model import Entry
    from props import c19 as base
    kind = spec["start"]
    if kind.startswith("parsed"):
        text = "@%s{%s,\n%s}\n" % (spec["type"], spec["key"], "".join("  %s = {%s},\n" % (k, v) for k, v, _ in spec["fields"]))
        lib = bibtexparser.parse_string(text, parse_stack=[]) if kind == "parsed-raw" else bibtexparser.parse_string(text)
        es = lib.entries
        assert len(es) == 1 and not lib.failed_blocks and [f.key for f in es[0].fields] == [f[0] for f in spec["fields"]], \
            "generator: the start entry did not parse as written: %r" % (text,)
        return es[0]
    fs = [base.mk_field(f) for f in spec["fields"]]
    if kind == "sub":
        from props import userclasses
        return userclasses.get().SubEntry(spec["type"], spec["key"], fs, start_line=0, raw=None)
    return Entry(spec["type"], spec["key"], fs, start_line=0, raw=None)


def relog(log, f, origin):
    """The CALLER has written into the Field object f: from now on it must keep what it reads now."""
    import copy
    log.seen.pop(id(f), None)
    log.seen[id(f)] = (f, f.key, copy.deepcopy(f.value), f.start_line, origin)


def hypothesis(fs, Field):
    """the list shows Field objects with distinct, non-reserved str keys"""
    from props import c19 as base
    if not isinstance(fs, list) or not all(isinstance(x, Field) for x in fs):
        return False
    keys = [x.key for x in fs]
    return len(set(keys)) == len(keys) and not any(k in base.RESERVED for k in keys)


def views_vs_dict(e, ref, log, etype, ekey, Field):
    """fields, fields_dict and items() against the reference dict (no keyed accessor is called); None or a complaint"""
    from props import c19 as base
    brief = base.brief
    fs = e.fields
    want = list(ref.values())
    shown = [(f.key, f.value) if isinstance(f, Field) else f for f in fs]
    held = [log.content(w)[:2] for w in want]
    if len(fs) != len(want) or not all(f is w for f, w in zip(fs, want)):
        return "fields are %r, the mapping holds %r" % (brief(shown), brief(held))
    fd = e.fields_dict
    if list(fd.keys()) != list(ref.keys()) or not all(x is y for x, y in zip(fd.values(), want)):
        return "fields_dict %r, the mapping holds %r" % (brief([(k, f.value) for k, f in fd.items()]), brief(held))
    its = e.items()
    wi = [("ENTRYTYPE", etype), ("ID", ekey)] + held
    if len(its) != len(wi) or not all(type(x) is tuple and len(x) == 2 and x[0] == y[0] and base.same_value(x[1], y[1])
                                      for x, y in zip(its, wi)):
        return "items() %r, the mapping gives %r" % (brief(its), brief(wi))
    return None


# ------------------------------------------------------------------ child: one mapping operation, judged by the dict
def do_op(e, ref, log, op, n, Field):
    """Execute op on e and on the reference dict; None, or what the entry did differently."""
    import implutil
    from props import c19 as base
    code, k = op[0], op[1]
    held = lambda: base.brief([log.content(w)[:2] for w in ref.values()])          # noqa: E731
    if code == base.O_SETFIELD:
        f = base.mk_field(op[1:])
        log.see(f, "passed to set_field in step %d" % n)
        r = implutil.guarded(lambda: e.set_field(f))
        ref[k] = f
        good = r[0] == "ok" and r[1] is None
    elif code == base.O_SETITEM:
        v = base.unjv(op[2])

        def do_set():
            e[k] = v
        r = implutil.guarded(do_set)
        good = r[0] == "ok" and r[1] is None
        if good:
            # the mapping binds k (old position, or at the end) to a field (k, v); which object that is, is the entry's business
            pos = list(ref).index(k) if k in ref else len(ref)
            fs = e.fields
            f = fs[pos] if isinstance(fs, list) and pos < len(fs) else None
            if not (isinstance(f, Field) and f.key == k and base.same_value(f.value, v)):
                return ("after the assignment position %d holds %r; fields are %r, the mapping held %r and binds %r to %r at that position"
                        % (pos, f, base.brief([(x.key, x.value) for x in fs]), held(), k, v))
            log.see(f, "created by the item assignment of step %d" % n)
            if not log.intact(f):
                return "the assignment wrote into a Field object that existed before: %s" % log.altered()
            ref[k] = f
    elif code == base.O_POP:
        d = op[2]
        dv = None if d is None else base.unjv(d["v"])
        r = implutil.guarded((lambda: e.pop(k)) if d is None else (lambda: e.pop(k, dv)))
        if k in ref:
            w = ref.pop(k)
            good = r[0] == "ok" and r[1] is w
            if not good:
                ref[k] = w          # (for the complaint below)
        else:
            good = r[0] == "ok" and base.same_value(r[1], dv)
    elif code == base.O_DEL:
        def do_del():
            del e[k]
        r = implutil.guarded(do_del)
        ref.pop(k, None)          # docstring: shorthand for pop -> an absent key is no error
        good = r[0] == "ok" and r[1] is None
    elif code == base.O_GET:
        d = op[2]
        dv = None if d is None else base.unjv(d["v"])
        r = implutil.guarded((lambda: e.get(k)) if d is None else (lambda: e.get(k, dv)))
        good = r[0] == "ok" and ((r[1] is ref[k]) if k in ref else base.same_value(r[1], dv))
    elif code == base.O_IN:
        r = implutil.guarded(lambda: k in e)
        good = r[0] == "ok" and r[1] is (k in ref)
    else:
        r = implutil.guarded(lambda: e[k])
        if k in ref:
            good = r[0] == "ok" and base.same_value(r[1], log.content(ref[k])[1])
        else:
            good = r[0] == "exc" and r[2] == "KeyError"
    if not good:
        return "%s of %r gave %r, the mapping disagrees: it holds %r" % (O_NAMES[code], k, r[-1], held())
    return None


# ------------------------------------------------------------------ child: one caller edit
def apply_edit(e, ref, log, kind, a, n, held_list, Field):
    """Make the edit.  -> (status, new reference dict or None, complaint or None); status: 'ok' | 'skipped' (the edit does
    not apply to the entry as it is, or would leave the hypothesis) | 'outside' (the entry shows duplicate / reserved keys
    afterwards: nothing more to say) | 'bad' (a lookup made on the way gave a wrong answer)"""
    import implutil
    from props import c19 as base
    if kind in FIELD_KINDS:
        targets = []
        for old in ([a["old"]] if kind != "swapkeys" else [a["old"], a["old2"]]):
            via = a["via"]
            want = ref.get(old)
            if via in ("get", "dict", "list"):
                if via == "get":
                    r = implutil.guarded(lambda: e.get(old))
                elif via == "dict":
                    r = implutil.guarded(lambda: e.fields_dict.get(old))
                else:
                    r = implutil.guarded(lambda: next((x for x in e.fields if x.key == old), None))
                if r[0] == "exc" or r[1] is not want:
                    return "bad", None, "looking for the field %r (%s) gave %r, the mapping holds %r" % (
                        old, {"get": "e.get", "dict": "e.fields_dict.get", "list": "scan of e.fields"}[via], r[-1],
                        base.brief([log.content(w)[:2] for w in ref.values()]))
                f = r[1]
            else:
                f = want          # the caller kept the object (it got it from get / fields / the constructor earlier)
            if f is None:
                return "skipped", None, None
            targets.append(f)
        if kind == "rename":
            if a["new"] in ref or a["new"] in base.RESERVED:
                return "skipped", None, None
            targets[0].key = a["new"]
        elif kind == "value":
            targets[0].value = base.unjv(a["v"])
        else:
            k1, k2 = targets[0].key, targets[1].key
            targets[0].key, targets[1].key = k2, k1
        for f in targets:
            relog(log, f, "written to by the caller in step %d" % n)
        # the entry held exactly these objects, in this order, and no mapping operation was made: it still does
        new_ref = {}
        for f in ref.values():
            new_ref[f.key] = f
        if len(new_ref) != len(ref):
            return "outside", None, None
        return "ok", new_ref, None
    # ---- through the list handed out by e.fields / through the setter
    objs = [base.mk_field(s) for s in a.get("fs", [])]
    setter = kind in THROUGH_SETTER
    fs = held_list[0] if (a.get("handle") == "held" and not setter and isinstance(held_list[0], list)) else e.fields
    if not isinstance(fs, list):
        return "skipped", None, None
    keyof = lambda x: x.key          # noqa: E731
    try:
        trial = mutate(list(fs), kind, a, objs, keyof)
    except (IndexError, ValueError):
        return "skipped", None, None
    if not hypothesis(trial, Field):
        return "skipped", None, None
    for f in objs:
        log.see(f, "put into e.fields by the caller in step %d" % n)
    if kind == "iadd":
        e.fields += objs
    elif setter:
        e.fields = mutate(fs, kind, a, objs, keyof)
    else:
        mutate(fs, kind, a, objs, keyof)
    now = e.fields
    if not hypothesis(now, Field):
        return "outside", None, None
    new_ref = {}
    for x in now:
        log.see(x, "listed by e.fields after the caller's edit in step %d" % n)
        new_ref[x.key] = x
    return "ok", new_ref, None


# ------------------------------------------------------------------ child: the case
def impl_edit(case):
    import implutil
    from bibtexparser.model import Field
    from props import c19 as base
    inp = case["input"]
    spec = inp["start"]
    e = start_entry(spec)
    etype, ekey = e.entry_type, e.key
    log = base.FieldLog()
    ref = {}
    for f in e.fields:
        log.see(f, "that the entry started with")
        ref[f.key] = f
    assert hypothesis(e.fields, Field) and len(ref) == len(spec["fields"]), "generator: start entry outside the hypothesis"
    steps = inp["steps"]
    named = set(EKEYS + ["zz", ""])
    for st in steps:
        if st[0] == "op":
            named.add(st[1][1])
        elif st[0] == "ed":
            named.update(k for k in (st[2].get("old"), st[2].get("new"), st[2].get("old2")) if k is not None)
            named.update(s[0] for s in st[2].get("fs", []))
    absent = sorted(named)
    tags = {"edit", "edit:start-" + spec["start"]}
    ok, detail = True, ""
    held_list = [e.fields]
    looked = False          # a keyed lookup / fields_dict was asked since the entry exists
    edited = None           # (new keys, old keys) of the last edit made, until the next edit
    applied = 0
    outside = False
    done = []               # the steps that were carried out (edits that did not apply are left out), for the model run

    def fail(n, msg):
        return False, "start %r, step %d %r of %r: %s" % (spec, n, steps[n] if n < len(steps) else "end", steps, msg)

    def compare(level):
        if level == "none":
            return None
        try:
            if level == "views":
                return views_vs_dict(e, ref, log, etype, ekey, Field)
            return base.entry_vs_dict(e, ref, log, etype, ekey, Field, absent)
        except Exception as x:  # noqa: BLE001 - a read accessor that raises is a finding, not a harness error
            return "a read accessor (fields, fields_dict, items, get, in, []) raised %s: %s; the mapping holds %r" % (
                type(x).__name__, x, base.brief([log.content(w)[:2] for w in ref.values()]))

    for n, st in enumerate(steps):
        chk = st[-1]
        if st[0] == "views":
            looked = True
            msg = compare("views")
            if msg:
                ok, detail = fail(n, msg)
                break
        elif st[0] == "op":
            op = st[1]
            code, k = op[0], op[1]
            if edited is not None:
                which = "new" if k in edited[0] else "old" if k in edited[1] else None
                if which:
                    tags.add("edit:then-%s-of-the-%s-key" % (O_NAMES[code], which))
            msg = do_op(e, ref, log, op, n, Field)
            if msg:
                ok, detail = fail(n, msg)
                break
            looked = True
            done.append(st)
            if code in base.MUTATORS:
                held_list[0] = e.fields
        else:
            kind, a = st[1], st[2]
            status, new_ref, msg = apply_edit(e, ref, log, kind, a, n, held_list, Field)
            if status == "bad":
                ok, detail = fail(n, msg)
                break
            if status == "skipped":
                tags.add("edit:not-applicable-skipped")
                continue
            if status == "outside":
                tags.add("edit:outside-hypothesis-afterwards")
                outside = True
                break
            edited = ([k for k in new_ref if k not in ref], [k for k in ref if k not in new_ref])
            same_len = len(new_ref) == len(ref)
            ref = new_ref
            applied += 1
            done.append(st)
            tags.add("edit:" + kind)
            tags.add("edit:length-preserving" if same_len else "edit:length-changing")
            if looked:
                tags.add("edit:made-after-a-lookup")
            if kind in FIELD_KINDS:
                tags.add("edit:field-reached-via-" + a["via"])
            elif a.get("handle") == "held":
                tags.add("edit:list-taken-before-the-lookups")
            if kind in THROUGH_SETTER:
                held_list[0] = e.fields
        msg = compare(chk)
        if msg is None and chk != "none":
            msg = log.altered()
        if msg:
            ok, detail = fail(n, "afterwards: " + msg)
            break
    if ok and not outside:
        msg = compare("full") or log.altered()
        if msg:
            ok, detail = fail(len(steps), "at the end: " + msg)
    rec = {"sx_in": None, "sx_out": None, "oracle": {"ok": ok, "detail": detail}, "nontrivial": applied > 0 and looked,
           "key": json.dumps(inp, sort_keys=True), "tags": sorted(tags),
           "summary": repr([(f.key, f.value) for f in e.fields])[:200]}
    # ---- the same program on fresh objects for Model/EntryObj.v, when it can express the case
    if ok and not outside and applied and all(st[0] != "ed" or st[1] in FIELD_KINDS for st in done):
        msteps = model_steps(done)
        if msteps is not None:
            e2 = start_entry(spec)
            if all(base.value_modelled(f.value) for f in e2.fields):
                r = base.obj_run([e2], list(e2.fields), msteps)
                rec["sx_in"], rec["sx_out"] = r["sx_in"], r["sx_out"]
                if not r["oracle"]["ok"]:
                    rec["oracle"] = r["oracle"]
                rec["tags"] = rec["tags"] + ["edit:compared-with-model"]
    return rec


def model_steps(steps):
    """The program (steps that were carried out) in the vocabulary of c19.obj_run (op 25), or None."""
    from props import c19 as base
    out = []
    for st in steps:
        if st[0] == "views":
            continue
        if st[0] == "op":
            one = base.world_model_steps({"births": [], "steps": [["op", 0, st[1]]]})
            if not one:
                return None
            out += one
            continue
        kind, a = st[1], st[2]
        if a["via"] == "get":
            out.append(["get", 0, a["old"], None])
            if kind == "swapkeys":
                out.append(["get", 0, a["old2"], None])
        if kind == "rename":
            out.append(["okey_of", 0, [[a["old"], a["new"]]]])
        elif kind == "value":
            out.append(["oval_of", 0, a["old"], base.unjv(a["v"])])
        else:
            out.append(["okey_of", 0, [[a["old"], a["old2"]], [a["old2"], a["old"]]]])
    return out
