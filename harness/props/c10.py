"""C10 - enclosing removal strips exactly one layer; adding back restores or re-encloses (middleware level + oracle
through the real write_string / parse_string)."""
import itertools
import json
import re

from props import libspec
from props.libspec import jv, unjv

ENGINE = "enclosing"
RULE = ("values = concatenations of tokens from { '{', '}', '\"', '\\\\', 'a', ' ', '#', ',', '1', '@b{' }: exhaustive up to "
        "3 tokens (quick) / 5 tokens (thorough), seeded samples up to 5 / 7 tokens, plus Python ints and non-ASCII digit "
        "strings; streams: strip (function level), enclose (function level x metadata x options), pipe (one-field entry or "
        "@string through RemoveEnclosing -> AddEnclosing(options) -> write_string -> parse_string) x default_enclosing x reuse "
        "x enclose_integers x field key in/out of ENTRY_POTENTIALLY_INT_FIELDS, ints, shapes (random small libraries with "
        "odd value types and metadata), user classes (uc-strip / uc-enclose: the function level on str / int SUBCLASS "
        "instances (StrSub, IntSub, IntEnum members); uc-lib: small libraries of Entry subclasses (trivial subclass, "
        "defensive-copy `fields` view), String / comment / preamble subclasses, Field subclasses, str-subclass field keys and "
        "str / int subclass values in numeric and other fields, through step sequences of both middlewares in in-place and "
        "copy mode, with the re-parse clause on every eligible entry). distinct = distinct (stream, value, options); "
        "non-trivial = the value has a delimiter as first or last character after stripping, or is integer-like, or the "
        "case is a library shape / user-class case")
TRUSTED = ["the 're-parsed is one field with the same content' clause is checked by the Python oracle only (real write_string "
           "/ parse_string); the Coq theorem composing AddEnclosing with the splitter model is stated in the splitter engine",
           "str.isdigit / str.isspace enter the model as per-character flags computed by the running CPython"]
ASSUMPTIONS = ["CPython's str.strip / str.isdigit are oracles (flags); f-string formatting of str and int only "
               "(other value types reaching _enclose are outside the model and reported as skipped)",
               "user-class cases reach the model through their base-class view (a SubEntry is encoded as the Entry it is, an "
               "IntSub as the int it is): the model compares contents, the Python oracle additionally the classes"]

TOKENS = ["{", "}", '"', "\\", "a", " ", "#", ",", "1", "@b{"]
NUMERIC_KEY, PLAIN_KEY = "year", "title"
# the numeric fields of the property (anchor enclosing.py:13-23), as a reference independent of the running module
NUMERIC_FIELDS = ["year", "month", "volume", "number", "pages", "edition", "chapter", "issue"]
CFGS = [[r, e, d] for r in (False, True) for e in (False, True) for d in ("{", '"')]
K2_RE = re.compile(r"@\w*[ \t]*\{")


# ---------------------------------------------------------------- generation
def all_values(maxlen):
    for n in range(maxlen + 1):
        for t in itertools.product(TOKENS, repeat=n):
            yield "".join(t)


def sample_values(rng, lo, hi, n):
    out = []
    for _ in range(n):
        k = rng.randint(lo, hi)
        # bias towards shapes that look enclosed
        toks = [rng.choice(TOKENS) for _ in range(k)]
        r = rng.random()
        if r < 0.3:
            toks[0], toks[-1] = "{", "}"
        elif r < 0.5:
            toks[0], toks[-1] = '"', '"'
        out.append("".join(toks))
    return out


MD_CHOICES = ["absent", None, "{", '"', "no-enclosing", "bogus", "", {"int": 5}, {"list": []}, {"bool": True}]
INTS = [0, 7, 1990, -3, 10 ** 17]
DIGIT_STRS = ["1990", "007", "²", "١٢", "1²", "１", "12a", "1 2", "-1", "+1", "1.5", ""]


# F5 / K2 / K4 witnesses and near misses, always run under every option combination
WITNESSES = ['"', "{a} # {b}", '"a" # "b"', "{a}", '"a"', "{a{b}c}", '"a{"}b"', "a @b{c}", "{a @b{c}}", '{"}', '{{"}}', '"{"}"',
             '{a"b}', '{{a"b}}', '{\\"}', '{{\\"}}', "{a\\}", "{\\}}", '"\\""', '"a\\"', "{}", '""', "{}{}", '"}"{"', " {a} ", "{ a }",
             "@b{}", "{@b {x}}", "{@{x}}", "{x@ b{y}}", "\u00a0{a}\u2003", "\x1c\"a\"\x85", "{a}\u200b", "\t{é}\n", "{\u00e9\\}"]


def gen_shape_value(rng, key):
    r = rng.random()
    if r < 0.86:
        return rng.choice(["{a}", '"b"', "c", "{a} # {b}", '"', "{", " {x} ", "1990", "", '"a" # "b"', "{{n}}", "\\", '"\\"'])
    if r < 0.93:
        return {"int": rng.choice(INTS)}
    return rng.choice([None, {"list": ["x"]}, {"parts": [["A"], [], ["B"], []]}, {"bool": True}, {"other": 0},
                       {"dict": [["a", "b"]]}])


def gen_shape_meta(rng, spec):
    if rng.random() < 0.5:
        return None
    if spec["t"] == "entry":
        ch = rng.random()
        if ch < 0.6:
            d = [[f[0], rng.choice(["{", '"', "no-enclosing", "bogus", None, {"int": 1}])] for f in spec["fields"]
                 if rng.random() < 0.8]
            v = {"dict": d}
        else:
            v = rng.choice(["{", None, {"int": 3}, {"list": []}, {"other": 0}])
        return [["other_mw", "x"], ["removed_enclosing", v]] if rng.random() < 0.5 else [["removed_enclosing", v]]
    if spec["t"] == "string":
        return [["removed_enclosing", rng.choice(["{", '"', "no-enclosing", "bogus", None, {"int": 1}, {"other": 0}])]]
    return [["removed_enclosing", "{"]]


# ---------------------------------------------------------------- user classes (subclass instances of the public classes)
# value spec extensions: {"strsub": s} / {"intsub": n} / {"monthenum": 1..12}; a field is [key, value, line, is_subfield]
# with key a str or {"strsub": s}; a block carries "cls": "plain" | "sub" | "copyfields" (entries only)
UC_STEPS = ["r", "a", "a", "ra", "ra", "rar", "rr", "ar"]
UC_KEYS_NUM = NUMERIC_FIELDS
UC_KEYS_OTHER = ["title", "author", "note", "Year", "yearx", "MONTH"]
UC_MD = ["absent", None, "{", '"', "no-enclosing", "bogus"]


def _uc_str_pool(rng):
    pool = list(WITNESSES) + DIGIT_STRS + ["c", "{", " {x} ", "{{n}}", "\\", "12", "2024", "0"] + list(all_values(1))
    return pool + sample_values(rng, 2, 4, 150)


def gen_uc_value(rng, pool, numeric_key, want_int):
    """a str / int value, most of the time as an instance of a user subclass"""
    r = rng.random()
    if r < want_int:
        k = rng.random()
        if k < 0.4:
            return {"intsub": rng.choice(INTS + [1, 12, 2024])}
        if k < 0.75:
            return {"monthenum": rng.randint(1, 12)}
        return {"int": rng.choice(INTS + [3])}
    if numeric_key and rng.random() < 0.45:
        v = rng.choice(DIGIT_STRS + ["2024", "{1990}", '"12"', " 7 ", "{٣}"])
    else:
        v = rng.choice(pool)
    return {"strsub": v} if rng.random() < 0.65 else v


def gen_uc_library(rng, pool):
    steps = rng.choice(UC_STEPS)
    want_int = 0.05 if steps[0] == "r" else 0.4
    specs = []
    n = rng.choice([1, 1, 1, 2, 2, 3])
    for i in range(n):
        r = rng.random()
        sl = rng.choice([None, i, 3 * i + 1])
        raw = rng.choice([None, "@raw%d{...}" % i])
        if r < 0.68:
            nf = rng.choice([0, 1, 1, 1, 2, 2, 3])
            fields = []
            for j in range(nf):
                num = rng.random() < 0.55
                k = rng.choice(UC_KEYS_NUM if num else UC_KEYS_OTHER)
                key = {"strsub": k} if rng.random() < 0.2 else k
                fields.append([key, gen_uc_value(rng, pool, num, want_int), rng.choice([None, j + 1]), rng.random() < 0.5])
            s = {"t": "entry", "cls": rng.choice(["plain", "sub", "sub", "sub", "copyfields", "copyfields", "copyfields"]),
                 "type": rng.choice(["article", "book"]), "key": "k%d" % i, "fields": fields, "sl": sl, "raw": raw}
            if rng.random() < 0.45:
                d = [[f[0] if isinstance(f[0], str) else f[0]["strsub"], rng.choice(["{", '"', "no-enclosing", None])]
                     for f in fields if rng.random() < 0.8]
                s["meta"] = ([["other_mw", "x"]] if rng.random() < 0.3 else []) + [["removed_enclosing", {"dict": d}]]
        elif r < 0.9:
            s = {"t": "string", "cls": rng.choice(["plain", "sub", "sub"]), "key": "s%d" % i,
                 "value": gen_uc_value(rng, pool, rng.random() < 0.3, want_int * 0.5), "sl": sl, "raw": raw}
            if rng.random() < 0.4:
                s["meta"] = [["removed_enclosing", rng.choice(["{", '"', "no-enclosing", None])]]
        else:
            s = {"t": rng.choice(["preamble", "expl", "impl"]), "cls": "sub", "text": rng.choice(["{p}", '"c"', " x "]),
                 "sl": sl, "raw": raw}
        specs.append(s)
    return {"kind": "uc-lib", "lib": specs, "steps": steps, "cfg": rng.choice(CFGS), "inplace": rng.random() < 0.5}


def gen_uc_cases(rng, quick):
    cases = []
    # function level: _strip_enclosing on str-subclass instances
    svals = list(all_values(2 if quick else 3)) + WITNESSES + sample_values(rng, 3, 5, 300 if quick else 5000)
    for v in svals:
        cases.append({"stream": "uc-strip", "input": {"kind": "strip", "value": {"strsub": v}}})
    # function level: _enclose on int / str subclass instances x options x metadata x integer rule
    evals = ([{"intsub": n} for n in INTS] + [{"monthenum": m} for m in (1, 9, 12)] + [{"strsub": v} for v in DIGIT_STRS]
             + [{"strsub": v} for v in all_values(1)][1:])
    for v in evals:
        for cfg in CFGS:
            for air in (False, True):
                for m in (UC_MD if quick else MD_CHOICES):
                    cases.append({"stream": "uc-enclose", "input": {"kind": "enclose", "cfg": cfg, "value": v, "md": m, "air": air}})
    # the integer rule, systematically: int-subclass values and str-subclass digit strings as the one field of an Entry
    # subclass x every numeric key and near misses x all options x both modes (AddEnclosing alone, and after a removal)
    for cfg in CFGS:
        for key in NUMERIC_FIELDS + [PLAIN_KEY, "Year", "yearx"]:
            for cls in ("sub", "copyfields"):
                for inplace in (False, True):
                    for steps, v in (("a", {"intsub": rng.choice(INTS + [1, 12, 2024])}), ("a", {"monthenum": rng.randint(1, 12)}),
                                     ("a", {"strsub": rng.choice(["1990", "007", "12", "0"])}),
                                     ("ra", {"strsub": rng.choice(["1990", "{1990}", '"12"', " 7 ", "١٢"])})):
                        k = {"strsub": key} if rng.random() < 0.25 else key
                        ent = {"t": "entry", "cls": cls, "type": "article", "key": "k", "sl": 0, "raw": "@article{k}",
                               "fields": [[k, v, 1, rng.random() < 0.5]]}
                        cases.append({"stream": "uc-ints", "input": {"kind": "uc-lib", "lib": [ent], "steps": steps, "cfg": cfg,
                                                                     "inplace": inplace}})
    # libraries of subclass instances through the middlewares, both modes
    pool = _uc_str_pool(rng)
    for _ in range(2500 if quick else 40000):
        cases.append({"stream": "uc-lib", "input": gen_uc_library(rng, pool)})
    return cases


def generate(rng, tier):
    quick = tier == "quick"
    cases = []
    exh = 4 if quick else 5
    vals = list(all_values(exh))
    extra = sample_values(rng, exh + 1, 5 if quick else 7, 1500 if quick else 50000)
    # -- strip
    for v in vals + extra:
        cases.append({"stream": "strip", "input": {"kind": "strip", "value": v}})
    # -- enclose (function level)
    evals = list(all_values(2)) + DIGIT_STRS
    for v in evals:
        for cfg in CFGS:
            for air in (False, True):
                md = rng.choice(MD_CHOICES) if v not in DIGIT_STRS else None
                mds = MD_CHOICES if (v in DIGIT_STRS or len(v) <= 1) else [md, "absent"]
                for m in mds:
                    cases.append({"stream": "enclose", "input": {"kind": "enclose", "cfg": cfg, "value": v, "md": m, "air": air}})
    for n in INTS:
        for cfg in CFGS:
            for air in (False, True):
                for m in MD_CHOICES:
                    cases.append({"stream": "enclose", "input": {"kind": "enclose", "cfg": cfg, "value": {"int": n}, "md": m, "air": air}})
    for v in [None, {"list": ["1"]}, {"bool": True}, {"other": 0}]:
        for cfg in CFGS[:2]:
            cases.append({"stream": "enclose", "input": {"kind": "enclose", "cfg": cfg, "value": v, "md": "absent", "air": True}})
    # -- pipe: remove -> add(cfg) -> write -> re-parse
    full = list(all_values(2))
    for v in full + DIGIT_STRS + WITNESSES:
        for blk in ("entry", "string"):
            cases.append({"stream": "pipe", "input": {"kind": "pipe", "value": v, "steps": "r", "cfg": None, "key": PLAIN_KEY, "blk": blk}})
        for cfg in CFGS:
            for key in (NUMERIC_KEY, PLAIN_KEY):
                cases.append({"stream": "pipe", "input": {"kind": "pipe", "value": v, "steps": "ra", "cfg": cfg, "key": key, "blk": "entry"}})
            cases.append({"stream": "pipe", "input": {"kind": "pipe", "value": v, "steps": "ra", "cfg": cfg, "key": PLAIN_KEY, "blk": "string"}})
    for v in vals[len(full):] + extra[: (1000 if quick else len(extra))]:
        cfg = rng.choice(CFGS)
        key = rng.choice((NUMERIC_KEY, PLAIN_KEY))
        blk = "entry" if rng.random() < 0.85 else "string"
        cases.append({"stream": "pipe", "input": {"kind": "pipe", "value": v, "steps": "ra", "cfg": cfg, "key": key, "blk": blk}})
    # -- ints through AddEnclosing alone
    for n in INTS:
        for cfg in CFGS:
            for key in NUMERIC_FIELDS + [PLAIN_KEY, "Year", "yearx"]:
                cases.append({"stream": "ints", "input": {"kind": "pipe", "value": {"int": n}, "steps": "a", "cfg": cfg, "key": key, "blk": "entry"}})
    # -- shapes
    for _ in range(400 if quick else 8000):
        specs = libspec.gen_library(rng, gen_shape_value, meta_gen=gen_shape_meta)
        steps = rng.choice(["r", "a", "ra", "rar", "rr"])
        cases.append({"stream": "shapes", "input": {"kind": "shape", "lib": specs, "steps": steps, "cfg": rng.choice(CFGS)}})
    # -- user classes (generated last: the streams above are the same as before for a given seed)
    cases.extend(gen_uc_cases(rng, quick))
    return cases


def shrink(case):
    inp = case["input"]
    if inp["kind"] in ("shape", "uc-lib"):
        for lib in libspec.shrink_library(inp["lib"]):
            yield {"stream": case["stream"], "input": dict(inp, lib=lib)}
        for k in range(len(inp["steps"])):
            if len(inp["steps"]) > 1:
                yield {"stream": case["stream"], "input": dict(inp, steps=inp["steps"][:k] + inp["steps"][k + 1:])}
    elif isinstance(inp.get("value"), str):
        v = inp["value"]
        for i in range(len(v)):
            yield {"stream": case["stream"], "input": dict(inp, value=v[:i] + v[i + 1:])}
    elif isinstance(inp.get("value"), dict) and "strsub" in inp["value"]:
        v = inp["value"]["strsub"]
        for i in range(len(v)):
            yield {"stream": case["stream"], "input": dict(inp, value={"strsub": v[:i] + v[i + 1:]})}


# ---------------------------------------------------------------- the property, in Python, independent of the code
def _profile(v):
    """per position: active flag, brace depth after the position (active braces only, signed)"""
    act, pre, d = [], [], 0
    for i, c in enumerate(v):
        a = i == 0 or v[i - 1] != "\\"
        if a and c == "{":
            d += 1
        elif a and c == "}":
            d -= 1
        act.append(a)
        pre.append(d)
    return act, pre


def outer_pair(v):
    """(delimiter, content) if v is one genuine outer {...} or "..." pair, else None (v already stripped)"""
    n = len(v)
    if n < 2:
        return None
    act, pre = _profile(v)
    if v[0] == "{" and v[-1] == "}":
        # the first brace's matching active closing brace is the last character
        if act[-1] and pre[-1] == 0 and all(p > 0 for p in pre[:-1]):
            return "{", v[1:-1]
        return None
    if v[0] == '"' and v[-1] == '"':
        if act[-1] and not any(v[i] == '"' and act[i] and pre[i] == 0 for i in range(1, n - 1)):
            return '"', v[1:-1]
    return None


def balanced(x):
    _, pre = _profile(x)
    return all(p >= 0 for p in pre) and (not pre or pre[-1] == 0)


def quote_depths(x):
    """depths (before the character) of the unescaped double quotes of x"""
    act, pre = _profile(x)
    return [pre[i] for i, c in enumerate(x) if c == '"' and act[i]]


def in_reparse_quantifier(x, q):
    return balanced(x) and not x.endswith("\\") and (q != '"' or 0 not in quote_depths(x))


def known_class(x, q):
    if K2_RE.search(x):
        return "K2"
    if q == '"' and any(d > 0 for d in quote_depths(x)):
        return "K4"
    return None


def is_integer_like(v):
    return (isinstance(v, int) and not isinstance(v, bool)) or (isinstance(v, str) and v.isdigit())


def expected_enclose(cfg, v, md, air, numeric_only=True):
    """what the property demands of AddEnclosing on a str/int value; None = not specified by the property"""
    reuse, ei, d = cfg
    if reuse and md is not None and md != "absent":
        if md == "{":
            return "{%s}" % (v,)
        if md == '"':
            return '"%s"' % (v,)
        if md == "no-enclosing":
            return v
        return None
    if air and is_integer_like(v) and not ei:
        return v
    return ("{%s}" if d == "{" else '"%s"') % (v,)


class _Tok:
    def __init__(self, n):
        self.n = n

    def __repr__(self):
        return self.n


UNSPEC, ABSENT = _Tok("<unspecified>"), _Tok("<absent>")


def ref_steps(spec, steps, cfg, strings_air):
    """The remove / add steps on one block spec through the property statement.  Returns (values, recorded metadata) with
    UNSPEC where the property does not say (non-str values, foreign metadata), or None for blocks without values."""
    if spec["t"] == "entry":
        keys = [f[0] for f in spec["fields"]]
        vals = [unjv_plain(f[1]) for f in spec["fields"]]
    elif spec["t"] == "string":
        keys, vals = [None], [unjv_plain(spec["value"])]
    else:
        return None
    md = ABSENT
    for k, v in spec.get("meta", []):
        if k == "removed_enclosing":
            md = unjv_plain(v)
    for st in steps:
        if st == "r":
            if any(not isinstance(v, str) for v in vals):
                return None                              # .strip() on a non-str / unspecified value: not the property's business
            rec = {}
            out = []
            for k, v in zip(keys, vals):
                sv = v.strip()
                op = outer_pair(sv)
                out.append(op[1] if op else sv)
                rec[k] = op[0] if op else "no-enclosing"
            vals = out
            md = rec if spec["t"] == "entry" else rec[None]
        else:
            if md is UNSPEC:
                return None                              # a second add in a row: what the first left behind is not specified
            m, md = (None if md is ABSENT else md), UNSPEC
            out = []
            for k, v in zip(keys, vals):
                if spec["t"] == "entry":
                    if m is None:
                        prev = None
                    elif isinstance(m, dict):
                        prev = m.get(k, None)
                    else:
                        return None                      # foreign metadata object
                    air = k in NUMERIC_FIELDS
                else:
                    prev, air = m, strings_air
                if v is UNSPEC or isinstance(v, bool) or not isinstance(v, (str, int)) or not (prev is None or isinstance(prev, str)):
                    out.append(UNSPEC)
                    continue
                e = expected_enclose(cfg, v, prev, air)
                out.append(UNSPEC if e is None else e)
            vals = out
            if any(v is UNSPEC for v in vals) and st != steps[-1]:
                return None
    return vals, md


def unjv_plain(v):
    """value spec -> plain Python value for the reference (objects the property does not speak about -> UNSPEC)"""
    if isinstance(v, dict):
        if "int" in v:
            return v["int"]
        if "dict" in v:
            return {k: unjv_plain(x) for k, x in v["dict"]}
        return UNSPEC
    return v


def same(a, b):
    return type(a) is type(b) and a == b


def text_eq(got, exp):
    """got is a str (of whatever class) with exactly the characters of the plain str exp"""
    return isinstance(got, str) and str.__eq__(got, exp) is True


def same_as(got, exp, orig):
    """`got` is what the property demands (`exp`, computed on the plain content) of a value that was the object `orig`:
    plain str / int originals as before (exact class); for subclass instances a text must have exactly the demanded
    characters, and an integer that stays as it is must still be an integer of the class it had, with the same number"""
    if type(orig) in (str, int):
        return same(got, exp)
    if isinstance(exp, str):
        return text_eq(got, exp)
    return type(got) is type(orig) and not isinstance(got, bool) and int.__eq__(got, exp) is True


def plain_of(v):
    """the plain content of a str / int (subclass) instance"""
    if type(v) in (str, int) or isinstance(v, bool):
        return v
    if isinstance(v, str):
        return "".join(str.__getitem__(v, i) for i in range(str.__len__(v)))
    if isinstance(v, int):
        return int.__int__(v)
    return v


def uc_unjv(v):
    """value spec -> object, with the user-class extensions"""
    if isinstance(v, dict) and ("strsub" in v or "intsub" in v or "monthenum" in v):
        from props import userclasses
        uc = userclasses.get()
        if "strsub" in v:
            return uc.StrSub(v["strsub"])
        if "intsub" in v:
            return uc.IntSub(v["intsub"])
        return uc.MonthEnum(v["monthenum"])
    return unjv(v)


def uc_plain_spec(v):
    """value spec with user classes -> the libspec value spec of its plain content"""
    if isinstance(v, dict):
        if "strsub" in v:
            return v["strsub"]
        if "intsub" in v:
            return {"int": v["intsub"]}
        if "monthenum" in v:
            return {"int": v["monthenum"]}
    return v


def uc_kind(v):
    return next((k for k in ("strsub", "intsub", "monthenum") if isinstance(v, dict) and k in v), None)


# ---------------------------------------------------------------- implementation side
def _cfg_sx(cfg):
    import enc
    return [int(cfg[0]), int(cfg[1]), enc.enc_str(cfg[2])]


def _steps_sx(steps, cfg):
    return [[0] if s == "r" else [1, _cfg_sx(cfg)] for s in steps]


def _mk_add(cfg):
    from bibtexparser.middlewares.enclosing import AddEnclosingMiddleware
    return AddEnclosingMiddleware(reuse_previous_enclosing=cfg[0], enclose_integers=cfg[1], default_enclosing=cfg[2])


def impl(case):
    inp = case["input"]
    return {"strip": impl_strip, "enclose": impl_enclose, "pipe": impl_pipe, "shape": impl_shape,
            "uc-lib": impl_uc_lib}[inp["kind"]](case)


def _show(spec):
    """a value spec in messages: plain values by repr, user-class values with their class"""
    k = uc_kind(spec)
    return repr(spec) if k is None else "%s(%r)" % ({"strsub": "StrSub", "intsub": "IntSub", "monthenum": "MonthEnum"}[k], spec[k])


def _show_obj(o):
    return repr(o) if type(o) in (str, int, bool, type(None)) else "<%s %r>" % (type(o).__name__, o)


def impl_strip(case):
    import enc
    import implutil
    from bibtexparser.middlewares.enclosing import RemoveEnclosingMiddleware as R
    spec = case["input"]["value"]
    arg = uc_unjv(spec)                                     # a str, or an instance of a str subclass
    v = plain_of(arg)
    rec = {"sx_in": [100, enc.enc_str(v)], "key": json.dumps(["strip", spec])}
    from props import pubapi
    r = implutil.guarded(lambda: pubapi.strip_enclosing(arg))
    sv = v.strip()
    rec["nontrivial"] = bool(sv) and (sv[0] in '{"' or sv[-1] in '}"')
    if r[0] == "exc":
        rec["sx_out"] = implutil.r_exc(r[1])
        rec["oracle"] = {"ok": False, "detail": "_strip_enclosing(%r) raised %s" % (v, r[2])}
        rec["summary"] = "raised " + r[2]
        return rec
    w, e = r[1]
    rec["sx_out"] = implutil.r_ok([enc.enc_str(w), enc.enc_str(e)])
    op = outer_pair(sv)
    exp = (op[1], op[0]) if op else (sv, "no-enclosing")
    ok = same_as(w, exp[0], arg) and same_as(e, exp[1], arg)
    detail = "" if ok else "_strip_enclosing(%s) = %r, the property demands %r" % (_show(spec), (w, e), exp)
    if ok:
        # adding back with reuse restores the (stripped) original exactly
        from bibtexparser.middlewares.enclosing import AddEnclosingMiddleware
        for d in ("{", '"'):
            back = pubapi.enclose(AddEnclosingMiddleware(True, False, d), w, e, True)
            if not same_as(back, sv, arg):
                ok, detail = False, "reuse does not restore %s: strip gave %r, adding back gave %r" % (_show(spec), (w, e), back)
    rec["oracle"] = {"ok": ok, "detail": detail}
    rec["tags"] = ["strip:" + (op[0] if op else "none")] + (["uc:value:" + uc_kind(spec)] if uc_kind(spec) else [])
    rec["summary"] = repr((w, e))
    return rec


def impl_enclose(case):
    import enc
    import implutil
    inp = case["input"]
    cfg, air = inp["cfg"], inp["air"]
    arg = uc_unjv(inp["value"])                             # possibly an instance of a str / int subclass
    v = plain_of(arg)
    md_abs = inp["md"] == "absent"
    md = None if md_abs else unjv(inp["md"])
    mw = _mk_add(cfg)
    rec = {"sx_in": [101, _cfg_sx(cfg), enc.enc_value(v), [] if md_abs else [enc.enc_value(md)], int(air)],
           "key": json.dumps(["enclose", inp["value"], cfg, inp["md"], air])}
    from props import pubapi
    r = implutil.guarded(lambda: pubapi.enclose(mw, arg, md, air))
    rec["nontrivial"] = is_integer_like(v) or (isinstance(v, str) and v != "" and v[0] in '{"')
    specified = isinstance(v, str) or (isinstance(v, int) and not isinstance(v, bool))
    exp = expected_enclose(cfg, v, md if not md_abs else "absent", air) if specified else None
    if r[0] == "exc":
        rec["sx_out"] = implutil.r_exc(r[1])
        rec["summary"] = "raised " + r[2]
        # an unknown reused metadata enclosing is documented to raise ValueError; nothing else may raise
        legit = r[2] == "ValueError" and cfg[0] and md is not None and not (isinstance(md, str) and md in ("{", '"', "no-enclosing"))
        bad = specified and not legit
        rec["oracle"] = {"ok": not bad, "detail": "" if not bad else "_enclose(%s, %r, %r) with %r raised %s" % (
            _show(inp["value"]), md, air, cfg, r[2])}
        rec["tags"] = ["enclose:raise"] + (["uc:value:" + uc_kind(inp["value"])] if uc_kind(inp["value"]) else [])
        return rec
    out = r[1]
    rec["sx_out"] = implutil.r_ok(enc.enc_value(out))
    ok, detail = True, ""
    if specified and exp is not None and not same_as(out, exp, arg):
        ok, detail = False, "_enclose(%s, md=%r, int_rule=%r) with (reuse, enclose_integers, default)=%r gave %r, expected %r" % (
            _show(inp["value"]), md, air, cfg, _show_obj(out), exp)
    if specified and exp is None:
        ok, detail = False, "unknown metadata enclosing %r accepted: %r" % (md, out)
    rec["oracle"] = {"ok": ok, "detail": detail}
    rec["tags"] = ["enclose:" + ("int" if is_integer_like(v) else "other")] + (
        ["uc:value:" + uc_kind(inp["value"])] if uc_kind(inp["value"]) else [])
    rec["summary"] = repr(out)
    return rec


def _one_block_lib(inp):
    from bibtexparser.model import Entry, Field, String
    v = unjv(inp["value"])
    if inp["blk"] == "entry":
        return Entry("article", "k", [Field(inp["key"], v, 1)], start_line=0, raw="@article{k}")
    return String("s", v, start_line=0, raw="@string{s}")


def impl_pipe(case):
    import enc
    import implutil
    import bibtexparser
    from bibtexparser.library import Library
    from bibtexparser.middlewares.enclosing import RemoveEnclosingMiddleware
    inp = case["input"]
    v = unjv(inp["value"])
    cfg, steps, key, blk = inp["cfg"], inp["steps"], inp["key"], inp["blk"]
    block = _one_block_lib(inp)
    rec = {"sx_in": [102, _steps_sx(steps, cfg), [enc.enc_block(block)]],
           "key": json.dumps(["pipe", inp["value"], steps, cfg, key, blk])}
    sv = v.strip() if isinstance(v, str) else v
    rec["nontrivial"] = is_integer_like(v) or (isinstance(sv, str) and sv != "" and (sv[0] in '{"' or sv[-1] in '}"'))
    snap = {}

    def run():
        lib = Library([block])
        for s in steps:
            if s == "r":
                lib = RemoveEnclosingMiddleware().transform(lib)
                b = lib.blocks[0]
                snap["removed"] = (b.fields[0].value if blk == "entry" else b.value, dict(b.parser_metadata))
            else:
                lib = _mk_add(cfg).transform(lib)
        return lib
    r = implutil.guarded(run)
    if r[0] == "exc":
        rec["sx_out"] = implutil.r_exc(r[1])
        rec["oracle"] = {"ok": False, "detail": "enclosing middlewares raised %s on value %r (%s, %r)" % (r[2], v, steps, cfg)}
        rec["summary"] = "raised " + r[2]
        return rec
    lib = r[1]
    rec["sx_out"] = implutil.r_ok([enc.enc_block(b, abstract_prev=True) for b in lib.blocks])
    ok, detail, known = True, "", None
    tags = []
    b = lib.blocks[0] if len(lib.blocks) == 1 else None
    if b is None or type(b) is not type(block):
        ok, detail = False, "result is not one %s block" % blk
    else:
        final = b.fields[0].value if blk == "entry" else b.value
        x = v
        if "removed" in snap:
            # (1) exactly one genuine outer pair is stripped and recorded
            w, md = snap["removed"]
            op = outer_pair(sv)
            exp_w, exp_e = (op[1], op[0]) if op else (sv, "no-enclosing")
            rec_md = md.get("removed_enclosing")
            exp_md = {key: exp_e} if blk == "entry" else exp_e
            if not same(w, exp_w) or rec_md != exp_md:
                ok, detail = False, "remove on %r gave value %r metadata %r, expected %r / %r" % (v, w, rec_md, exp_w, exp_md)
            x = w
            tags.append("strip:" + (op[0] if op else "none"))
        if ok and "a" in steps:
            reuse, ei, d = cfg
            air = (key in NUMERIC_FIELDS) if blk == "entry" else False
            if reuse and "r" in steps:
                # (2) adding back with reuse restores the original value exactly
                if not same(final, sv):
                    ok, detail = False, "remove -> add(reuse) on %r gave %r" % (v, final)
            else:
                # (3) default enclosing / integer rule
                exp = expected_enclose([False, ei, d], x, None, air)
                if not same(final, exp):
                    ok, detail = False, "add%r on %r (key %s) gave %r, expected %r" % (cfg, x, key, final, exp)
                if is_integer_like(x) and air:
                    tags.append("int-rule:" + ("enclosed" if ei else "bare"))
                # (4) written into an entry and re-parsed: one field with the same content
                if ok and blk == "entry" and isinstance(x, (str, int)) and in_reparse_quantifier(str(x), d):
                    if not isinstance(final, str):
                        tags.append("int-unenclosed-write-typeerror")
                    else:
                        tags.append("reparse")
                        rr = implutil.guarded(lambda: bibtexparser.parse_string(bibtexparser.write_string(lib, unparse_stack=[])))
                        good = False
                        got = None
                        if rr[0] == "ok":
                            bl = rr[1].blocks
                            got = [type(z).__name__ for z in bl]
                            if len(bl) == 1 and type(bl[0]).__name__ == "Entry" and bl[0].key == "k" and bl[0].entry_type == "article" \
                                    and len(bl[0].fields) == 1:
                                f = bl[0].fields[0]
                                got = (f.key, f.value)
                                good = f.key == key and same(f.value, str(x))
                        else:
                            got = "raised " + rr[2]
                        if not good:
                            known = known_class(str(x), d)
                            ok = False
                            detail = "value %r enclosed with default %r does not re-parse as one field %s with the same content: %r" % (
                                x, d, key, got)
                            tags.append("reparse-fail:" + (known or "UNKNOWN"))
    rec["oracle"] = {"ok": ok, "detail": detail}
    if known:
        rec["oracle"]["known"] = known
    rec["tags"] = tags
    rec["summary"] = repr([(getattr(z, "value", None) if blk == "string" else [(f.key, f.value) for f in getattr(z, "fields", [])])
                           for z in lib.blocks])[:200]
    return rec


def impl_shape(case):
    import enc
    import implutil
    from bibtexparser.library import Library
    from bibtexparser.middlewares.enclosing import RemoveEnclosingMiddleware
    inp = case["input"]
    blocks = libspec.build_blocks(inp["lib"])
    steps, cfg = inp["steps"], inp["cfg"]
    rec = {"sx_in": [102, _steps_sx(steps, cfg), [enc.enc_block(b) for b in blocks]],
           "key": json.dumps(["shape", inp["lib"], steps, cfg]), "nontrivial": True}
    before = None

    def run():
        nonlocal before
        lib = Library(blocks)
        before = [(type(b).__name__, getattr(b, "key", None), b.start_line, b.raw,
                   [(f.key, f.start_line) for f in getattr(b, "fields", [])]) for b in lib.blocks]
        for s in steps:
            lib = RemoveEnclosingMiddleware().transform(lib) if s == "r" else _mk_add(cfg).transform(lib)
        return lib
    r = implutil.guarded(run)
    if r[0] == "exc":
        rec["sx_out"] = implutil.r_exc(r[1])
        # non-str values make value.strip() raise; unknown metadata raises ValueError: not claimed by the property
        rec["oracle"] = {"ok": True, "detail": ""}
        rec["tags"] = ["shape:raise:" + r[2]]
        rec["summary"] = "raised " + r[2]
        return rec
    lib = r[1]
    rec["sx_out"] = implutil.r_ok([enc.enc_block(b, abstract_prev=True) for b in lib.blocks])
    after = [(type(b).__name__, getattr(b, "key", None), b.start_line, b.raw,
              [(f.key, f.start_line) for f in getattr(b, "fields", [])]) for b in lib.blocks]
    ok = before == after
    detail = "" if ok else "block classes / keys / lines / raw / field keys changed: %r -> %r" % (before, after)
    if ok:
        # the same steps through the property statement (outer_pair / expected_enclose), block by block
        import bibtexparser.middlewares.enclosing as E
        for spec, b in zip(inp["lib"], lib.blocks):
            exp = ref_steps(spec, steps, cfg, getattr(E, "STRINGS_CAN_BE_UNESCAPED_INTS", False))
            if exp is None or type(b).__name__ != {"entry": "Entry", "string": "String"}[spec["t"]]:
                continue
            vals, md = exp
            got = [f.value for f in b.fields] if spec["t"] == "entry" else [b.value]
            for i, (e, g) in enumerate(zip(vals, got)):
                if e is not UNSPEC and not same(e, g):
                    ok, detail = False, ("%s %r value %d through steps %r (options %r): got %r, the property gives %r" %
                                         (spec["t"], spec["key"], i, steps, cfg, g, e))
            if md is not UNSPEC and ok:
                gm = b.parser_metadata.get("removed_enclosing", ABSENT)
                if not (gm is md or (type(gm) is type(md) and gm == md)):
                    ok, detail = False, ("%s %r after steps %r: recorded enclosing %r, the values that were stripped give %r" %
                                         (spec["t"], spec["key"], steps, gm, md))
    rec["oracle"] = {"ok": ok, "detail": detail}
    rec["tags"] = ["shape:ok"]
    rec["summary"] = repr(after)[:200]
    return rec


# ---------------------------------------------------------------- user-class libraries
def _uc_build_block(spec):
    """the block of a uc-lib spec: built as the plain class, then rebuilt as the user's subclass"""
    from bibtexparser import model as M
    from props import userclasses
    uc = userclasses.get()
    t, sl, raw = spec["t"], spec.get("sl"), spec.get("raw")
    if t == "entry":
        fields = [(uc.SubField if sub else M.Field)(uc_unjv(k), uc_unjv(v), ln) for k, v, ln, sub in spec["fields"]]
        b = M.Entry(spec["type"], spec["key"], fields, start_line=sl, raw=raw)
    elif t == "string":
        b = M.String(spec["key"], uc_unjv(spec["value"]), start_line=sl, raw=raw)
    else:
        b = libspec.build_block({k: v for k, v in spec.items() if k != "meta"})
    for k, v in spec.get("meta", []):
        b.parser_metadata[k] = unjv(v)
    cls = spec.get("cls", "plain")
    return uc.as_sub(b) if cls == "sub" else uc.as_copyfields(b) if cls == "copyfields" else b


def _enc_block_base(b):
    """enc.enc_block through the base-class view (enc looks at the exact class name): what the model can represent of a
    subclass instance is the Entry / String / ... it is"""
    import enc
    from bibtexparser import model as M
    h = enc.enc_hdr(b)
    if isinstance(b, M.Entry):
        return [enc.B_ENTRY, h, enc.enc_str(b.entry_type), enc.enc_str(b.key), [enc.enc_field(f) for f in b.fields]]
    if isinstance(b, M.String):
        return [enc.B_STRING, h, enc.enc_str(b.key), enc.enc_value(b.value)]
    if isinstance(b, M.Preamble):
        return [enc.B_PREAMBLE, h, enc.enc_str(b.value)]
    if isinstance(b, M.ExplicitComment):
        return [enc.B_EXPL, h, enc.enc_str(b.comment)]
    if isinstance(b, M.ImplicitComment):
        return [enc.B_IMPL, h, enc.enc_str(b.comment)]
    return enc.enc_block(b, abstract_prev=True)


def _uc_plain_block_spec(spec):
    """the libspec block spec of the plain content (what ref_steps reads)"""
    p = dict(spec)
    if spec["t"] == "entry":
        p["fields"] = [[uc_plain_spec(k), uc_plain_spec(v), ln] for k, v, ln, _ in spec["fields"]]
    elif spec["t"] == "string":
        p["value"] = uc_plain_spec(spec["value"])
    return p


def _uc_tags(inp):
    tags = {"uc:mode:" + ("inplace" if inp["inplace"] else "copy")}
    for s in inp["lib"]:
        tags.add("uc:%s:%s" % (s["t"], s.get("cls", "plain")))
        vs = []
        if s["t"] == "entry":
            for k, v, _, sub in s["fields"]:
                vs.append(v)
                if sub:
                    tags.add("uc:field:sub")
                if uc_kind(k):
                    tags.add("uc:fieldkey:strsub")
                plain_k = uc_plain_spec(k)
                if uc_kind(v):
                    tags.add("uc:%s-in-%s-field" % (uc_kind(v), "numeric" if plain_k in NUMERIC_FIELDS else "other"))
        elif s["t"] == "string":
            vs.append(s["value"])
        for v in vs:
            if uc_kind(v):
                tags.add("uc:value:" + uc_kind(v))
    return sorted(tags)


def _struct(b):
    return (type(b).__name__, getattr(b, "key", None), b.start_line, b.raw,
            [(type(f).__name__, plain_of(f.key), f.start_line) for f in getattr(b, "fields", [])])


def impl_uc_lib(case):
    import implutil
    import bibtexparser
    from bibtexparser.library import Library
    from bibtexparser.middlewares.enclosing import RemoveEnclosingMiddleware
    import bibtexparser.middlewares.enclosing as E
    inp = case["input"]
    blocks = [_uc_build_block(s) for s in inp["lib"]]
    steps, cfg, inplace = inp["steps"], inp["cfg"], inp["inplace"]
    rec = {"sx_in": [102, _steps_sx(steps, cfg), [_enc_block_base(b) for b in blocks]],
           "key": json.dumps(["uc-lib", inp["lib"], steps, cfg, inplace]), "nontrivial": True}
    before = [_struct(b) for b in blocks]
    tags = _uc_tags(inp)
    strings_air = getattr(E, "STRINGS_CAN_BE_UNESCAPED_INTS", False)
    plain = [_uc_plain_block_spec(s) for s in inp["lib"]]
    refs = [ref_steps(p, steps, cfg, strings_air) if p["t"] in ("entry", "string") else "n/a" for p in plain]
    # the property speaks about every step on every block of this library (no .strip() on an int, no second add in a row)
    specified = all(r is not None for r in refs)

    def run():
        lib = Library(blocks)
        for s in steps:
            if s == "r":
                lib = RemoveEnclosingMiddleware(allow_inplace_modification=inplace).transform(lib)
            else:
                from bibtexparser.middlewares.enclosing import AddEnclosingMiddleware
                lib = AddEnclosingMiddleware(reuse_previous_enclosing=cfg[0], enclose_integers=cfg[1], default_enclosing=cfg[2],
                                             allow_inplace_modification=inplace).transform(lib)
        return lib
    r = implutil.guarded(run)
    if r[0] == "exc":
        rec["sx_out"] = implutil.r_exc(r[1])
        # .strip() of an int value is not the property's business; where the property gives every value, nothing may raise
        rec["oracle"] = {"ok": not specified, "detail": "" if not specified else
                         "enclosing middlewares (steps %r, options %r, %s mode) raised %s on user-class library %s" % (
                             steps, cfg, "in-place" if inplace else "copy", r[2], json.dumps(inp["lib"], ensure_ascii=False))}
        rec["tags"] = tags + ["uc-lib:raise:" + r[2]]
        rec["summary"] = "raised " + r[2]
        return rec
    lib = r[1]
    rec["sx_out"] = implutil.r_ok([_enc_block_base(b) for b in lib.blocks])
    after = [_struct(b) for b in lib.blocks]
    ok = before == after
    detail = "" if ok else "block classes / keys / lines / raw / field classes / field keys changed: %r -> %r" % (before, after)
    known = None
    where = "(steps %r, options %r, %s mode)" % (steps, cfg, "in-place" if inplace else "copy")
    if ok:
        for spec, p, exp, b in zip(inp["lib"], plain, refs, lib.blocks):
            if exp is None or exp == "n/a":
                continue
            vals, md = exp
            if spec["t"] == "entry":
                got, origs = [f.value for f in b.fields], [f[1] for f in spec["fields"]]
            else:
                got, origs = [b.value], [spec["value"]]
            if len(got) != len(vals):
                ok, detail = False, "%s %r has %d values, expected %d" % (spec["t"], spec["key"], len(got), len(vals))
                break
            for i, (e, g, o) in enumerate(zip(vals, got, origs)):
                if e is not UNSPEC and not same_as(g, e, uc_unjv(o)):
                    ok, detail = False, ("%s %r (class %s) value %d = %s %s: got %s, the property gives %r" %
                                         (spec["t"], spec["key"], type(b).__name__, i, _show(o), where, _show_obj(g), e))
            if md is not UNSPEC and ok:
                gm = b.parser_metadata.get("removed_enclosing", ABSENT)
                if not (gm is md or (type(gm) is type(md) and gm == md)):
                    ok, detail = False, ("%s %r (class %s) %s: recorded enclosing %r, the values that were stripped give %r" %
                                         (spec["t"], spec["key"], type(b).__name__, where, gm, md))
            if not ok:
                break
    if ok and steps[-1] == "a":
        # written into an entry and re-parsed: one field with the same content (entries whose every value got the default
        # enclosing and lies in the quantifier of that clause)
        d = cfg[2]
        for spec, p, exp, b in zip(inp["lib"], plain, refs, lib.blocks):
            if spec["t"] != "entry" or exp is None or not spec["fields"]:
                continue
            prev = ref_steps(p, steps[:-1], cfg, strings_air) if len(steps) > 1 else ([unjv_plain(f[1]) for f in p["fields"]], None)
            if prev is None:
                continue
            xs = prev[0]
            keys = [f[0] for f in p["fields"]]
            if len({k.lower() for k in keys}) != len(keys):
                continue
            if not all(isinstance(x, (str, int)) and not isinstance(x, bool) and e is not UNSPEC and
                       e == ("{%s}" if d == "{" else '"%s"') % (x,) and in_reparse_quantifier(str(x), d)
                       for x, e in zip(xs, exp[0])):
                continue
            tags.append("uc-lib:reparse")
            one = Library([b])
            rr = implutil.guarded(lambda: bibtexparser.parse_string(bibtexparser.write_string(one, unparse_stack=[])))
            good, got = False, None
            if rr[0] == "ok":
                bl = rr[1].blocks
                got = [type(z).__name__ for z in bl]
                if len(bl) == 1 and type(bl[0]).__name__ == "Entry" and bl[0].key == spec["key"] and bl[0].entry_type == spec["type"]:
                    got = [(f.key, f.value) for f in bl[0].fields]
                    good = len(got) == len(keys) and all(same(gk, k) and same(gv, str(x)) for (gk, gv), k, x in zip(got, keys, xs))
            else:
                got = "raised " + rr[2]
            if not good:
                kn = [known_class(str(x), d) for x in xs]
                known = next((k for k in kn if k), None)
                ok = False
                detail = "%s %r (class %s) with values %s enclosed with default %r %s does not re-parse as the same fields: %r" % (
                    spec["t"], spec["key"], type(b).__name__, [_show(f[1]) for f in spec["fields"]], d, where, got)
                tags.append("uc-lib:reparse-fail:" + (known or "UNKNOWN"))
                break
    rec["oracle"] = {"ok": ok, "detail": detail}
    if known:
        rec["oracle"]["known"] = known
    rec["tags"] = tags + ["uc-lib:ok"]
    rec["summary"] = repr([(type(z).__name__, getattr(z, "value", None) if not hasattr(z, "fields") else
                            [(f.key, f.value) for f in z.fields]) for z in lib.blocks])[:200]
    return rec
