"""C07, streams 'reent' / 'thr': RE-ENTRANT and INTERLEAVED use of ONE middleware instance.

The property has no "one caller at a time" clause and the block middlewares advertise allow_parallel_execution == True
("the middleware is threadsafe").  What the other streams of C07 never do: start a transform() of an instance while
another transform() of the same instance (or of another instance of its class) is still running.  Anything a middleware
keeps on itself or on its class for the duration of a call (a flag, a scratch list, "the library I am working on") is
invisible to every sequential history and visible as soon as two calls overlap.

A case = 2-3 documents, ONE shipped middleware configuration (props.c07.SPECS, copy mode), a CHANNEL through which user
code gets control while the middleware is at work, and what that user code does.

Channels (all of them objects a caller may legitimately hand to / hang on the library; nothing in /repo is patched):
  field        the entries hold instances of a Field subclass whose key / value property getters and setters call back
  str          keys, values, entry types and comments are instances of a str subclass whose methods (startswith, lower,
               strip, __hash__, __eq__, __format__, ...) call back
  block        the blocks are instances of subclasses of Entry / String / Preamble / the comment classes whose attribute
               access (__getattribute__, every non-dunder name) calls back
  deepcopy     the Field / block subclasses define __deepcopy__ (the standard idiom) which calls back: control while the
               middleware is COPYING
  log_filter   a logging filter on every logger of the library (found in logging's registry, not named here)
  log_handler  a lock-free logging handler on the library's top logger
  warn         warnings.showwarning
  mwsub        the instance is of a user subclass of the shipped class that overrides the documented extension points
               transform_block / transform_entry / transform_string / ... (before and after delegating to the shipped code)
  mixed        all of the above at once

Stream 'reent' (deterministic re-entrancy): the outer call `mw.transform(lib0)` runs with the channel armed; at chosen
events (indices drawn by the generator, reduced modulo the number of events a dry run of the same call counts, so that
they are reached) the callback runs `mw.transform(other)` with the SAME instance and / or with ANOTHER instance of the
same class, on the other document's library or on lib0 itself; sometimes that inner call is armed too (depth 2).

Stream 'thr' (two or three threads, one instance): every call runs in its own daemon thread; a callback PARKS its thread
at chosen events (threading.Event, bounded waits, no sleeps) and the main thread plays a fixed schedule of start / resume
steps, waiting after each step until the thread it moved is parked again or done - so exactly one thread runs at any
time and the interleaving is a deterministic function of the case.  Schedules: B inside A; A and B crossing; three
nested; A parked twice with a whole call in each gap; ping-pong.

Oracle (props.c07.check_stage = the property statement, per call - outer, inner, every thread's call):
  (a) the input library is structurally equal to its prior deep copy and consists of the same objects,
  (b) no mutable object reachable from the result is an object of the input graph,
  (c) nor of any library handed out earlier in the case (the other inputs, results of calls that already returned),
  (d) at the end every library handed out is still equal to the copy taken when it was handed out,
  (e) after the use, the PUBLIC configuration of the instance (every public non-callable attribute) reads what it read
      right after construction (and what a fresh instance reads), and a following plain call on lib0 satisfies (a)-(c)
      and returns a library structurally equal to what a fresh instance returns (or raises the same exception class).
Overlapping calls have no counterpart in the Coq heap model (it runs one call sequence on one heap): oracle only,
sx_in = None, as for the other oracle streams of this property.
"""
import copy
import json
import logging
import os
import threading
import warnings

CHANNELS = ["field", "str", "block", "deepcopy", "log_filter", "log_handler", "warn", "mwsub", "mixed"]
NON_BLOCK = ("Resolve", "SortBlocks", "LibraryMiddleware")
EXT_POINTS = ("transform_block", "transform_entry", "transform_string", "transform_preamble", "transform_explicit_comment",
              "transform_implicit_comment")
STR_METHODS = ["startswith", "endswith", "lower", "upper", "strip", "lstrip", "rstrip", "split", "rsplit", "replace", "isdigit",
               "isdecimal", "isnumeric", "join", "format", "encode", "find", "rfind", "index", "count", "capitalize", "title",
               "casefold", "partition", "rpartition", "splitlines", "translate", "isspace", "isalpha", "isupper", "islower",
               "__getitem__", "__len__", "__iter__", "__contains__", "__eq__", "__ne__", "__hash__", "__add__", "__mod__",
               "__str__", "__repr__", "__format__", "__lt__", "__gt__", "__le__", "__ge__"]
SCHEDULES = {
    # actor -> number of park points; script of (step, actor).  After every step the controller waits until that actor is
    # parked or done.  An actor that has fewer events than park points simply finishes earlier: its later steps are no-ops.
    "b_inside_a": ({"A": 1, "B": 0}, [("start", "A"), ("start", "B"), ("resume", "A")]),
    "crossing": ({"A": 1, "B": 1}, [("start", "A"), ("start", "B"), ("resume", "A"), ("resume", "B")]),
    "nested3": ({"A": 1, "B": 1, "C": 0}, [("start", "A"), ("start", "B"), ("start", "C"), ("resume", "B"), ("resume", "A")]),
    "a_twice": ({"A": 2, "B": 0, "C": 0}, [("start", "A"), ("start", "B"), ("resume", "A"), ("start", "C"), ("resume", "A")]),
    "pingpong": ({"A": 2, "B": 1}, [("start", "A"), ("start", "B"), ("resume", "A"), ("resume", "B"), ("resume", "A")]),
    "b_c_inside_a": ({"A": 1, "B": 0, "C": 0}, [("start", "A"), ("start", "B"), ("start", "C"), ("resume", "A")]),
    "crossing3": ({"A": 1, "B": 1, "C": 1}, [("start", "A"), ("start", "B"), ("start", "C"), ("resume", "A"), ("resume", "B"),
                                             ("resume", "C")]),
}
# re-entrancy in one thread is always properly nested (last in, first out) and has its own stream; what only threads can do is
# NOT nested: a call that starts inside another one and ends after it.  Those schedules come round more often.
SCHEDULE_ORDER = ["crossing", "b_inside_a", "pingpong", "crossing3", "a_twice", "crossing", "nested3", "pingpong", "b_c_inside_a",
                  "crossing"]
WAIT_S = 8.0


def _factor():
    try:
        return max(1, int(os.environ.get("VERIF_TIMEOUT_FACTOR", "1")))
    except ValueError:
        return 1


# ---------------------------------------------------------------------------------------------- events
_TLS = threading.local()


class Ctx:
    """the events of ONE armed call in one thread: counted per channel, an action at the chosen indices"""

    def __init__(self, channels, fire_at=(), action=None):
        self.channels = set(channels)
        self.fire_at = set(fire_at)
        self.action = action
        self.n = 0
        self.fired = 0
        self.busy = False
        self.seen = {}
        self.errors = []

    def event(self, channel, what):
        if self.busy or channel not in self.channels:
            return
        i = self.n
        self.n += 1
        self.seen[channel] = self.seen.get(channel, 0) + 1
        if self.action is not None and i in self.fire_at:
            self.busy = True
            try:
                self.fired += 1
                self.action(self, i, channel, what)
            except Exception as e:  # noqa: BLE001 - user code that swallows its own trouble; looked at after the call
                self.errors.append(e)
            finally:
                self.busy = False


def EVENT(channel, what=""):
    ctx = getattr(_TLS, "ctx", None)
    if ctx is not None:
        ctx.event(channel, what)


def armed(ctx, fn, *args):
    """fn(*args) with `ctx` receiving the events of this thread (None: nobody listens)"""
    prev = getattr(_TLS, "ctx", None)
    _TLS.ctx = ctx
    try:
        return fn(*args)
    finally:
        _TLS.ctx = prev


def channels_of(channel):
    return CHANNELS[:-1] if channel == "mixed" else [channel]


# ---------------------------------------------------------------------------------------------- user classes
_NS = {}


def _std_deepcopy(self, memo):
    cls = type(self)
    y = cls.__new__(cls)
    memo[id(self)] = y
    for k, v in list(vars(self).items()):
        vars(y)[k] = copy.deepcopy(v, memo)
    return y


def user_classes():
    """built once per process from the classes of the tree under test"""
    if _NS:
        return _NS
    import bibtexparser.model as model

    def base_set(owner, obj, name, value):
        for c in owner.__mro__[1:]:
            d = vars(c).get(name)
            if d is not None and hasattr(d, "__set__"):
                d.__set__(obj, value)
                return
        object.__setattr__(obj, name, value)

    class UserField(model.Field):
        _verif_probe_class = True

        @property
        def key(self):
            EVENT("field", "key")
            return super().key

        @key.setter
        def key(self, v):
            EVENT("field", "key=")
            base_set(UserField, self, "key", v)

        @property
        def value(self):
            EVENT("field", "value")
            return super().value

        @value.setter
        def value(self, v):
            EVENT("field", "value=")
            base_set(UserField, self, "value", v)

        def __deepcopy__(self, memo):
            EVENT("deepcopy", "Field")
            return _std_deepcopy(self, memo)
    UserField.__qualname__ = "UserField"

    def wrap(name):
        base = getattr(str, name)

        def m(self, *a, **k):
            EVENT("str", name)
            return base(self, *a, **k)
        m.__name__ = name
        return m
    ns = {name: wrap(name) for name in STR_METHODS}
    ns["__slots__"] = ()
    UserStr = type("UserStr", (str,), ns)

    blocks = {}
    for bn in ("Entry", "String", "Preamble", "ExplicitComment", "ImplicitComment"):
        base = getattr(model, bn)

        def mk(base):
            def __getattribute__(self, name):
                if not (name.startswith("__") and name.endswith("__")):
                    EVENT("block", name)
                return base.__getattribute__(self, name)

            def __deepcopy__(self, memo):
                EVENT("deepcopy", base.__name__)
                return _std_deepcopy(self, memo)
            return type("User" + base.__name__, (base,), {"_verif_probe_class": True, "__getattribute__": __getattribute__,
                                                         "__deepcopy__": __deepcopy__})
        blocks[base] = mk(base)
    _NS.update(UserField=UserField, UserStr=UserStr, blocks=blocks, mw={})
    return _NS


def user_mw_class(cls):
    """a user subclass of a shipped block middleware class overriding the documented extension points"""
    U = user_classes()
    if cls not in U["mw"]:
        holder = []

        def mk(n):
            def m(self, *a, **k):
                EVENT("mwsub", n + ":before")
                r = getattr(super(holder[0], self), n)(*a, **k)
                EVENT("mwsub", n + ":after")
                return r
            m.__name__ = n
            return m
        ns = {n: mk(n) for n in EXT_POINTS if callable(getattr(cls, n, None))}
        holder.append(type("User" + cls.__name__, (cls,), ns))
        U["mw"][cls] = holder[0]
    return U["mw"][cls]


def make_instance(P, spec, channel):
    """the copy-mode instance under test: the shipped class, or (mwsub / mixed, block middlewares) the user's subclass of it.
    The subclass adds no state and no constructor, so an instance of it is the shipped instance with another class."""
    mw = P.make_mw(spec, False)
    if channel in ("mwsub", "mixed") and spec[0] not in NON_BLOCK:
        try:
            mw.__class__ = user_mw_class(type(mw))
        except TypeError:          # a class whose instances cannot change class: the shipped instance as it is
            pass
    return mw


# ---------------------------------------------------------------------------------------------- decorating a parsed library
def _entries(lib):
    from bibtexparser.model import Entry
    seen = set()
    for b in lib.blocks:
        for e in (b, getattr(b, "ignore_error_block", None), getattr(b, "previous_block", None)):
            if isinstance(e, Entry) and id(e) not in seen:
                seen.add(id(e))
                yield e


def _ustr(U, v):
    if type(v) is str:
        return U["UserStr"](v)
    if type(v) is list:
        return [_ustr(U, x) if type(x) is str else x for x in v]
    return v


def decorate(lib, channel):
    """the parsed library with the user's objects in it (public constructors and setters only); returns the library to use"""
    from bibtexparser.library import Library
    from bibtexparser.model import DuplicateBlockKeyBlock, ExplicitComment, ImplicitComment, Preamble, String
    U = user_classes()
    if channel in ("str", "mixed"):
        for e in _entries(lib):
            e.key = _ustr(U, e.key)
            e.entry_type = _ustr(U, e.entry_type)
            for f in e.fields:
                f.key = _ustr(U, f.key)
                f.value = _ustr(U, f.value)
        for b in lib.blocks:
            for s in (b, getattr(b, "ignore_error_block", None)):
                if isinstance(s, String):
                    s.key, s.value = _ustr(U, s.key), _ustr(U, s.value)
                elif isinstance(s, Preamble):
                    s.value = _ustr(U, s.value)
                elif isinstance(s, (ExplicitComment, ImplicitComment)):
                    s.comment = _ustr(U, s.comment)
    if channel in ("field", "deepcopy", "mixed"):
        for e in _entries(lib):
            e.fields = [U["UserField"](f.key, f.value, f.start_line) for f in e.fields]
    if channel in ("block", "deepcopy", "mixed"):
        def ub(b):
            t = type(b)
            if t not in U["blocks"]:
                return b
            c = U["blocks"][t]
            if hasattr(b, "fields"):
                n = c(b.entry_type, b.key, b.fields, b.start_line, b.raw)
            elif isinstance(b, String):
                n = c(b.key, b.value, b.start_line, b.raw)
            elif isinstance(b, Preamble):
                n = c(b.value, b.start_line, b.raw)
            else:
                n = c(b.comment, b.start_line, b.raw)
            n.parser_metadata.update(b.parser_metadata)
            return n
        new = []
        for b in lib.blocks:
            if isinstance(b, DuplicateBlockKeyBlock) and b.ignore_error_block is not None:
                new.append(ub(b.ignore_error_block))       # Library.add builds the duplicate wrapper again, around the user's block
            else:
                new.append(ub(b))
        lib = Library(new)
    return lib


def build(P, doc, channel):
    return decorate(P.parse(doc["text"], doc["parse"]), channel)


# ---------------------------------------------------------------------------------------------- who listens
class _Filter:
    def filter(self, record):
        EVENT("log_filter", record.name)
        return True


class _Handler(logging.Handler):
    def createLock(self):
        self.lock = None              # a handler without a lock: a thread parked in emit() does not block the others

    def emit(self, record):
        EVENT("log_handler", record.name)


class Listening:
    """for the duration of the judged part: logging enabled, every logger of the library at DEBUG with the user's filter, the
    user's handler on the top logger, every warning delivered to the user's showwarning.  Everything is put back on exit."""

    def __enter__(self):
        import bibtexparser.middlewares  # noqa: F401 - the library's loggers exist once its modules are imported
        self.disabled = logging.root.manager.disable
        logging.disable(logging.NOTSET)
        self.filter, self.handler = _Filter(), _Handler(level=logging.DEBUG)
        reg = logging.root.manager.loggerDict
        self.loggers = [(lg, lg.level) for name, lg in sorted(reg.items())
                        if (name == "bibtexparser" or name.startswith("bibtexparser.")) and isinstance(lg, logging.Logger)]
        for lg, _ in self.loggers:
            lg.setLevel(logging.DEBUG)
            lg.addFilter(self.filter)
        self.top = logging.getLogger("bibtexparser")
        self.top_level = self.top.level
        self.top.setLevel(logging.DEBUG)
        self.top.addHandler(self.handler)
        self.cw = warnings.catch_warnings()
        self.cw.__enter__()
        warnings.simplefilter("always")
        warnings.showwarning = lambda message, category, *a, **k: EVENT("warn", getattr(category, "__name__", "?"))
        return self

    def __exit__(self, *exc):
        self.cw.__exit__(None, None, None)
        self.top.removeHandler(self.handler)
        self.top.setLevel(self.top_level)
        for lg, level in self.loggers:
            lg.removeFilter(self.filter)
            lg.setLevel(level)
        logging.disable(self.disabled)
        return False


# ---------------------------------------------------------------------------------------------- generators
def gen_small_text(rng, P):
    """props.c07.gen_text with fewer items: what matters here is WHEN calls overlap, and every judged call walks the whole graph"""
    import gens_split as G
    if rng.random() < 0.08:
        return rng.choice(P.HAND_DOCS)
    ek = rng.sample(["k1", "k2", "K1", "b"], rng.randint(1, 2))
    sk = rng.sample(["abbr", "jan", "Foo", "k1"], rng.randint(1, 2))
    fn = rng.sample(P.FIELD_POOL, rng.randint(2, 4))
    text, _ = G.gen_doc(rng, max_items=rng.choice([1, 2, 3]), depth=2, entry_keys=ek, string_keys=sk, field_names=fn,
                        bare_pool=["abbr", "jan", "Foo", "12", "3", "mar", "k1", "1990"])
    if rng.random() < 0.7:
        extra = "@%s{%s, author = {%s}, editor = {%s}, month = %s}\n" % (
            rng.choice(["article", "book"]), rng.choice(ek), " and ".join(rng.choice(P.NAMES) for _ in range(rng.randint(1, 2))),
            rng.choice(P.NAMES), rng.choice(["jan", "{March}", "13", "\"2\"", "abbr"]))
        text = text + extra if rng.random() < 0.5 else extra + text
    if rng.random() < 0.15:
        text = G.mutate(rng, text)
    return text


def gen_docs(rng, P, spec, channel, n):
    import props.c07_bodies as B
    popt = B.parse_opt_for(spec, rng) if rng.random() < 0.75 else rng.choice(P.PARSE_OPTS)
    docs = []
    for _ in range(n):
        text = gen_small_text(rng, P)
        # duplicate keys / a failed block: the blocks the base class warns about ("Unknown block type")
        if channel in ("log_filter", "log_handler", "mixed") or rng.random() < 0.4:
            k = rng.choice(["k1", "dup", "K1"])
            tail = rng.choice(P.DUP_TAILS) % (k, k)
            text = text + "\n" + tail if rng.random() < 0.6 else tail + text
        docs.append({"text": text, "parse": popt})
    if channel == "warn" and spec[0] == "Resolve":
        for d in docs:
            d["parse"] = "default"           # enclosing already removed: the one warning Resolve gives
    return docs


DECORATED = ["field", "str", "block", "deepcopy"]        # the library holds the user's objects
PLAIN = ["log_filter", "log_handler", "mwsub"]           # the library is as parsed: somebody listens / the class is the user's


def applicable(name):
    """the channels through which a class can give control at all: (with the user's objects in the library, without)"""
    if name == "LibraryMiddleware":
        return ["deepcopy"], []                            # the base class only copies
    if name == "SortBlocks":
        return ["str", "block", "deepcopy"], []            # reads keys and classes of blocks, no field; logs nothing
    if name == "Resolve":
        return DECORATED, ["warn"]
    return DECORATED, PLAIN


def channels_for(name, r):
    """the channels of round r for a class: all at once, one kind of user object, one listener - over the rounds every
    channel that can give control with the class comes round"""
    dec, plain = applicable(name)
    out = ["mixed", dec[r % len(dec)]]
    if plain:
        out.append(plain[r % len(plain)])
    return out


def by_class(P):
    out = {}
    for s in P.SPECS:
        out.setdefault(s[0], []).append(s)
    return out


def generate(rng, tier, P):
    """every shipped class, `rounds` times, each time through three channels (all at once / one kind of user object / one
    listener, walking through the kinds), the option set of the class and everything else drawn; the thread stream also
    walks through the schedules so that every class meets several of them"""
    quick = tier == "quick"
    cases = []
    classes = by_class(P)
    r = rng.randrange(12)
    for _ in range(2 if quick else 36):
        for ci, name in enumerate(classes):
            r += 1
            for channel in channels_for(name, r + ci):
                spec = rng.choice(classes[name])
                cases.append({"stream": "reent", "input": {
                    "kind": "reent", "mode": "reenter", "spec": spec, "channel": channel, "docs": gen_docs(rng, P, spec, channel, 2),
                    "start": rng.choice([0, 0, 1, 2, 3, 5, 8, 13, 21]) if rng.random() < 0.6 else rng.randrange(200),
                    "step": rng.choice([1, 2, 3, 7]), "fires": rng.choice([1, 1, 1, 2]),
                    "inner_mw": rng.choice(["same", "same", "other", "both"]), "inner_lib": rng.choice(["other", "other", "self"]),
                    "depth": 2 if rng.random() < 0.15 else 1}})
    names = SCHEDULE_ORDER
    k = rng.randrange(len(names))
    for _ in range(2 if quick else 36):
        for ci, name in enumerate(classes):
            r += 1
            for channel in channels_for(name, r + ci):
                spec = rng.choice(classes[name])
                k += 1
                sched = names[k % len(names)] if rng.random() < 0.8 else rng.choice(names)
                actors = sorted(SCHEDULES[sched][0])
                n_docs = rng.choice([2, 2, 3]) if len(actors) > 2 else 2
                libs = {"A": 0, "B": rng.choice([1, 1, 1, 0])}
                if "C" in actors:
                    libs["C"] = rng.randrange(n_docs)
                cases.append({"stream": "thr", "input": {
                    "kind": "reent", "mode": "threads", "spec": spec, "channel": channel, "docs": gen_docs(rng, P, spec, channel, n_docs),
                    "schedule": sched, "libs": libs,
                    "parks": {a: sorted(set(rng.choice([0, 0, 1, 2, 3, 5, 8, 13]) if rng.random() < 0.6 else rng.randrange(200)
                                            for _ in range(SCHEDULES[sched][0][a]))) for a in actors},
                    "c_mw": rng.choice(["same", "same", "other"]),
                    # then A and B crossing at these pairs of events, judged without the per-call copies (see `light`)
                    "sweep": [[rng.randrange(40), rng.randrange(40)] for _ in range(4)]}})
    return cases


# ---------------------------------------------------------------------------------------------- the real side
def pubconf(mw):
    """the public configuration of a middleware instance: every public attribute that is not callable, by repr"""
    out = {}
    for n in dir(mw):
        if n.startswith("_"):
            continue
        try:
            v = getattr(mw, n)
        except Exception as e:  # noqa: BLE001
            v = ("raised", type(e).__name__)
        if callable(v):
            continue
        out[n] = repr(v)
    return out


_DRY = {}


def dry_count(P, inp, doc_index, channel):
    """how many events of the channel the plain call `fresh_instance.transform(library of this document)` gives"""
    key = (id(inp), doc_index, channel)
    if _DRY.get("for") is not inp:
        _DRY.clear()
        _DRY["for"] = inp
    if key in _DRY:
        return _DRY[key]
    _DRY[key] = r = _dry_count(P, inp, doc_index, channel)
    return r


def _dry_count(P, inp, doc_index, channel):
    ctx = Ctx(channels_of(channel))
    try:
        lib = build(P, inp["docs"][doc_index], channel)
        mw = make_instance(P, inp["spec"], channel)
        armed(ctx, mw.transform, lib)
    except Exception:  # noqa: BLE001 - the events up to the point where the call gives up
        pass
    return ctx.n, dict(ctx.seen)


class State:
    def __init__(self, HS):
        self.HS = HS
        self.registry = {}
        self.handed = []
        self.problems = []
        self.tags = []
        self.unknown = []
        self.keep = []

    def hand_out(self, what, lib):
        if not any(l is lib for _, l, _ in self.handed):
            self.handed.append((what, lib, self.HS.clone(lib)))
            self.registry.update(self.HS.reachable([lib]))

    def judged(self, P, what, lib, mw, ctx, role, last=False):
        """one judged call; returns the result or None (raised).  Never raises anything but BaseException."""
        HS = self.HS
        try:
            res, pr, _ = P.check_stage(lib, lambda l: armed(ctx, mw.transform, l), what, registry=self.registry)
        except HS.UnknownObject as e:
            self.unknown.append("%s: %s" % (what, e))
            return None
        except Exception as e:  # noqa: BLE001  a middleware rejecting the value types it meets is not C07's subject, but the
            self.problems += getattr(e, "_c07_pre", [])          # input must be intact and deepcopy must not be the cause
            self.tags.append("%s_%s_raised_%s" % (self.prefix, role, type(e).__name__))
            return None
        finally:
            if ctx is not None:
                for e in ctx.errors:
                    if isinstance(e, HS.UnknownObject):
                        self.unknown.append("%s (in a callback): %s" % (what, e))
                    else:
                        self.tags.append("%s_callback_error_%s" % (self.prefix, type(e).__name__))
        self.problems += pr
        self.tags.append("%s_%s_completed" % (self.prefix, role))
        if not last:
            self.hand_out("result of " + what, res)
        return res


def light(S, what, lib, mw, ctx, role):
    """a call judged without the per-call copies: (b) + (c) now - nothing reachable from the result is an object of a library
    handed out so far, its own input included - and (a) at the end of the case, when every library handed out is compared
    with the copy taken then.  A tenth of the cost of check_stage: used for the sweep of crossing interleavings."""
    HS = S.HS
    try:
        res = armed(ctx, mw.transform, lib)
    except HS.UnknownObject as e:
        S.unknown.append("%s: %s" % (what, e))
        return None
    except Exception as e:  # noqa: BLE001
        S.tags.append("%s_%s_raised_%s" % (S.prefix, role, type(e).__name__))
        return None
    try:
        out = HS.reachable([res])
    except HS.UnknownObject as e:
        S.unknown.append("%s: %s" % (what, e))
        return None
    sh = [x for i, x in out.items() if i in S.registry]
    if sh:
        S.problems.append("%s: result shares %d mutable object(s) with a library handed out before (its input or another): %s (e.g. %s)"
                          % (what, len(sh), ",".join(sorted(set(HS.kind_of(x) for x in sh))), type(sh[0]).__name__))
    S.keep.append(res)
    S.registry.update(out)
    S.tags.append("%s_%s_completed" % (S.prefix, role))
    return res


def fire_indices(start, step, fires, n):
    return sorted(set((start + k * step) % n for k in range(fires))) if n > 0 else []


def run_reenter(P, inp, S, libs, mw, other_mw, channel):
    chans = channels_of(channel)
    n0, seen = dry_count(P, inp, 0, channel)
    for c in seen:
        S.tags.append("reent_events_on_" + c)
    inner_lib = libs[1] if inp["inner_lib"] == "other" else libs[0]
    targets = {"same": [("the SAME instance", mw)], "other": [("ANOTHER instance of the class", other_mw)],
               "both": [("the SAME instance", mw), ("ANOTHER instance of the class", other_mw)]}[inp["inner_mw"]]
    n1 = dry_count(P, inp, 1 if inp["inner_lib"] == "other" else 0, channel)[0] if inp["depth"] > 1 else 0
    count = {"inner": 0, "inner2": 0}

    def action2(ctx, i, ch, what):
        count["inner2"] += 1
        S.judged(P, "depth-2 call (the SAME instance, library 0) from %s event %d of an inner call" % (ch, i), libs[0], mw, None, "inner2")

    def action(ctx, i, ch, what):
        for label, target in targets:
            count["inner"] += 1
            ictx = None
            if inp["depth"] > 1:
                ictx = Ctx(chans, fire_indices(inp["start"] // 2, inp["step"], 1, n1), action2)
            S.judged(P, "inner call (%s, library %d) from %s event %d (%s) of the outer call"
                     % (label, libs.index(inner_lib), ch, i, what), inner_lib, target, ictx, "inner")
    fire = fire_indices(inp["start"], inp["step"], inp["fires"], n0)
    octx = Ctx(chans, fire, action)
    S.judged(P, "outer call (library 0), re-entered at %s event(s) %s" % (channel, fire), libs[0], mw, octx, "outer")
    S.tags.append("reent_inner_calls_%s" % (count["inner"] if count["inner"] < 4 else "4+"))
    if count["inner2"]:
        S.tags.append("reent_depth2_reached")
    if not count["inner"]:
        S.tags.append("reent_no_event_no_inner_call")
    return "%d event(s), %d inner call(s)" % (n0, count["inner"] + count["inner2"])


class Actor:
    def __init__(self, name, lib_index, lib, mw, parks, chans, P, S, sweep=None):
        self.name, self.lib_index, self.lib, self.mw, self.P, self.S, self.sweep = name, lib_index, lib, mw, P, S, sweep
        self.ctx = Ctx(chans, parks, self.park)
        self.signal, self.go = threading.Event(), threading.Event()
        self.finished = False
        self.started = False
        self.parked_n = 0
        self.expired = False
        self.free = False
        self.thread = threading.Thread(target=self.run, name="c07-actor-" + name, daemon=True)

    def park(self, ctx, i, ch, what):
        if self.free:
            return
        self.parked_n += 1
        self.signal.set()
        if not self.go.wait(WAIT_S * _factor()):
            self.expired = True
        self.go.clear()

    def run(self):
        what = "call of thread %s (library %d), parked at events %s" % (self.name, self.lib_index, sorted(self.ctx.fire_at))
        try:
            if self.sweep is None:
                self.S.judged(self.P, what, self.lib, self.mw, self.ctx, "call")
            else:
                light(self.S, "crossing %d of the sweep, %s" % (self.sweep, what), self.lib, self.mw, self.ctx, "sweep_call")
        except BaseException as e:  # noqa: BLE001 - nothing may escape a thread
            self.S.tags.append("thr_thread_died_" + type(e).__name__)
        finally:
            self.finished = True
            self.signal.set()


def run_threads(P, inp, S, libs, mw, other_mw, channel):
    chans = channels_of(channel)
    n_parks, script = SCHEDULES[inp["schedule"]]
    counts = {}
    actors = {}
    for name in sorted(n_parks):
        li = inp["libs"][name]
        if li not in counts:
            counts[li] = dry_count(P, inp, li, channel)[0]
        n = counts[li]
        parks = sorted(set(p % n for p in inp["parks"][name])) if n > 0 else []
        amw = other_mw if (name == "C" and inp["c_mw"] == "other") else mw
        actors[name] = Actor(name, li, libs[li], amw, parks, chans, P, S)
    ok, overlaps = play(actors, script)
    parked = sum(a.parked_n for a in actors.values())
    # the sweep: the same instance, A and B CROSSING (B starts inside A and ends after it) at several pairs of points
    crossed = 0
    for k, (pa, pb) in enumerate(inp.get("sweep", [])):
        if not ok:
            break
        pair = {}
        for name, p in (("A", pa), ("B", pb)):
            li = inp["libs"][name]
            n = counts[li]
            pair[name] = Actor(name, li, libs[li], mw, [p % n] if n > 0 else [], chans, P, S, sweep=k)
        ok, _ = play(pair, SCHEDULES["crossing"][1])
        if pair["A"].parked_n and pair["B"].parked_n:
            crossed += 1
        actors = dict(actors, **{"%s%d" % (n, k): a for n, a in pair.items()})
    if any(a.expired for a in actors.values()):
        ok = False
    S.tags.append("thr_overlapping_starts_%d" % overlaps)
    S.tags.append("thr_parks_reached_%d" % parked)
    S.tags.append("thr_sweep_crossed_%d_of_%d" % (crossed, len(inp.get("sweep", []))))
    if not overlaps:
        S.tags.append("thr_no_event_no_overlap")
    return ok, "%s parks=%s sweep=%d/%d" % (inp["schedule"], {k: a.parked_n for k, a in sorted(actors.items()) if len(k) == 1},
                                            crossed, len(inp.get("sweep", [])))


def play(actors, script):
    """the main thread plays the script: after every step it waits (bounded) until the actor it moved is parked or done.
    Returns (played as written, number of starts made while another call was under way)."""
    ok = True
    overlaps = 0
    try:
        for step, name in script:
            a = actors[name]
            if a.finished:
                continue
            if step == "start":
                if a.started:
                    continue
                if any(b.started and not b.finished for b in actors.values()):
                    overlaps += 1
                a.started = True
                a.signal.clear()
                a.thread.start()
            else:
                if not a.started:
                    continue
                a.signal.clear()
                a.go.set()
            if not a.signal.wait(WAIT_S * _factor()):
                ok = False
                break
    finally:
        # by construction every actor is done when the script is (it has at most as many park points as the script has
        # resume steps for it); whatever happened instead: nobody stays parked, and every thread is joined (bounded)
        pending = [a for a in actors.values() if a.started and not a.finished]
        if pending:
            ok = False
        for a in pending:
            a.free = True
            a.go.set()
        for a in actors.values():
            if a.started:
                a.thread.join(WAIT_S * _factor())
                if a.thread.is_alive():
                    ok = False
    if any(a.expired for a in actors.values()):
        ok = False
    return ok, overlaps


def impl(case, P):
    import heapsnap as HS
    import implutil
    from bibtexparser.model import Entry, String
    inp = case["input"]
    threads = inp["mode"] == "threads"
    prefix = "thr" if threads else "reent"
    rec = {"sx_in": None, "sx_out": None, "key": json.dumps(["reent", inp]), "nontrivial": False}
    S = State(HS)
    S.prefix = prefix
    tags = S.tags
    tags += ["%s_ch_%s" % (prefix, inp["channel"]), "%s_mw_%s" % (prefix, inp["spec"][0])]
    if threads:
        tags.append("thr_sched_" + inp["schedule"])
        if len(set(inp["libs"].values())) < len(inp["libs"]):
            tags.append("thr_two_threads_one_library")
    else:
        tags += ["reent_inner_%s_instance" % inp["inner_mw"], "reent_inner_on_%s_library" % ("the_other" if inp["inner_lib"] == "other" else "the_same")]
    summary = ""
    problems = S.problems
    listening = Listening()
    listening.__enter__()
    try:
        channel = inp["channel"]
        if channel != "mixed" and dry_count(P, inp, 0, channel)[0] == 0:
            # this class gives the chosen channel no control on this document (a block sorter reads no field): all channels then
            channel = "mixed"
            tags.append(prefix + "_channel_silent_so_mixed")
        try:
            libs = [build(P, d, channel) for d in inp["docs"]]
        except Exception as e:  # noqa: BLE001  (C01's business)
            rec.update(oracle={"ok": True, "detail": ""}, tags=["parse_raised"], summary="parse raised " + type(e).__name__)
            return rec
        rec["nontrivial"] = any(isinstance(x, (Entry, String)) for l in libs for b in l.blocks
                                for x in (b, getattr(b, "ignore_error_block", None)))
        mw = make_instance(P, inp["spec"], channel)
        other_mw = make_instance(P, inp["spec"], channel)
        conf0 = {id(mw): pubconf(mw), id(other_mw): pubconf(other_mw)}
        for d, lib in enumerate(libs):
            S.hand_out("library %d as built" % d, lib)
        if threads:
            ok, summary = run_threads(P, inp, S, libs, mw, other_mw, channel)
            if not ok:
                # a bounded wait expired (busy machine, or a library that blocks): the schedule was not played as written and
                # threads may still be running - this process is not trusted any more (as after a per-case time limit)
                implutil.TIMED_OUT[0] = True
                rec.update(oracle={"ok": True, "detail": ""}, tags=["thr_schedule_not_reached"],
                           summary="Timeout: a bounded wait of the thread schedule %s expired" % inp["schedule"])
                return rec
        else:
            summary = run_reenter(P, inp, S, libs, mw, other_mw, channel)
        listening.__exit__(None, None, None)
        listening = None
        # (e) the instance afterwards: public configuration, and a plain call against a fresh instance
        fresh = make_instance(P, inp["spec"], channel)
        for who, m in (("the instance used", mw), ("the other instance of the class", other_mw)):
            conf1, was = pubconf(m), conf0[id(m)]
            if conf1 != was:
                k = sorted(k for k in set(was) | set(conf1) if was.get(k) != conf1.get(k))[0]
                problems.append("after the %s use, %s reads %s = %s; constructed with %s" %
                                ("interleaved" if threads else "re-entrant", who, k, conf1.get(k), was.get(k)))
        cf = pubconf(fresh)
        for k in sorted(cf):
            if " at 0x" not in cf[k] and cf[k] != pubconf(mw).get(k):
                problems.append("after the use the instance reads %s = %s, a fresh instance %s" % (k, pubconf(mw).get(k), cf[k]))
        n_before = len(problems)
        res = S.judged(P, "plain call on library 0 after the %s use" % ("interleaved" if threads else "re-entrant"), libs[0], mw, None, "after", last=True)
        try:
            fres = fresh.transform(libs[0])
        except HS.UnknownObject:
            raise
        except Exception as e:  # noqa: BLE001
            fres = None
            if res is not None:
                problems.append("plain call after the use returned, a fresh instance raises %s" % type(e).__name__)
        if fres is not None:
            if res is None and len(problems) == n_before and not S.unknown:
                problems.append("plain call after the use raised, a fresh instance returns")
            elif res is not None:
                d = HS.struct_diff(res, fres)
                if d is not None:
                    problems.append("plain call after the use differs from what a fresh instance returns at %s" % d)
        # (d) nothing handed out was changed by a later (or an overlapping) call
        for what, l, snap in S.handed:
            dd = HS.struct_diff(l, snap)
            if dd is not None:
                problems.append("%s: changed by a LATER or OVERLAPPING call at %s" % (what, dd))
    except HS.UnknownObject as e:
        S.unknown.append(str(e))
    finally:
        if listening is not None:
            listening.__exit__(None, None, None)
    for u in S.unknown:
        problems.append("snapshotter met an unknown object (fail closed): %s" % u)
    seen, uniq = set(), []
    for p in problems:
        if p not in seen:
            seen.add(p)
            uniq.append(p)
    rec["summary"] = "%s %s %s: %s" % (inp["mode"], inp["spec"], inp["channel"], summary)
    rec["oracle"] = {"ok": not uniq, "detail": "; ".join(uniq[:3])}
    rec["tags"] = sorted(set(tags))
    return rec
