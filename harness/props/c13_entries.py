"""C13, entry level: ENTRIES THE PARSER NEVER PRODUCES BUT THE MODEL ALLOWS (imported by c13.py only).

`Entry.fields` is a list, so one entry may hold the SAME name-field key several times (two `author` fields with different
names; it is what `DuplicateFieldKeyBlock.ignore_error_block` hands out), keys that differ in case only (`author` +
`Author`), name fields holding already structured values (lists of NameParts) next to plain ones, and several name fields
of which a LATER one is invalid.  The name middlewares walk the field list: every field must be transformed from ITS OWN
value (every word kept once, assigned by BibTeX's rules), whatever the other fields are called; an invalid name yields a
MiddlewareErrorBlock that retains the entry: same type, key, field names, start line and raw text, the field holding the
invalid name and all fields that are not name fields unchanged, every other name field either unchanged or holding what
its own value gives (never what another field's value gives).

Case input (level "ent"):
    entries   [{"type", "key", "fields": [[key, value], ...]}]     value: str | {"list": [str | {"parts": [f, v, l, j]} |
                                                                    {"int": n}]} | {"int": n} | {"none": 1}
    mws       stack of 0 SeparateCoAuthors | 1 MergeCoAuthors | 2 SplitNameParts | [3, s] MergeNameParts(last/first/other)
    nf        None (default name fields) or the list given as `name_fields` to every middleware of the stack
    inplace   allow_inplace_modification of every middleware
    via       "built" (model classes) | "parser" (the bib text of the one entry is parsed; the entry the parser hands out -
              for a duplicated field key the inner entry of the DuplicateFieldKeyBlock - goes on, one brace layer removed)
One entry: compared with the Coq model (op 90) as well.  Several entries (ONE stack of middleware objects over a library of
all of them): oracle only, as for the stream `library` (the model is per block).
"""
import json

from props import names_common as nc

NAME_FIELDS = ("author", "editor", "translator")
REALISTIC = ["Ludwig van Beethoven", "Brinch Hansen, Per", "Leslie B. Lamport", "Charles Louis de la Vallee Poussin",
             "von Neumann, John", "Beeblebrox, IV, Zaphod", "Donald E. Knuth", "de la Fontaine, Jean", "Ford, Jr., Henry",
             "jean de la fontaine", "Jean-Paul {\\'E}mile de~la Tour", "{Barnes and Noble, Inc.} Staff"]
# invalid for a comma reason (braces balanced: such a name can stand in a bib text) / for a brace reason
BAD_COMMA = ["Knuth, Donald,", "Aa, Bb, Cc, Dd", "Bb,", "von Aa, jr, Bb, Cc", ",", "de la Xx, Yy,"]
BAD_BRACE = ["Aa Bb Cc}", "Aa {Bb Cc", "{Aa bb", "de la Aa} Bb"]
CASE_KEYS = {"author": ["Author", "AUTHOR", "aUTHOR", "author ", "authors"], "editor": ["Editor", "EDITOR"],
             "translator": ["Translator"]}
OTHER_KEYS = ["title", "year", "note", "publisher"]

STACKS_STR = [[0, 2], [0, 2], [0], [0, 2, [3, 0]], [0, 2, [3, 1]], [0, 1], [0, 2, [3, 0], 1]]
STACKS_LIST = [[2], [2], [2], [2], [2, [3, 0]], [2, [3, 1]], [1], [2, [3, 0], 1], [2, [3, 0], 2], [2, [3, 1], 2]]
STACKS_PARTS = [[[3, 0]], [[3, 1]], [[3, 0], 2], [[3, 0], 1], [[3, 1], 2, [3, 0]]]


# ---------------------------------------------------------------- reference (from the property text)
# the reference for one name: c13.impl() sets it (BibTeX's own von test for the verdict, the in-house rule to tell K14)
PARSE = nc.spec_parse


def P(d):
    return {"parts": [list(d["first"]), list(d["von"]), list(d["last"]), list(d["jr"])]}


def is_parts(x):
    return isinstance(x, dict) and "parts" in x


def merge_last(p):
    f, v, l, j = p["parts"]

    def esc(s):
        return s + "\\" if (len(s) - len(s.rstrip("\\"))) % 2 == 1 else s
    return ", ".join(esc(x) for x in [" ".join(v + l), " ".join(j), " ".join(f)] if x)


def merge_first(p):
    f, v, l, j = p["parts"]
    return " ".join(x for x in [" ".join(f), " ".join(v), " ".join(l), " ".join(j)] if x)


def ref_step(m, v):
    """one middleware on the value of one name field: ("ok", new value) | ("invalid", name) | ("ill",) ill-typed usage |
    ("unknown",) outside what the reference defines"""
    if m == 0:
        if not isinstance(v, str):
            return ("ill",)
        if not nc.balanced(v.strip(nc.WS4)):
            return ("unknown",)
        return ("ok", nc.ref_split(v))
    if m == 1:
        if not isinstance(v, list):
            return ("ok", v)
        if not all(isinstance(x, str) for x in v):
            return ("ill",)
        return ("ok", " and ".join(v))
    if m == 2:
        if not isinstance(v, list) or not all(isinstance(x, str) for x in v):
            return ("ill",)
        out = []
        for n in v:
            d = PARSE(n)
            if d is None:
                return ("invalid", n)
            out.append(P(d))
        return ("ok", out)
    style = m[1]
    if style not in (0, 1) or not isinstance(v, list) or not all(is_parts(x) for x in v):
        return ("ill",)
    return ("ok", [(merge_last if style == 0 else merge_first)(x) for x in v])


def ref_entry(fields, mws, nf):
    """the stack on one entry, field by field, every field from its own value.
    ("ok", values) | ("error", stage, values before that stage, per-field step results, index of the first invalid field) |
    ("ill", stage) | ("unknown", stage)"""
    state = [v for _, v in fields]
    for si, m in enumerate(mws):
        res = [ref_step(m, v) if k in nf else None for (k, _), v in zip(fields, state)]
        if any(r is not None and r[0] == "ill" for r in res):
            return ("ill", si)
        if any(r is not None and r[0] == "unknown" for r in res):
            return ("unknown", si)
        bad = [i for i, r in enumerate(res) if r is not None and r[0] == "invalid"]
        if bad:
            return ("error", si, state, res, bad[0])
        state = [v if r is None else r[1] for v, r in zip(state, res)]
    return ("ok", state)


def unj(v):
    """case value -> reference value (NameParts stay {"parts": ...})"""
    if isinstance(v, dict):
        if "list" in v:
            return [unj(x) for x in v["list"]]
        if "int" in v:
            return v["int"]
        if "parts" in v:
            return {"parts": [list(x) for x in v["parts"]]}
        return None
    return v


def norm(v):
    """implementation value -> reference value"""
    if type(v).__name__ == "NameParts":
        return {"parts": [list(v.first), list(v.von), list(v.last), list(v.jr)]}
    if isinstance(v, list):
        return [norm(x) for x in v]
    return v


def check_entry(desc_fields, mws, nf, blk, etype, ekey, line, raw):
    """(ok, detail, tag) - the property on ONE block that the stack returned for the entry with fields desc_fields"""
    ref = ref_entry(desc_fields, mws, nf)
    cn = type(blk).__name__
    keys = [k for k, _ in desc_fields]

    def whose(val, i, cand):
        for j, c in enumerate(cand):
            if j != i and c is not None and c == val:
                return " - that is what field #%d `%s` gives" % (j, keys[j])
        return ""
    if ref[0] in ("ill", "unknown"):
        return True, "", "ent_" + ("illtyped" if ref[0] == "ill" else "separate_unbalanced")
    if ref[0] == "ok":
        if cn != "Entry":
            return False, "valid names gave %s (%s)" % (cn, getattr(blk, "error", "")), "ent_ok"
        if blk.key != ekey or blk.entry_type != etype or [f.key for f in blk.fields] != keys:
            return False, "key, type or field names changed: %r" % ([f.key for f in blk.fields],), "ent_ok"
        for i, ((k, v0), exp, f) in enumerate(zip(desc_fields, ref[1], blk.fields)):
            got = norm(f.value)
            if got != exp:
                if k not in nf:
                    return False, "field #%d `%s` is no name field but changed: %r -> %r" % (i, k, v0, got), "ent_ok"
                return False, "field #%d `%s`: %r must become %r (its own words, each once, by BibTeX's rules), got %r%s" % (
                    i, k, v0, exp, got, whose(got, i, ref[1])), "ent_ok"
        return True, "", "ent_ok"
    _, si, pre, res, first_bad = ref
    tag = "ent_error_block"
    invalid = [r[1] for r in res if r is not None and r[0] == "invalid"]
    if cn != "MiddlewareErrorBlock":
        return False, "invalid name %r (field #%d `%s`) did not give a MiddlewareErrorBlock but %s" % (
            invalid[0], first_bad, keys[first_bad], cn), tag
    if type(blk.error).__name__ != "InvalidNameError":
        return False, "error is %s" % type(blk.error).__name__, tag
    if not any(n in str(blk.error) for n in invalid):
        return False, "the reported error %r names none of the entry's invalid names %r" % (str(blk.error), invalid), tag
    inner = blk.ignore_error_block
    if type(inner).__name__ != "Entry" or inner.key != ekey or inner.entry_type != etype or [f.key for f in inner.fields] != keys:
        return False, "the error block does not retain the entry (key, type, field names)", tag
    if blk.start_line != line or blk.raw != raw:
        return False, "start_line/raw of the error block differ from the entry's", tag
    own = [r[1] if r is not None and r[0] == "ok" else None for r in res]
    for i, (k, v0, r, f) in enumerate(zip(keys, pre, res, inner.fields)):
        got = norm(f.value)
        if got == v0:
            continue
        if r is None:
            return False, "field #%d `%s` of the retained entry is no name field but changed: %r -> %r" % (i, k, v0, got), tag
        if i == first_bad or r[0] == "invalid":
            return False, "field #%d `%s` of the retained entry holds an invalid name but was altered: %r -> %r%s" % (
                i, k, v0, got, whose(got, i, own) or whose(got, i, pre)), tag
        if got != r[1]:
            return False, "field #%d `%s` of the retained entry: %r became %r, neither unchanged nor what its own value gives (%r)%s" % (
                i, k, v0, got, r[1], whose(got, i, own) or whose(got, i, pre)), tag
    return True, "", tag


# ---------------------------------------------------------------- generator
def _good(rng, pools):
    realistic, good = pools
    return rng.choice(realistic) if rng.random() < 0.35 else rng.choice(good)


def _value(rng, start, names):
    """the value of a name field for a stack that starts on str / list / parts"""
    if start == "str":
        return " and ".join(names)
    if start == "parts":
        return {"list": [P(nc.spec_parse(n)) for n in names]}
    return {"list": list(names)}


def _stack(rng, start):
    return rng.choice({"str": STACKS_STR, "list": STACKS_LIST, "parts": STACKS_PARTS}[start])


def _distinct_names(rng, pools, used, lo, hi):
    out = []
    for _ in range(rng.randint(lo, hi)):
        for _ in range(5):
            n = _good(rng, pools)
            if n not in used and n.strip(nc.WS5):
                break
        used.add(n)
        out.append(n)
    return out


def _entry(rng, pools, bad, kind, start, key="key1"):
    """one entry of the class.  kind: dup | case | later | mixed"""
    used = set()
    nkeys = []
    if kind in ("dup", "mixed") or (kind == "later" and rng.random() < 0.4):
        k = rng.choice(NAME_FIELDS)
        nkeys += [k] * rng.choice([2, 2, 2, 3])
        for k2 in rng.sample(NAME_FIELDS, rng.choice([0, 0, 1, 2])):
            nkeys.append(k2)
    if kind in ("case", "mixed"):
        k = rng.choice(NAME_FIELDS)
        nkeys += [k, rng.choice(CASE_KEYS[k])]
        if rng.random() < 0.3:
            nkeys.append(rng.choice(CASE_KEYS[k]))
    if kind == "later":
        for k2 in rng.sample(NAME_FIELDS, rng.choice([2, 3, 3])):
            if k2 not in nkeys or rng.random() < 0.2:
                nkeys.append(k2)
    rng.shuffle(nkeys)
    fields = []
    for k in nkeys:
        fields.append([k, _distinct_names(rng, pools, used, 0 if rng.random() < 0.1 else 1, 3)])
    # an invalid name: in a LATER name field as a rule, so that transformed fields precede it
    nbad = {"later": rng.choice([1, 1, 1, 2]), "dup": rng.choice([0, 0, 0, 1]), "case": rng.choice([0, 0, 0, 1]),
            "mixed": rng.choice([0, 0, 1])}[kind] if start != "parts" else 0
    real = [i for i, (k, _) in enumerate(fields)]
    for _ in range(nbad):
        i = rng.choice(real[1:]) if len(real) > 1 and rng.random() < 0.85 else rng.choice(real)
        fields[i][1].insert(rng.randint(0, len(fields[i][1])), rng.choice(bad))
    fields = [[k, _value(rng, start, v)] for k, v in fields]
    for _ in range(rng.choice([0, 1, 1, 2])):
        k = rng.choice(OTHER_KEYS)
        v = rng.choice(["T", "Aa, bb,", "{Aa bb", "1999", "", "Aa and Bb"])
        fields.insert(rng.randint(0, len(fields)), [k, v])
    return {"type": rng.choice(["book", "article"]), "key": key, "fields": fields}


def _case(stream, entries, mws, nf=None, inplace=True, via="built"):
    return {"stream": stream, "input": {"level": "ent", "entries": entries, "mws": mws, "nf": nf, "inplace": inplace, "via": via}}


def text_ok(s):
    """a name that can stand inside a braced field value of a bib text without changing where the value ends"""
    return nc.balanced(s) and "\\{" not in s and "\\}" not in s and not s.endswith("\\") and "@" not in s and s == s.strip(nc.WS4)


def entry_class_cases(rng, tier, pn, pool):
    quick = tier == "quick"
    n_rand = 1300 if quick else 13000
    sample = rng.sample(pool, min(4000, len(pool)))
    good = [s for s in sample if nc.spec_parse(s) is not None and s.strip(nc.WS5)]
    good += [s for s in rng.sample(pn, min(4000, len(pn))) if nc.spec_parse(s) is not None]
    # no word `and` inside a name: co-author strings are joined with ` and ` and must split back into these names
    good = [s for s in good if not any(nc.is_and(s[a:b]) for a, b in nc.top_words(s))]
    bad_pool = [s for s in sample if nc.spec_parse(s) is None]
    bad_all = BAD_COMMA + BAD_BRACE + rng.sample(bad_pool, min(40, len(bad_pool)))
    bad_bal = BAD_COMMA + [s for s in bad_pool if nc.balanced(s) and not any(nc.is_and(s[a:b]) for a, b in nc.top_words(s))][:40]
    pools = (REALISTIC[:10], good)
    text_pools = (REALISTIC[:10], [s for s in good if text_ok(s)])
    bad_text = [s for s in bad_bal if text_ok(s)]
    cases = []
    R = REALISTIC
    # (1) the smallest shapes, systematically, for every stack and both modes
    for start, stacks in (("list", [[2], [2, [3, 0]], [2, [3, 1]], [1]]), ("str", [[0, 2], [0], [0, 1]]), ("parts", [[[3, 0]], [[3, 1]]])):
        shapes = [
            ("dup-keys", [["author", [R[0], R[1]]], ["author", [R[6], R[2]]]]),
            ("dup-keys", [["author", [R[0]]], ["title", "T"], ["author", [R[6]]], ["editor", [R[5]]]]),
            ("dup-keys", [["editor", [R[4]]], ["author", [R[3]]], ["editor", [R[7], R[8]]], ["editor", []]]),
            ("dup-case", [["author", [R[0]]], ["Author", [R[6]]]]),
            ("dup-case", [["Editor", [R[1]]], ["editor", [R[2]]], ["EDITOR", [R[9]]]]),
        ]
        if start != "parts":
            shapes += [
                ("later-invalid", [["author", [R[0]]], ["author", [R[6], "Bb,"]]]),
                ("later-invalid", [["author", [R[0]]], ["editor", ["Aa, Bb, Cc, Dd"]]]),
                ("later-invalid", [["author", [R[0]]], ["title", "T"], ["editor", [R[1]]], ["translator", [R[2], "Knuth, Donald,"]]]),
                ("later-invalid", [["author", ["Bb,"]], ["author", [R[0]]]]),
                ("later-invalid", [["editor", [R[4]]], ["author", [R[3], R[5]]], ["editor", ["Aa {Bb" if start == "list" else ","]]]),
            ]
        for stream, fl in shapes:
            for mws in stacks:
                for inplace in (True, False):
                    fields = [[k, _value(rng, start, v) if isinstance(v, list) else v] for k, v in fl]
                    cases.append(_case(stream, [{"type": "book", "key": "key1", "fields": fields}], mws, None, inplace))
    # (2) random entries of each kind, one entry per case (compared with the model, too)
    for i in range(n_rand):
        kind = ["dup", "dup", "case", "later", "later", "mixed"][i % 6]
        start = rng.choice(["list", "list", "list", "str", "str", "parts"])
        e = _entry(rng, pools, bad_all if start == "list" else bad_bal, kind, start)
        nf = None
        if kind in ("case", "mixed") and rng.random() < 0.4:
            # the caller names the capitalised key as a name field, too
            nf = sorted(set(k for k, _ in e["fields"] if k.lower().strip().rstrip("s") in NAME_FIELDS and rng.random() < 0.8)) or None
        stream = {"dup": "dup-keys", "case": "dup-case", "later": "later-invalid", "mixed": "dup-keys"}[kind]
        cases.append(_case(stream, [e], _stack(rng, start), nf, rng.random() < 0.5))
    # (3) already structured values next to plain ones: a stack restricted (name_fields) to the fields it is meant for,
    #     and - ill-typed usage, only "no InvalidNameError escapes" is demanded - not restricted
    for i in range(n_rand // 4):
        used = set()
        keys = [rng.choice(NAME_FIELDS) for _ in range(rng.randint(2, 4))] if rng.random() < 0.5 else rng.sample(NAME_FIELDS, rng.randint(2, 3))
        if rng.random() < 0.3:
            keys.append(rng.choice(CASE_KEYS[keys[0]]))
        coauthors = i % 4 == 0
        if coauthors:
            # MergeCoAuthors joins a list and leaves a string alone: strings next to lists are well-typed for it
            kinds = [rng.choice(["list", "str"]) for _ in keys]
            if len(set(kinds)) == 1:
                kinds[rng.randrange(len(kinds))] = "str" if kinds[0] == "list" else "list"
        else:
            kinds = [rng.choice(["parts", "list", "str"]) for _ in keys]
            if len(set(kinds)) == 1:
                kinds[0] = "parts" if kinds[0] != "parts" else "list"
        fields = []
        for k, t in zip(keys, kinds):
            names = _distinct_names(rng, pools, used, 1, 3)
            if t == "list" and rng.random() < 0.15:
                names.insert(rng.randint(0, len(names)), rng.choice(bad_all))
            fields.append([k, _value(rng, t, names)])
        if rng.random() < 0.1:
            # both kinds in ONE list
            j = rng.randrange(len(fields))
            fields[j][1] = {"list": [rng.choice(good), P(nc.spec_parse(rng.choice(good)))]}
        if rng.random() < 0.5:
            fields.insert(rng.randint(0, len(fields)), ["title", "Aa, bb,"])
        target = rng.choice(kinds)
        mws = _stack(rng, target)
        r = rng.random()
        if coauthors:
            mws = rng.choice([[1], [1], [1, 0], [1, 0, 2], [1, 0, 1]])
            nf = None
        elif r < 0.7:
            nf = sorted(set(k for k, t in zip(keys, kinds) if t == target))
            if any(t != target and k in nf for k, t in zip(keys, kinds)) and rng.random() < 0.7:
                # the same key holds both kinds: rename the others
                for f, t in zip([f for f in fields if f[0] != "title"], kinds):
                    if t != target:
                        f[0] = f[0] + "2"
        else:
            nf = None
        cases.append(_case("structured", [{"type": "book", "key": "key1", "fields": fields}], mws, nf, rng.random() < 0.5))
    # (4) the entry the parser hands out for a duplicated field key (DuplicateFieldKeyBlock.ignore_error_block)
    for i in range(n_rand // 4):
        kind = ["dup", "dup", "later", "mixed"][i % 4]
        e = _entry(rng, text_pools, bad_text, kind, "str")
        e["fields"] = [[k.strip(), v] for k, v in e["fields"] if "{" not in v or nc.balanced(v)]
        ks = [k for k, _ in e["fields"]]
        if len(set(ks)) == len(ks):
            nk = [k for k in ks if k in NAME_FIELDS] or ["author"]
            e["fields"].append([nk[0], " and ".join(_distinct_names(rng, text_pools, set(), 1, 2))])
        cases.append(_case("dup-parser", [e], _stack(rng, "str"), None, rng.random() < 0.5, "parser"))
    # (5) ONE stack of middleware objects over a library of several such entries
    for i in range(n_rand // 4):
        start = rng.choice(["list", "list", "str"])
        es = []
        for j in range(rng.randint(2, 3)):
            kind = rng.choice(["dup", "dup", "case", "later", "later", "mixed"])
            es.append(_entry(rng, pools, bad_all if start == "list" else bad_bal, kind, start, key="k%d" % j))
        cases.append(_case("dup-library", es, _stack(rng, start), None, rng.random() < 0.5))
    return cases


def shrink(case):
    inp = case["input"]
    st = case.get("stream", "?")
    es = inp["entries"]
    if len(es) > 1:
        for i in range(len(es)):
            yield {"stream": st, "input": dict(inp, entries=es[:i] + es[i + 1:])}
    if len(inp["mws"]) > 1:
        yield {"stream": st, "input": dict(inp, mws=inp["mws"][:-1])}
    for ei, e in enumerate(es):
        fs = e["fields"]

        def with_fields(nfs):
            return {"stream": st, "input": dict(inp, entries=es[:ei] + [dict(e, fields=nfs)] + es[ei + 1:])}
        for i in range(len(fs)):
            yield with_fields(fs[:i] + fs[i + 1:])
        for i, (k, v) in enumerate(fs):
            if isinstance(v, dict) and "list" in v:
                for j in range(len(v["list"])):
                    yield with_fields(fs[:i] + [[k, {"list": v["list"][:j] + v["list"][j + 1:]}]] + fs[i + 1:])
    if inp["via"] == "parser":
        yield {"stream": st, "input": dict(inp, via="built")}


# ---------------------------------------------------------------- runner
def impl(inp, implutil, enc):
    import logging
    import warnings
    from bibtexparser.library import Library
    from bibtexparser.model import Entry, Field
    from bibtexparser.middlewares.names import (MergeCoAuthors, MergeNameParts, NameParts, SeparateCoAuthors,
                                                SplitNameParts)
    nf = tuple(inp["nf"]) if inp["nf"] is not None else NAME_FIELDS
    kw = {"allow_inplace_modification": inp["inplace"]}
    if inp["nf"] is not None:
        kw["name_fields"] = tuple(inp["nf"])

    def mk(m):
        if m == 0:
            return SeparateCoAuthors(**kw)
        if m == 1:
            return MergeCoAuthors(**kw)
        if m == 2:
            return SplitNameParts(**kw)
        return MergeNameParts(style={0: "last", 1: "first", 2: "other"}[m[1]], **kw)

    def val(v):
        if isinstance(v, dict):
            if "list" in v:
                return [val(x) for x in v["list"]]
            if "int" in v:
                return v["int"]
            if "parts" in v:
                return NameParts(*[list(x) for x in v["parts"]])
            return None
        return v
    rec = {"sx_in": None, "sx_out": None, "key": json.dumps(["ent", inp], sort_keys=True), "nontrivial": True,
           "tags": ["ent", "ent_via_" + inp["via"], "ent_inplace" if inp["inplace"] else "ent_copy"]}
    descs = inp["entries"]
    entries = []
    if inp["via"] == "parser":
        import bibtexparser
        d = descs[0]
        text = "@%s{%s,\n%s\n}\n" % (d["type"], d["key"], ",\n".join("  %s = {%s}" % (k, v) for k, v in d["fields"]))

        def parse():
            logging.disable(logging.CRITICAL)
            try:
                with warnings.catch_warnings():
                    warnings.simplefilter("ignore")
                    return bibtexparser.parse_string(text)
            finally:
                logging.disable(logging.NOTSET)
        r = implutil.guarded(parse)
        cand = None
        if r[0] == "ok" and len(r[1].blocks) == 1:
            b = r[1].blocks[0]
            if type(b).__name__ == "DuplicateFieldKeyBlock" and type(b.ignore_error_block).__name__ == "Entry":
                cand = b.ignore_error_block
                if all(isinstance(f.value, str) and len(f.value) >= 2 and f.value[0] == "{" and f.value[-1] == "}" for f in cand.fields):
                    for f in cand.fields:
                        f.value = f.value[1:-1]
                else:
                    cand = None
        if cand is None:
            # what the parser does with this text is the subject of C02 / C04 / C17, not of this property
            rec["tags"].append("ent_parser_gave_no_inner_entry")
            rec["oracle"] = {"ok": True, "detail": ""}
            rec["summary"] = "no DuplicateFieldKeyBlock with an inner entry"
            return rec
        rec["tags"].append("ent_from_duplicate_field_key_block")
        entries = [cand]
        # the state the name middlewares start from is what the parser handed out
        descs = [{"type": cand.entry_type, "key": cand.key, "fields": [[f.key, f.value] for f in cand.fields]}]
    else:
        for ei, d in enumerate(descs):
            line = 10 * ei + 7
            entries.append(Entry(d["type"], d["key"], [Field(k, val(v), line + i + 1) for i, (k, v) in enumerate(d["fields"])],
                                 start_line=line, raw="@%s{%s,...}" % (d["type"], d["key"])))
    heads = [(e.start_line, e.raw) for e in entries]
    ref_fields = [[(k, unj(v)) for k, v in d["fields"]] for d in descs]
    mws_enc = [m if isinstance(m, int) else [3, m[1]] for m in inp["mws"]]
    if len(entries) == 1:
        rec["sx_in"] = [90, mws_enc, enc.enc_opt(lambda l: [enc.enc_str(k) for k in l], inp["nf"]), enc.enc_block(entries[0])]
    # distribution: what the entry is an instance of
    for fl in ref_fields:
        ks = [k for k, _ in fl if k in nf]
        if len(set(ks)) < len(ks):
            rec["tags"].append("ent_same_name_key_twice")
        low = [k.lower() for k, _ in fl]
        if any(k not in nf and k.lower() in nf for k, _ in fl) or (inp["nf"] is not None and len(set(low)) < len(set(k for k, _ in fl))):
            rec["tags"].append("ent_key_differs_in_case_only")
        types = set("parts" if isinstance(v, list) and v and all(is_parts(x) for x in v) else "list" if isinstance(v, list) else "str"
                    for k, v in fl if k.lower().rstrip("2") in NAME_FIELDS)
        if "parts" in types and len(types) > 1:
            rec["tags"].append("ent_structured_next_to_plain")

    def run():
        lib = Library(entries)
        logging.disable(logging.CRITICAL)   # "Unknown block type": a later middleware of the stack passes an error block on
        try:
            for m in inp["mws"]:
                lib = mk(m).transform(lib)
        finally:
            logging.disable(logging.NOTSET)
        return lib
    r = implutil.guarded(run)
    refs = [ref_entry(fl, inp["mws"], nf) for fl in ref_fields]
    if r[0] == "exc":
        if rec["sx_in"] is not None:
            rec["sx_out"] = implutil.r_exc(r[1])
        ill = any(x[0] == "ill" for x in refs)
        bad = r[2] == "InvalidNameError" or not ill
        rec["oracle"] = {"ok": not bad, "detail": "stack %r (name_fields %r, inplace %r) raised %s on %r" % (
            inp["mws"], inp["nf"], inp["inplace"], r[2], descs)}
        rec["summary"] = "raised " + r[2]
        rec["tags"].append("ent_raised")
        return rec
    out = r[1]
    if rec["sx_in"] is not None:
        rec["sx_out"] = implutil.r_ok(enc.enc_block(out.blocks[0])) if len(out.blocks) == 1 else implutil.r_exc(implutil.EXC_OTHER)
    ok, detail, kinds = True, "", []
    if len(out.blocks) != len(entries):
        ok, detail = False, "%d entries in, %d blocks out" % (len(entries), len(out.blocks))
    for ei, (d, fl, blk, (line, raw)) in enumerate(zip(descs, ref_fields, out.blocks, heads)) if ok else []:
        kinds.append(type(blk).__name__[0])
        ok, detail, tag = check_entry(fl, inp["mws"], nf, blk, d["type"], d["key"], line, raw)
        rec["tags"].append(tag)
        if tag == "ent_error_block":
            ref = refs[ei]
            if ref[4] > min(i for i, (k, _) in enumerate(fl) if k in nf):
                rec["tags"].append("ent_invalid_in_later_name_field")
        if not ok:
            detail = "stack %r%s, %s, entry #%d %s%s with fields %r: %s" % (
                inp["mws"], "" if inp["nf"] is None else " with name_fields=%r" % (inp["nf"],),
                "in place" if inp["inplace"] else "copy mode", ei, d["key"],
                " (inner entry of the parser's DuplicateFieldKeyBlock)" if inp["via"] == "parser" else "", fl, detail)
            break
    rec["oracle"] = {"ok": ok, "detail": detail}
    rec["summary"] = "".join(kinds)
    return rec
