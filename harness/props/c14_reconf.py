"""C14, level `reconfig`: the configuration of a middleware instance is read AT CALL TIME.

One set of the four name middleware objects (SeparateCoAuthors, SplitNameParts, MergeNameParts, MergeCoAuthors) serves a whole
program.  Between its uses the caller reassigns PUBLIC configuration attributes of one of the objects (MergeNameParts.style
'first' <-> 'last', unknown styles, the same value again; name_fields / allow_inplace_modification where the tree under test
lets them be assigned - tried, never assumed), before the first use, after a use, several times in a row; the objects are used
on one library and then on another one, in four ways (parse_string(append_middleware=) / write_string(prepend_middleware=),
Middleware.transform, transform_block, transform_entry), and some uses raise (a library the object cannot handle, an unknown
style) - also the very first one.

Law, for every use: what the shared objects do is what NEW objects do that are constructed with the configuration the public
attributes of the shared ones show at the time of the call (run on the same input, compared observation by observation); and,
from the property text: the strings written for the structured names are the merge - in the style the attribute shows - of
exactly these names (independent merge below, through the library's writer on a library that holds the expected strings), and
when the style shows 'last' the written document re-parses to the same structured names.

Oracle only, except for sessions that end in a last-name-first write of a one-entry document through parse_string /
write_string with default name fields: that final step is also encoded for the model (op 91, like the stack level).
"""
import copy
import hashlib
import json

from props import names_common as nc

NF = ("author", "editor", "translator")
NF_CHOICES = [None, ["author"], ["editor", "author"], ["author", "editor", "translator", "bookauthor"], ["translator", "bookauthor"]]
STYLES_BAD = ["middle", "LAST", "", None, 0]
MODES = ["stack", "stack", "stack", "transform", "transform", "block", "entry"]
RAISE_KINDS = ["int", "none", "str", "ints", "mixed"]
BAD_NAMES = ["Aa, Bb, Cc, Dd", "Aa Bb,", "bb Cc,, Dd,, Ee"]
CLASSES = ["SeparateCoAuthors", "SplitNameParts", "MergeNameParts", "MergeCoAuthors"]


# ------------------------------------------------------------------ generator
def gen(rng, good, ok, name_forms):
    pool = [name_forms(rng.choice(good), ok) for _ in range(rng.randint(2, 5))]
    pool = [f for f in pool if f] or [["Aa Bb"]]

    def value():
        return " and ".join(rng.choice(rng.choice(pool)) for _ in range(rng.randint(1, 4)))

    def doc(one=False):
        entries = []
        for _ in range(1 if one else rng.randint(1, 3)):
            keys = list(NF) + (["bookauthor"] if not one and rng.random() < 0.3 else [])
            rng.shuffle(keys)
            fields = [[k, value()] for k in keys[:rng.randint(1, 3)]]
            if rng.random() < 0.3:
                fields.insert(rng.randint(0, len(fields)), ["title", rng.choice(["A Title and More", "On {and}", "Xx yy"])])
            entries.append(fields)
        if not one and rng.random() < 0.12:     # an entry on which the split fails (error block), among the others
            entries.insert(rng.randint(0, len(entries)), [[rng.choice(NF), rng.choice(BAD_NAMES)]])
        return entries

    r = rng.random()
    style = "last" if r < 0.4 else "first" if r < 0.9 else rng.choice(STYLES_BAD)
    if rng.random() < 0.8:
        k = 0 if rng.random() < 0.75 else rng.randrange(1, len(NF_CHOICES))
        nf = [k] * 4
    else:
        nf = [rng.randrange(len(NF_CHOICES)) if rng.random() < 0.4 else 0 for _ in range(4)]
    inplace = [1, 1, 1, 1] if rng.random() < 0.5 else [rng.randint(0, 1) for _ in range(4)]
    cur = style

    def set_style():
        nonlocal cur
        r = rng.random()
        if r < 0.75 and cur in ("first", "last"):
            v = "last" if cur == "first" else "first"
        elif r < 0.85:
            v = cur
        elif r < 0.93:
            v = rng.choice(STYLES_BAD)
        else:
            v = rng.choice(["first", "last"])
        cur = v
        return {"op": "set", "who": 2, "attr": "style", "value": v}

    def set_any():
        r = rng.random()
        if r < 0.78:
            return [set_style()]
        if r < 0.86:      # there and back again without a use in between
            return [set_style(), set_style()]
        if r < 0.96:
            return [{"op": "set", "who": rng.randrange(4), "attr": "name_fields", "value": rng.choice(NF_CHOICES[1:] + [list(NF)])}]
        return [{"op": "set", "who": rng.randrange(4), "attr": "allow_inplace_modification", "value": rng.randint(0, 1)}]

    def raising():
        who = rng.randrange(4)
        return {"op": "raise", "who": who, "kind": rng.choice(RAISE_KINDS), "mode": rng.choice(["stack", "transform", "block", "entry"])}

    steps = []
    docs = []
    if rng.random() < 0.2:
        steps.append(raising())                  # the first use of that object raises (or not: the tree decides)
    if rng.random() < 0.3:
        steps += set_any()                       # configuration changed before the first use
    n_uses = rng.randint(2, 5)
    for i in range(n_uses):
        d = [list(map(list, e)) for e in rng.choice(docs)] if docs and rng.random() < 0.35 else doc()
        docs.append(d)
        steps.append({"op": "use", "mode": rng.choice(MODES), "doc": d})
        if i + 1 < n_uses:
            if rng.random() < 0.15:
                steps.append(raising())
            if rng.random() < 0.85:
                steps += set_any()
    if rng.random() < 0.5:
        # the session ends in the write the property speaks about; this step also goes to the model when the objects then show
        # the default name fields
        if cur != "last":
            steps.append({"op": "set", "who": 2, "attr": "style", "value": "last"})
        d = [list(map(list, e)) for e in rng.choice(docs)][:1] if rng.random() < 0.5 else doc(one=True)
        d = [[f for f in d[0] if f[0] != "bookauthor"] or [["author", value()]]]
        steps.append({"op": "use", "mode": "stack", "doc": d, "model": 1})
    return {"level": "reconfig", "init": {"style": style, "nf": nf, "inplace": inplace}, "steps": steps}


FIXED_DOC = [[["author", "Dijkstra, Edsger Wybe and Donald E. Knuth and van der Waerden, Jr, Bartel Leendert"],
              ["editor", "Mac Lane, Saunders"]],
             [["translator", "de la Fontaine, Jean and Hoare, C. A. R."], ["title", "On {and}"]]]


def fixed():
    """the plainest members of the class, one per way of using the object and direction of the change"""
    out = []
    for mode in ("stack", "transform", "block", "entry"):
        for a, b in (("first", "last"), ("last", "first")):
            steps = [{"op": "use", "mode": mode, "doc": FIXED_DOC}, {"op": "set", "who": 2, "attr": "style", "value": b},
                     {"op": "use", "mode": mode, "doc": FIXED_DOC}, {"op": "set", "who": 2, "attr": "style", "value": a},
                     {"op": "use", "mode": "stack" if mode != "stack" else "transform", "doc": FIXED_DOC[:1]}]
            out.append({"level": "reconfig", "init": {"style": a, "nf": [0] * 4, "inplace": [1, 1, 0, 1]}, "steps": steps})
    out.append({"level": "reconfig", "init": {"style": "middle", "nf": [0] * 4, "inplace": [1] * 4},
                "steps": [{"op": "use", "mode": "stack", "doc": FIXED_DOC}, {"op": "set", "who": 2, "attr": "style", "value": "last"},
                          {"op": "use", "mode": "stack", "doc": FIXED_DOC[:1], "model": 1}]})
    out.append({"level": "reconfig", "init": {"style": "last", "nf": [0] * 4, "inplace": [1] * 4},
                "steps": [{"op": "set", "who": 2, "attr": "style", "value": "first"}, {"op": "use", "mode": "transform", "doc": FIXED_DOC},
                          {"op": "raise", "who": 2, "kind": "ints", "mode": "transform"},
                          {"op": "raise", "who": 1, "kind": "str", "mode": "stack"},
                          {"op": "set", "who": 2, "attr": "style", "value": "last"},
                          {"op": "use", "mode": "stack", "doc": FIXED_DOC[1:], "model": 1}]})
    return out


def cases(rng, tier, good, ok, name_forms):
    out = [{"stream": "reconfig-fixed", "input": x} for x in fixed()]
    for _ in range(500 if tier == "quick" else 8000):
        out.append({"stream": "reconfig", "input": gen(rng, good, ok, name_forms)})
    return out


def shrink(case):
    inp = case["input"]
    st = inp["steps"]
    for i in range(len(st)):
        if len(st) > 1:
            yield {"stream": "reconfig", "input": dict(inp, steps=st[:i] + st[i + 1:])}
    for i, x in enumerate(st):
        if x["op"] == "use" and len(x["doc"]) > 1:
            for j in range(len(x["doc"])):
                yield {"stream": "reconfig", "input": dict(inp, steps=st[:i] + [dict(x, doc=x["doc"][:j] + x["doc"][j + 1:])] + st[i + 1:])}


# ------------------------------------------------------------------ independent merge (from the property text / the docstrings)
def merge_last(d):
    return ", ".join(x for x in (" ".join(d["von"] + d["last"]), " ".join(d["jr"]), " ".join(d["first"])) if x)


def merge_first(d):
    return " ".join(d["first"] + d["von"] + d["last"] + d["jr"])


# ------------------------------------------------------------------ runner
def impl(case):
    import implutil
    g = implutil.guarded(lambda: run(case))
    if g[0] == "ok":
        return g[1]
    inp = case["input"]
    return {"sx_in": None, "sx_out": None, "key": "R" + hashlib.sha1(json.dumps(inp, sort_keys=True).encode()).hexdigest(),
            "nontrivial": False, "tags": ["reconfig"], "summary": "raised " + g[2],
            "oracle": {"ok": False, "detail": "reconfig session: %s raised outside the guarded uses (constructing an object or "
                       "reading its public attributes); program %s" % (g[2], json.dumps(inp)[:1500])}}


def run(case):
    import implutil
    import bibtexparser
    from bibtexparser.model import Block, Entry, Field
    from bibtexparser.library import Library
    from bibtexparser import middlewares as M
    from props import c14
    NameParts = M.NameParts
    classes = [getattr(M, n) for n in CLASSES]
    inp = case["input"]
    steps = inp["steps"]
    rec = {"sx_in": None, "sx_out": None, "key": "R" + hashlib.sha1(json.dumps(inp, sort_keys=True).encode()).hexdigest(),
           "nontrivial": False}
    tags = set(["reconfig"])
    default_nf = tuple(classes[0]().name_fields)

    # ---- the shared objects
    def construct(cls, style, nf, inplace):
        kw = {"allow_inplace_modification": bool(inplace)}
        if nf is not None:
            kw["name_fields"] = nf
        if cls is classes[2]:
            kw["style"] = style
        return cls(**kw)

    def shown(m):
        cfg = {"nf": m.name_fields, "inplace": m.allow_inplace_modification}
        cfg["style"] = m.style if isinstance(m, classes[2]) else None
        return cfg

    def fresh_of(m):
        cfg = shown(m)
        return construct(type(m), cfg["style"], cfg["nf"], cfg["inplace"])

    init = inp["init"]
    shared = []
    for i, cls in enumerate(classes):
        nf = NF_CHOICES[init["nf"][i]]
        nf = tuple(nf) if nf is not None else None
        try:
            m = construct(cls, init["style"], nf, init["inplace"][i])
        except (ValueError, TypeError):
            # a tree that refuses this configuration at construction: the object the caller can get is a default one
            tags.add("reconfig_init_refused")
            m = construct(cls, "last", nf, init["inplace"][i])
        shared.append(m)
    used = [False] * 4          # the object has been used (successfully or not)
    raised = [False] * 4        # some earlier use of the object raised
    changed_after_use = [False]

    # ---- observations
    def val(v):
        if isinstance(v, NameParts):
            return nc.parts_dict(v)
        if isinstance(v, (list, tuple)):
            return [val(x) for x in v]
        if isinstance(v, str):
            return v
        return ["other", repr(v)]

    def snapshot(lib):
        out = []
        for b in lib.blocks:
            if isinstance(b, Entry):
                out.append(["Entry", b.entry_type, b.key, [[f.key, val(f.value)] for f in b.fields]])
            elif hasattr(b, "error"):
                out.append([type(b).__name__, type(b.error).__name__, str(b.error), getattr(b, "raw", None)])
            else:
                out.append([type(b).__name__, getattr(b, "raw", None)])
        return out

    def names_of(lib, nfs):
        out = {}
        for b in lib.blocks:
            if isinstance(b, Entry):
                for f in b.fields:
                    if f.key in nfs:
                        out["%s.%s" % (b.key, f.key)] = val(f.value)
        return out

    def doc_text(doc):
        return "".join("@article{e%d,\n%s\n}\n\n" % (i, ",\n".join("  %s = {%s}" % (k, v) for k, v in fs)) for i, fs in enumerate(doc))

    def apply(m, lib, mode):
        if mode in ("transform", "stack"):
            return m.transform(lib)
        out = []
        for b in lib.blocks:
            if mode == "block":
                r = m.transform_block(b, lib)
            else:
                r = m.transform_entry(b, lib) if isinstance(b, Entry) else b
            if r is None:
                continue
            if isinstance(r, Block):
                out.append(r)
            else:
                out.extend(r)
        return Library(out)

    def pipeline(mws, mode, text, keep):
        """every leg of one use; the observations made before an exception are kept"""
        sep, spl, mp, mc = mws
        obs = {}
        leg = "parse"
        try:
            if mode == "stack":
                lib1 = bibtexparser.parse_string(text, append_middleware=[sep, spl])
            else:
                lib1 = apply(spl, apply(sep, bibtexparser.parse_string(text), mode), mode)
            obs["names1"] = snapshot(lib1)
            if keep is not None:
                keep["lib1"] = Library([copy.deepcopy(b) for b in lib1.blocks])
            leg = "write"
            if mode == "stack":
                obs["text2"] = bibtexparser.write_string(lib1, prepend_middleware=[mp, mc])
            else:
                lib2 = apply(mc, apply(mp, lib1, mode), mode)
                obs["merged"] = snapshot(lib2)
                obs["text2"] = bibtexparser.write_string(lib2)
        except implutil.CaseTimeout:
            raise
        except Exception as e:  # noqa: BLE001 - a use may raise; what counts is that new objects do the same
            obs["raised"] = [leg, type(e).__name__]
        return obs

    def describe(k):
        return "step %d of %d (%s); program: init %s, %s" % (
            k + 1, len(steps), json.dumps({x: y for x, y in steps[k].items() if x != "doc"}), json.dumps(init),
            json.dumps([{x: y for x, y in s.items() if x != "doc"} for s in steps[:k + 1]]))

    def first_diff(a, b):
        for key in sorted(set(a) | set(b)):
            if a.get(key) != b.get(key):
                return "%s: the objects in use give %r, new objects give %r" % (key, a.get(key), b.get(key))
        return ""

    model = [None]

    def judge_use(k, st, got, keep, cfgs):
        mode, doc = st["mode"], st["doc"]
        text = doc_text(doc)
        style = cfgs[2]["style"]
        verdict = None
        if "raised" in got:
            return None
        same_nf = all(tuple(c["nf"]) == tuple(cfgs[0]["nf"]) for c in cfgs)
        if not same_nf or style not in ("first", "last"):
            tags.add("reconfig_use_outside_premises")
            return None
        nfs = tuple(cfgs[0]["nf"])
        lib1 = keep["lib1"]
        before = names_of(lib1, nfs)
        structured = all(isinstance(x, list) and all(isinstance(p, dict) for p in x) for x in before.values())
        dicts = [d for x in before.values() for d in x] if structured else []
        adm = structured and all(c14.admissible(d) for d in dicts)
        if not adm:
            tags.add("reconfig_use_outside_premises")
            return None
        known = None
        if nc.in_k3(dicts):
            known = "K3"
        elif any("\\\\" in w for d in dicts for w in nc.all_words(d)):
            known = "K10"
        elif c14.K2_RE.search(c14.merged_text([(None, x) for x in before.values()])):
            known = "K11"
        # (O2) the strings written are the merge, in the style shown, of exactly these names
        mrg = merge_last if style == "last" else merge_first
        for b in lib1.blocks:
            if isinstance(b, Entry):
                for f in b.fields:
                    if f.key in nfs:
                        f.value = " and ".join(mrg(nc.parts_dict(p)) for p in f.value)
        try:
            want_text = bibtexparser.write_string(lib1)
        except implutil.CaseTimeout:
            raise
        except Exception as e:  # noqa: BLE001
            want_text = None
            tags.add("reconfig_expected_text_not_writable")
        if "merged" in got and got["merged"] != snapshot(lib1):
            verdict = {"ok": False, "detail": "reconfig %s: style shows %r; %s; document %r" % (
                describe(k), style, first_diff({"merged": got["merged"]}, {"merged": snapshot(lib1)}).replace(
                    "new objects give", "the merge of these names in that style is"), text)}
        elif want_text is not None and got["text2"] != want_text:
            verdict = {"ok": False, "detail": "reconfig %s: MergeNameParts.style shows %r, name fields %r, but the document written is %r; "
                       "with the names %r merged in that style it is %r" % (describe(k), style, nfs, got["text2"], before, want_text)}
        tags.add("reconfig_written_text_checked")
        # (O3) the property: last-name-first writing re-parses to the same structured names
        if verdict is None and style == "last":
            try:
                lib3 = bibtexparser.parse_string(got["text2"], append_middleware=[construct(classes[0], None, nfs, True),
                                                                                  construct(classes[1], None, nfs, True)])
                after = names_of(lib3, nfs)
            except implutil.CaseTimeout:
                raise
            except Exception as e:  # noqa: BLE001
                after = "%s raised" % type(e).__name__
            tags.add("reconfig_roundtrip_checked")
            if after != before:
                verdict = {"ok": False, "detail": "reconfig %s: names %r written last-name-first as %r re-parse to %r"
                           % (describe(k), before, got["text2"], after)}
                if known:             # the known classes explain a failing re-parse only, nothing above
                    verdict["known"] = known
        if verdict is not None:
            return verdict
        if changed_after_use[0] and any(len(nc.all_words(d)) >= 2 for d in dicts):
            rec["nontrivial"] = True
        # the final step of the session also goes to the model when it is the case the model knows: default name fields, 'last'
        if st.get("model") and k == len(steps) - 1 and len(doc) == 1 and style == "last" and nfs == default_nf \
                and all(fk in NF or fk == "title" for fk, _ in doc[0]):
            model[0] = c14.stack_case(doc[0], mws=tuple(shared))
        return None

    verdict = None
    for k, st in enumerate(steps):
        if st["op"] == "set":
            m = shared[st["who"]]
            v = st["value"]
            if st["attr"] == "name_fields":
                v = tuple(v)
            elif st["attr"] == "allow_inplace_modification":
                v = bool(v)
            before = shown(m)
            try:
                setattr(m, st["attr"], v)
                tags.add("reconfig_set_accepted:" + st["attr"])
            except (AttributeError, ValueError, TypeError):
                tags.add("reconfig_set_refused:" + st["attr"])
            if shown(m) != before:
                tags.add("reconfig_config_changed_%s" % ("after_a_use" if used[st["who"]] else "before_first_use"))
                if used[st["who"]]:
                    changed_after_use[0] = True
                if raised[st["who"]]:
                    tags.add("reconfig_config_changed_after_a_use_that_raised")
            continue

        if st["op"] == "raise":
            who, mode = st["who"], st["mode"]
            value = {"int": 7, "none": None, "str": "Aa Bb and Cc Dd", "ints": [1, 2], "mixed": ["Aa Bb", 3]}[st["kind"]]

            def attempt(m):
                try:
                    if mode == "stack" and who < 2:
                        lib = bibtexparser.parse_string("@article{k,\n  author = {Aa Bb and Cc, Dd},\n  title = {T}\n}\n", append_middleware=[m])
                        return ["ok", snapshot(lib)]
                    lib = Library([Entry("article", "k", [Field("author", copy.deepcopy(value)), Field("title", "T")])])
                    if mode == "stack":
                        return ["ok", bibtexparser.write_string(lib, prepend_middleware=[m])]
                    return ["ok", snapshot(apply(m, lib, mode))]
                except implutil.CaseTimeout:
                    raise
                except Exception as e:  # noqa: BLE001
                    return ["raised", type(e).__name__]
            try:
                new = fresh_of(shared[who])
            except (ValueError, TypeError):
                new = None
                tags.add("reconfig_new_object_refused")
            got = attempt(shared[who])
            if got[0] == "raised":
                tags.add("reconfig_use_raised")
                if not used[who]:
                    tags.add("reconfig_first_use_raised")
                raised[who] = True
            used[who] = True
            if new is not None:
                want = attempt(new)
                if got != want:
                    verdict = {"ok": False, "detail": "reconfig %s: %s in use gives %r, a new one with the configuration it shows (%r) gives %r"
                               % (describe(k), CLASSES[who], got, shown(shared[who]), want)}
                    break
            continue

        # ---- a use of all four objects
        mode, doc = st["mode"], st["doc"]
        text = doc_text(doc)
        tags.add("reconfig_use:" + mode)
        cfgs = [shown(m) for m in shared]
        style = cfgs[2]["style"]
        tags.add("reconfig_style_at_call:%s" % (style if style in ("first", "last") else "other"))
        try:
            new = [fresh_of(m) for m in shared]
        except (ValueError, TypeError):
            new = None
            tags.add("reconfig_new_object_refused")
        keep = {}
        got = pipeline(shared, mode, text, keep)
        if "raised" in got:
            tags.add("reconfig_use_raised")
            who_r = (0, 1) if got["raised"][0] == "parse" else (2, 3)
            if not any(used[i] for i in who_r):
                tags.add("reconfig_first_use_raised")
            for i in who_r:
                raised[i] = True
        elif any(raised):
            tags.add("reconfig_used_after_a_use_that_raised")
        for i in ((0, 1) if got.get("raised", [""])[0] == "parse" else (0, 1, 2, 3)):
            used[i] = True
        # (D) new objects with the configuration shown
        differs = None
        if new is not None:
            want = pipeline(new, mode, text, None)
            if got != want:
                differs = {"ok": False, "detail": "reconfig %s: shared middleware objects whose public attributes show %r do not behave "
                           "like new objects constructed with that configuration; %s; document %r"
                           % (describe(k), cfgs, first_diff(got, want), text)}
        # (O2), (O3) where the property text speaks about the use; their diagnosis is reported first
        verdict = judge_use(k, st, got, keep, cfgs)
        verdict = verdict or differs
        if verdict is not None:
            break
    model_rec = model[0]
    if model_rec is not None and verdict is None:
        tags.add("reconfig_final_step_to_model")
        for key in ("sx_in", "sx_out", "skip"):
            if key in model_rec:
                rec[key] = model_rec[key]
        if not model_rec["oracle"]["ok"]:
            verdict = dict(model_rec["oracle"], detail="reconfig final step (shared objects): " + model_rec["oracle"].get("detail", ""))
    n_uses = sum(1 for s in steps if s["op"] == "use")
    tags.add("reconfig_uses=%d" % n_uses)
    rec["tags"] = sorted(tags)
    rec["oracle"] = verdict or {"ok": True, "detail": ""}
    rec["summary"] = "reconfig session of %d steps: %s" % (len(steps), "ok" if verdict is None else verdict["detail"][:160])
    return rec
