"""C18, streams `coincide` / `coincide-default`: COINCIDENCES between a text value and something else in the same library.

The property quantifies over every library: a text is converted because it IS a text (a string-typed field value, a word of
a NameParts value, the value of an @string), whatever else in the library happens to read the same.  Random generators draw
keys, names and values from separate pools, so a text practically never equals the key of an @string block, an entry key, a
field name, an entry type, another value or a metadata key / value of the same library; code that looks a text up somewhere
(`value in library.strings_dict`, a cache keyed by text, `value == entry.key`) is then never exercised (seeded change C18-j).

Every case here is a library in which ONE text T (or, in the `soup` libraries, every text) occurs a second time in another
role:

    what T equals     the key of an @string block | an entry key | a field name | an entry type | another text value (field,
                      NameParts word, @string value) | a metadata key | a metadata value | a word the library itself reserves
                      or emits (props/selfref.py)
    where T stands    whole value of a field | word of a NameParts value (first / von / last / jr) | value of an @string
    where the other   in the same block (own key, own field name, own metadata, sibling field) | a block before | a block
    occurrence is     after | far away (12 / 40 blocks in between) | both before and after (the second @string of that key is
                      a duplicate block)
    T itself          identifiers, and keys BibTeX accepts that hold TeX specials (& ~ _ % #), every other key punctuation
                      character (charclasses.KEY_PUNCT), accented letters; for the stub converters with the stub's own
                      markers (e-acute, \\'e, BOOM, QUIET) so that converting, skipping and failing are all observable

`coincide` goes through the real middlewares with the STUB converters (kind `wrapper`: the wrapper oracle of c18.py -
converted text, exact converter calls in order, error containment - and the Coq wrapper model wherever the library holds no
user classes).  `coincide-default` goes through the middlewares with their DEFAULT converters under every option set, in-place
and copy mode, encode / decode / both orders; oracle only (pylatexenc is not modelled), and the verdict is the property's:
scope and types, every visited text converted EXACTLY as the same text is converted when it stands alone (a control library
of one entry whose names are chosen different from the text), and decode(encode(.)) = identity on the blocks whose texts are
within the third party's reach (same exclusions as the `userclass-default` stream).  Nothing keys on the seed's input."""
import json

from props import charclasses
from props import libspec
from props import selfref

# keys BibTeX (and the library's splitter) accept as @string names / entry keys, holding what the encoder changes
KEY_TEXTS = ["R&D", "AT&T", "a~b", "ieee_tse", "100%", "#1", "a#b", "x_y_z", "50%~off", "~", "&", "%", "_", "#", "é", "über",
             "Müller & Söhne~GmbH", "Ångström", "Łódź&Co", "a b", "jan", "s1", "k1", "title", "plain", "IEEE", "A&A~é_%#"]
KEY_TEXTS += ["k" + c + "1" for c in charclasses.KEY_PUNCT] + ["né" + c for c in "&~_%#"]
# LaTeX source (what the decoder is for) that may equally be a key
LATEX_TEXTS = ["R\\&D", "caf\\'e", "a~b", "x\\_y", "100\\%", "\\#1", "M{\\\"u}ller", "{R&D}", "\\textbf{x}", "a%b", "\\'e", "{\\'E}cole",
               "\\o", "\\ss{}", "x~\\& y", "\\url{http://a.org}", "$x_1$", "a\\,b", "\\alpha", "--", "``q''", "R&D", "{", "\\"]
MAGIC = list(selfref.MAGIC_WORDS) + ["latex_encoding", "latex_decoding", "removed_enclosing", "article", "book", "misc"]
STUB_MARKS = ["é", " é", "\\'e", " \\'e", "", "", "BOOM", "QUIET", "éé"]
WHATS = ["string-key", "entry-key", "field-name", "entry-type", "other-value", "meta-key", "meta-value", "magic-word"]
CARRIERS = ["field", "word", "string-value"]
PLACES = ["same", "before", "after", "far", "both"]
OPTS = [[None, None], [True, True], [True, False], [False, True], [False, False]]
DOPTS = [[None, None], [None, None], [None, None], [True, None], [False, None], [None, True], [None, False], [True, True]]
FNAMES = ["title", "note", "author", "journal", "publisher"]


def _stub_text(rng, base):
    m = rng.choice(STUB_MARKS)
    return base + m if rng.random() < 0.7 else m + base


def _filler(rng, i, text_gen):
    r = rng.random()
    sl = rng.choice([None, 100 + i])
    if r < 0.6:
        fields = [[FNAMES[j], text_gen(rng), rng.choice([None, j + 1])] for j in range(rng.choice([1, 1, 2]))]
        return {"t": "entry", "type": rng.choice(["article", "book"]), "key": "f%d" % i, "fields": fields, "sl": sl, "raw": None}
    if r < 0.8:
        return {"t": "string", "key": "fs%d" % i, "value": text_gen(rng), "sl": sl, "raw": None}
    if r < 0.9:
        return {"t": rng.choice(["expl", "impl"]), "text": text_gen(rng), "sl": sl, "raw": None}
    return {"t": "preamble", "text": text_gen(rng), "sl": sl, "raw": rng.choice([None, "@preamble{...}"])}


def _word_value(rng, T):
    """NameParts holding the word T at one of the four parts (alone or next to other words)"""
    parts = [[], [], [], []]
    k = rng.randrange(4)
    parts[k] = rng.choice([[T], [T], ["x", T], [T, "y"], [T, T]])
    for j in range(4):
        if j != k and rng.random() < 0.4:
            parts[j] = [rng.choice(["Ann", "de", "Lee", "é", "Jr"])]
    return {"parts": parts}


def gen_library(rng, what, carrier, place, T, text_gen, far):
    """library spec with the text T standing at `carrier` and occurring again as `what`, the second occurrence at `place`"""
    other = text_gen(rng)
    ckey = "c0"
    # ---- the block that carries the text
    if carrier == "string-value":
        cb = {"t": "string", "key": "cs0", "value": T, "sl": rng.choice([None, 7]), "raw": rng.choice([None, "@string{...}"])}
    else:
        v = T if carrier == "field" else _word_value(rng, T)
        fields = [[FNAMES[0], v, rng.choice([None, 2])]]
        for j in range(rng.choice([0, 0, 1, 2])):
            extra = [FNAMES[j + 1], rng.choice([text_gen(rng), {"int": 1990 + j}, None, text_gen(rng)]), rng.choice([None, j + 3])]
            fields.insert(rng.choice([0, len(fields)]), extra)
        cb = {"t": "entry", "type": rng.choice(["article", "book"]), "key": ckey, "fields": fields, "sl": rng.choice([None, 1]),
              "raw": rng.choice([None, "@article{...}"])}
    partners = []
    same = place == "same"
    # ---- the second occurrence
    if what == "string-key":
        if same and carrier == "string-value":
            cb["key"] = T                                   # an @string whose value reads like its own name
        else:
            partners.append({"t": "string", "key": T, "value": rng.choice([other, other, T, "x"]), "sl": rng.choice([None, 9]), "raw": None})
    elif what == "entry-key":
        if same and cb["t"] == "entry":
            cb["key"] = T
        else:
            partners.append({"t": "entry", "type": "book", "key": T, "fields": [["title", other, None]] if rng.random() < 0.7 else [],
                             "sl": None, "raw": None})
    elif what == "field-name":
        if same and cb["t"] == "entry":
            names = [f[0] for f in cb["fields"]]
            if T in names:
                pass                                        # e.g. the text `title` in the field `title`
            elif rng.random() < 0.5:
                for f in cb["fields"]:
                    if f[1] == T or (isinstance(f[1], dict) and "parts" in f[1]):
                        f[0] = T                            # the field is named like its own text
                        break
            else:
                cb["fields"].insert(rng.randrange(len(cb["fields"]) + 1), [T, rng.choice([other, {"int": 3}]), None])
        else:
            partners.append({"t": "entry", "type": "article", "key": "p0", "fields": [[T, rng.choice([other, {"int": 3}, T]), 1]],
                             "sl": None, "raw": None})
    elif what == "entry-type":
        if same and cb["t"] == "entry":
            cb["type"] = T
        else:
            partners.append({"t": "entry", "type": T, "key": "p0", "fields": [["title", other, 1]], "sl": None, "raw": None})
    elif what == "other-value":
        if same and cb["t"] == "entry":
            v2 = rng.choice([T, T, _word_value(rng, T), {"list": [T]}])
            cb["fields"].insert(rng.choice([0, len(cb["fields"])]), ["abstract", v2, None])
        else:
            r = rng.random()
            if r < 0.4:
                partners.append({"t": "entry", "type": "article", "key": "p0", "fields": [["title", rng.choice([T, _word_value(rng, T)]), 1]],
                                 "sl": None, "raw": None})
            elif r < 0.8:
                partners.append({"t": "string", "key": "ps0", "value": T, "sl": None, "raw": None})
            else:
                partners.append({"t": rng.choice(["expl", "impl", "preamble"]), "text": T, "sl": None, "raw": rng.choice([None, T])})
    elif what in ("meta-key", "meta-value"):
        m = [[T, other]] if what == "meta-key" else [[rng.choice(["removed_enclosing", "latex_encoding", "m"]), T]]
        if same:
            cb["meta"] = m
        else:
            p = _filler(rng, 900, text_gen)
            p["meta"] = m
            partners.append(p)
    # magic-word: the second occurrence is in the library's own code
    if place == "both" and partners:
        partners.append(json.loads(json.dumps(partners[0])))
        if partners[1]["t"] == "entry" and what != "entry-key":
            partners[1]["key"] = "p1"
        if partners[1]["t"] == "string" and what != "string-key":
            partners[1]["key"] = "ps1"
    n_mid = far if place == "far" else rng.choice([0, 0, 1, 3])
    mid = [_filler(rng, 10 + i, text_gen) for i in range(n_mid)]
    head = [_filler(rng, 1000 + i, text_gen) for i in range(rng.choice([0, 0, 1]))]
    tail = [_filler(rng, 2000 + i, text_gen) for i in range(rng.choice([0, 0, 1]))]
    if not partners:
        body = mid[:len(mid) // 2] + [cb] + mid[len(mid) // 2:]
    elif place == "both":
        body = [partners[0]] + mid + [cb] + [_filler(rng, 3000, text_gen)] * rng.choice([0, 1]) + [partners[1]]
    elif place == "before" or (place in ("far", "same") and rng.random() < 0.5):
        body = partners + mid + [cb]
    else:
        body = [cb] + mid + partners
    return head + body + tail


def gen_soup(rng, pool, n_blocks):
    """every key, name, type, value, metadata key and value drawn from ONE small pool: coincidences of every kind at once"""
    specs = []
    for i in range(n_blocks):
        r = rng.random()
        pick = lambda: rng.choice(pool)  # noqa: E731
        if r < 0.55:
            names = []
            for _ in range(rng.choice([1, 2, 3])):
                k = pick()
                if k not in names:
                    names.append(k)
            fields = [[k, pick() if rng.random() < 0.75 else rng.choice([_word_value(rng, pick()), {"int": 3}, None, {"list": [pick()]}]),
                       rng.choice([None, j + 1])] for j, k in enumerate(names)]
            s = {"t": "entry", "type": pick() if rng.random() < 0.5 else "article", "key": pick(), "fields": fields, "sl": rng.choice([None, i]),
                 "raw": rng.choice([None, pick()])}
        elif r < 0.85:
            s = {"t": "string", "key": pick(), "value": pick() if rng.random() < 0.9 else {"int": 3}, "sl": rng.choice([None, i]), "raw": None}
        else:
            s = {"t": rng.choice(["expl", "impl", "preamble"]), "text": pick(), "sl": None, "raw": None}
        if rng.random() < 0.25:
            s["meta"] = [[pick(), pick()]]
        specs.append(s)
    return specs


def add_user_classes(rng, specs):
    """some blocks / values become instances of the caller's own classes (oracle only: the model has no user classes)"""
    ecls = rng.choice(["sub", "copy"])
    for s in specs:
        if s["t"] == "entry":
            if rng.random() < 0.5:
                s["cls"] = ecls
            for f in s["fields"]:
                if isinstance(f[1], str) and rng.random() < 0.4:
                    f[1] = {"strsub": f[1]}
                elif isinstance(f[1], dict) and "parts" in f[1] and rng.random() < 0.4:
                    f[1] = dict(f[1], sub=1)
        elif s["t"] == "string":
            if rng.random() < 0.5:
                s["cls"] = "sub"
            if isinstance(s["value"], str) and rng.random() < 0.4:
                s["value"] = {"strsub": s["value"]}
        elif s["t"] in ("preamble", "expl", "impl") and rng.random() < 0.3:
            s["cls"] = "sub"
    return specs


STUB_SEQS = [[0], [1], [0, 1], [1, 0], [0, 0]]
DEF_SEQS = [[0], [0, 1], [1], [1, 0], [0, 1], [0]]


def generate(rng, quick):
    from props import c18 as P
    cases = []
    stub_filler = lambda r: r.choice(P.STUB_TEXTS)  # noqa: E731
    rt_filler = lambda r: r.choice(["Title: 50% off_peak", "plain", "R&D", "É~x", "a_b #1"]) if r.random() < 0.6 else P.gen_rt_text(r)  # noqa: E731
    tex_filler = lambda r: r.choice(LATEX_TEXTS + ["plain", "Title 1"])  # noqa: E731
    n = 0
    for rep in range(2 if quick else 12):
        for what in WHATS:
            for carrier in CARRIERS:
                for place in PLACES:
                    if what == "magic-word" and place not in ("same", "far"):
                        continue
                    n += 1
                    # ---- stub converters
                    for seq in ([STUB_SEQS[n % 2], STUB_SEQS[2 + n % 3]] if quick else STUB_SEQS):
                        base = rng.choice(MAGIC) if what == "magic-word" else rng.choice(KEY_TEXTS)
                        T = _stub_text(rng, base)
                        lib = gen_library(rng, what, carrier, place, T, stub_filler, 40)
                        if rng.random() < 0.2:
                            lib = add_user_classes(rng, lib)
                        cases.append({"stream": "coincide", "input": {"kind": "wrapper", "lib": lib, "mws": seq}})
                    # ---- default converters
                    for seq in ([DEF_SEQS[n % 2], DEF_SEQS[2 + n % 2]] if quick else DEF_SEQS[:4]):
                        pool = LATEX_TEXTS if seq[0] == 1 and rng.random() < 0.8 else KEY_TEXTS
                        T = rng.choice(MAGIC) if what == "magic-word" else rng.choice(pool)
                        if what != "magic-word" and rng.random() < 0.15:
                            T = P.gen_rt_text(rng).strip() or T
                        lib = gen_library(rng, what, carrier, place, T, tex_filler if seq[0] == 1 else rt_filler, 12)
                        if rng.random() < 0.2:
                            lib = add_user_classes(rng, lib)
                        cases.append({"stream": "coincide-default",
                                      "input": {"kind": "coincide", "lib": lib, "mws": seq, "opts": OPTS[(n + len(cases)) % len(OPTS)],
                                                "dopts": DOPTS[0] if seq == [0, 1] and rng.random() < 0.6 else rng.choice(DOPTS),
                                                "inplace": rng.random() < 0.5}})
    # ---- soup: everything from one small pool
    for i in range(240 if quick else 4000):
        pool = [_stub_text(rng, rng.choice(KEY_TEXTS + MAGIC)) for _ in range(rng.choice([2, 3, 4]))] + [rng.choice(P.STUB_TEXTS)]
        lib = gen_soup(rng, pool, rng.randint(2, 6))
        if rng.random() < 0.15:
            lib = add_user_classes(rng, lib)
        cases.append({"stream": "coincide", "input": {"kind": "wrapper", "lib": lib, "mws": rng.choice(STUB_SEQS)}})
    for i in range(120 if quick else 2000):
        seq = DEF_SEQS[i % len(DEF_SEQS)]
        src = LATEX_TEXTS if seq[0] == 1 else KEY_TEXTS
        pool = [rng.choice(src + MAGIC) for _ in range(rng.choice([2, 3, 4]))]
        lib = gen_soup(rng, pool, rng.randint(2, 5))
        if rng.random() < 0.15:
            lib = add_user_classes(rng, lib)
        cases.append({"stream": "coincide-default", "input": {"kind": "coincide", "lib": lib, "mws": seq, "opts": OPTS[i % len(OPTS)],
                                                              "dopts": rng.choice(DOPTS), "inplace": i % 2 == 0}})
    return cases


# ---------------------------------------------------------------- distribution: which coincidences does a library hold?
def _texts_of(s):
    """[(carrier, text)] of one block spec"""
    out = []

    def of(v, carrier):
        if isinstance(v, str):
            out.append((carrier, v))
        elif isinstance(v, dict) and "strsub" in v:
            out.append((carrier, v["strsub"]))
        elif isinstance(v, dict) and "parts" in v:
            for p in v["parts"]:
                out.extend(("word", w) for w in p)
    if s["t"] == "entry":
        for _, v, _ in s["fields"]:
            of(v, "field")
    elif s["t"] == "string":
        of(s["value"], "string-value")
    return out


def _special_class(t):
    cl = [c for c in "&~_%#\\{}$" if c in t]
    if any(ord(c) > 127 for c in t):
        cl.append("non-ascii")
    return cl


def tags(specs):
    """what the texts of the library coincide with, where the other occurrence stands, and what the coinciding text holds"""
    out = set()
    skeys, ekeys, fnames, etypes, mkeys, mvals, values = {}, {}, {}, {}, {}, {}, {}
    magic = set(MAGIC)
    for i, s in enumerate(specs):
        if s["t"] == "string":
            skeys.setdefault(s["key"], []).append(i)
        if s["t"] == "entry":
            ekeys.setdefault(s["key"], []).append(i)
            etypes.setdefault(s["type"], []).append(i)
            for k, _, _ in s["fields"]:
                fnames.setdefault(k, []).append(i)
        for k, v in s.get("meta", []):
            mkeys.setdefault(k, []).append(i)
            if isinstance(v, str):
                mvals.setdefault(v, []).append(i)
        for j, (_, t) in enumerate(_texts_of(s)):
            values.setdefault(t, []).append((i, j))
        if s["t"] in ("expl", "impl", "preamble"):
            values.setdefault(s["text"], []).append((i, -1))
    for i, s in enumerate(specs):
        for j, (carrier, t) in enumerate(_texts_of(s)):
            hits = []
            for name, table in (("string-key", skeys), ("entry-key", ekeys), ("field-name", fnames), ("entry-type", etypes),
                                ("meta-key", mkeys), ("meta-value", mvals)):
                if t in table:
                    hits.append((name, table[t]))
            others = [b for (b, k) in values.get(t, []) if (b, k) != (i, j)]
            if others:
                hits.append(("other-value", others))
            if t in magic:
                out.add("coincide:%s=magic-word" % carrier)
            for name, where in hits:
                out.add("coincide:%s=%s" % (carrier, name))
                for b in where:
                    d = b - i
                    out.add("coincide:%s:%s" % (name, "same-block" if d == 0 else ("far-" if abs(d) > 8 else "") + ("before" if d < 0 else "after")))
                if name == "string-key":
                    if len(where) > 1:
                        out.add("coincide:string-key:defined-twice")
                    for c in _special_class(t):
                        out.add("coincide:string-key-holds:" + c)
                    if not _special_class(t):
                        out.add("coincide:string-key-holds:identifier-only")
    return sorted(out)


# ---------------------------------------------------------------- default converters: the property on real blocks
_CTL = {}


def control(kind, opts, text):
    """(converted text, failed?) of `text` standing ALONE: a fresh middleware of the same configuration on a library of one
    entry with one field whose key, name and type differ from the text"""
    k = (kind, json.dumps(opts), text)
    if k in _CTL:
        return _CTL[k]
    from bibtexparser.library import Library
    from bibtexparser.model import Entry, Field
    from bibtexparser.middlewares import LatexEncodingMiddleware, LatexDecodingMiddleware
    names = ["zqcontrolentry", "zqcontrolfield", "zqcontroltype"]
    while text in names:
        names = [x + "x" for x in names]
    a, b = opts
    mw = LatexEncodingMiddleware(keep_math=a, enclose_urls=b) if kind == 0 else LatexDecodingMiddleware(keep_braced_groups=a, keep_math_mode=b)
    out = mw.transform(Library([Entry(names[2], names[0], [Field(names[1], text)])])).blocks[0]
    failed = type(out).__name__ == "MiddlewareErrorBlock"
    e = out.ignore_error_block if failed else out
    v = e.fields[0].value
    _CTL[k] = (str(v) if isinstance(v, str) else v, failed)
    return _CTL[k]


def expected_view(view, kind, opts):
    """the view the property demands after one application on a block with this view: every text replaced by what the control
    makes of it, wrapped into an error block if some conversion failed"""
    tag = view[0].split("<")[0]
    if tag not in ("entry", "string"):
        return view
    failed = [False]

    def cv(t):
        r, f = control(kind, opts, t)
        failed[0] = failed[0] or f
        return r

    def val(v):
        if v[0] == "str":
            return ("str", cv(v[1]))
        if v[0] == "parts":
            f, vo, la, jr = v[1:]
            f2 = [cv(x) for x in f]
            la2 = [cv(x) for x in la]
            vo2 = [cv(x) for x in vo]
            jr2 = [cv(x) for x in jr]
            return ("parts", f2, vo2, la2, jr2)
        return v
    if tag == "entry":
        new = (view[0], view[1], view[2], [(k, val(v), ln) for k, v, ln in view[3]]) + tuple(view[4:])
    else:
        new = (view[0], view[1], val(view[2])) + tuple(view[3:])
    if failed[0]:
        return ("mwerr", new, view[-3], view[-2], [])
    return new


def impl(case):
    import implutil
    from props import c18 as P
    from bibtexparser.library import Library
    from bibtexparser.middlewares import LatexEncodingMiddleware, LatexDecodingMiddleware
    inp = case["input"]
    specs, mws, opts, dopts, inplace = inp["lib"], inp["mws"], inp["opts"], inp.get("dopts", [None, None]), inp.get("inplace", True)
    rec = {"sx_in": None, "sx_out": None, "key": json.dumps(["coincide", specs, mws, opts, dopts, inplace]), "nontrivial": True,
           "tags": ["coincide-default:" + ",".join("enc" if k == 0 else "dec" for k in mws),
                    "coincide-default:" + ("in-place" if inplace else "copy-mode")] + tags(specs) + P.class_tags(specs)}

    def mk(k):
        if k == 0:
            return LatexEncodingMiddleware(keep_math=opts[0], enclose_urls=opts[1], allow_inplace_modification=inplace)
        return LatexDecodingMiddleware(keep_braced_groups=dopts[0], keep_math_mode=dopts[1], allow_inplace_modification=inplace)

    def run():
        lib = Library(P.build_blocks18(specs))
        views = [[P.block_view(b) for b in lib.blocks]]
        for k in mws:
            lib = mk(k).transform(lib)
            views.append([P.block_view(b) for b in lib.blocks])
        return views
    r = implutil.guarded(run)
    if r[0] == "exc":
        rec["oracle"] = {"ok": False, "detail": "LaTeX middleware raised %s instead of containing the error" % r[2]}
        rec["summary"] = "raised " + r[2]
        return rec
    views = r[1]
    rec["summary"] = repr(views[-1])[:200]
    ok, detail = True, ""
    for step, k in enumerate(mws):
        before, after = views[step], views[step + 1]
        name = "enc" if k == 0 else "dec"
        if len(before) != len(after):
            ok, detail = False, "application %d (%s): number of blocks changed" % (step, name)
            break
        for j, (x, y) in enumerate(zip(before, after)):
            # (1) scope and types
            if x[0] in ("dup", "mwerr", "ParsingFailedBlock"):
                good, why = (x == y), "a failed / duplicate block changed"
            else:
                good, why = P._scope_ok(x, y)
            if not good:
                ok, detail = False, "application %d (%s) block %d: %s: %r -> %r" % (step, name, j, why, x, y)
                break
            # (2) every text is converted exactly as the same text is when it stands alone
            c = implutil.guarded(lambda: expected_view(x, k, opts if k == 0 else dopts))
            if c[0] == "exc":
                ok, detail = False, "the control conversion raised %s" % c[2]
                break
            if y != c[1]:
                ok, detail = False, ("application %d (%s) block %d: %r became %r; each of its texts converted on its own (one-field library, same "
                                     "options) gives %r: a text is not converted like any other text because of what else the library holds"
                                     % (step, name, j, x, y, c[1]))
                break
        if not ok:
            break
    # (3) decode(encode(.)) = identity, block by block where every text is within the third party's reach
    if ok and list(mws) == [0, 1] and dopts == [None, None]:
        bad = P.third_party_not_injective()
        km, eu = opts[0] is not False, opts[1] is not False
        for j, s in enumerate(specs):
            if s["t"] not in ("entry", "string") or views[0][j][0] in ("dup",):
                continue
            texts = P.spec_texts([s])
            if all(P.allowed_text(x) and not any(ch in bad for ch in x) and P.rt_known_class(x, km, eu) is None and P.pristine_roundtrips(x)
                   for x in texts):
                if views[2][j] != views[0][j]:
                    ok, detail = False, "decode(encode(.)) with keep_math=%r enclose_urls=%r: block %d %r became %r (encoded: %r)" % (
                        opts[0], opts[1], j, views[0][j], views[2][j], views[1][j])
                    break
                rec["tags"].append("coincide-default:roundtrip-block-checked")
            else:
                rec["tags"].append("coincide-default:roundtrip-block-excluded")
    rec["tags"] = sorted(set(rec["tags"]))
    rec["oracle"] = {"ok": ok, "detail": detail}
    return rec
