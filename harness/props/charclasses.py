"""Character classes on which two notions that usually coincide diverge (shared by the per-property generators).

Seeding rounds 7 and 8 kept finding changes whose trigger is ONE character of such a class at a position where the code
strips, splits, folds case or tests a predicate: `str.strip()` vs `strip(" \\t\\r\\n")`, `str.split()` vs `split(" ")`,
`splitlines()` vs `split("\\n")`, `string.whitespace` vs a literal set, `lower()` vs `casefold()`, `isdigit()` vs `isdecimal()`,
"invisible" vs "whitespace".  Every generator that produces text should draw from these pools at every position where the
library looks at characters (edges of keys / values / words / names, around separators, inside words).

All pools are plain lists of one-character strings (a few two-character sequences where noted), fixed and ordered, so that a
generator stays deterministic for a given seed."""

ASCII_BLANKS = [" ", "\t", "\n", "\r"]
# str.isspace() is True, not one of the four above.  \x0b \x0c are in string.whitespace; \x1c-\x1f \x85 and the rest are not.
# str.splitlines() breaks at \x0b \x0c \x1c \x1d \x1e \x85     (and \n \r).
OTHER_ISSPACE = ["\x0b", "\x0c", "\x1c", "\x1d", "\x1e", "\x1f", "\x85", "\xa0", " ", " ", " ", " ", " ",
                 " ", " ", " ", " ", "　"]
STRING_WHITESPACE_ONLY = ["\x0b", "\x0c"]                 # in string.whitespace, not in " \t\r\n"
LINE_BOUNDARIES = ["\x0b", "\x0c", "\x1c", "\x1d", "\x1e", "\x85", " ", " "]      # splitlines(), not "\n" / "\r"
# invisible or blank-looking, but str.isspace() is FALSE: nothing may strip them or split at them
INVISIBLE_NOT_SPACE = ["​", "‌", "‍", "⁠", "﻿", "­", "᠎", "⠀", "ㅤ"]
# letters whose lower() / upper() / casefold() differ from one another or change the length of the text
CASE_ODDITIES = ["ſ",      # long s: lower() keeps it, casefold() -> s, upper() -> S
                 "ﬅ", "ﬆ", "ﬁ",      # ligatures st, st, fi: casefold() expands to two letters
                 "ß", "ẞ",                # sharp s: casefold() -> ss
                 "İ", "ı",                # dotted capital I (lower() -> i + U+0307), dotless i (upper() -> I)
                 "K", "Å",                # Kelvin sign, Angstrom sign: lower() -> k, a-ring
                 "ς", "Σ",                # final sigma / capital sigma
                 "ǅ", "ᾈ"]                # titlecase letters
# digit-like: isdigit() / isdecimal() / isnumeric() / int() disagree
DIGIT_ODDITIES = ["²", "¹", "①", "⁵", "٣", "१", "１", "½", "Ⅷ", "三", "\U0001d7d9"]
# letter-like outside ASCII (isalpha / \w true), combining marks (\w false, attach to the previous letter)
LETTER_LIKE = ["é", "Ø", "ł", "α", "ж", "中", "\U0001d538", "Ａ"]
COMBINING = ["́", "̇", "̈", "⃝"]
# identifier characters that are not \w (legal in BibTeX keys and macro names)
KEY_PUNCT = list("-:.+/*!?&'()[];<>|^~`$%")


def all_whitespace():
    return ASCII_BLANKS + OTHER_ISSPACE


def edge_cases(word, pool):
    """`word` with one character of `pool` put before it, after it, on both sides and in the middle (deterministic order)"""
    out = []
    mid = max(1, len(word) // 2)
    for c in pool:
        out += [c + word, word + c, c + word + c, word[:mid] + c + word[mid:]]
    return out
