"""C14, streams fmtvocab-*: NAME WORDS THAT CONTAIN THE VOCABULARY OF NAME FORMATTING.

The merge functions put the words of a person back as they are, whatever letters they are made of.  A merge that is expressed
through a TEMPLATE (BibTeX's `format.name$` groups `{ff }{vv }{ll}{, jj}`, `str.format`, `%`-formatting, `string.Template`, a chain
of `str.replace` / `re.sub` calls) is only correct if the text substituted for one part is never looked at again.  When it is, a
name word that contains the vocabulary of that template language is taken for a piece of the template: `{Bell Labs} Staff`
(`ll` in a brace group of the first name), `{William} Shakespeare`, `Anna, {Miller}`, a last name `{first}`, a word `%s`, `$last`,
`\\1` ...  All of these are ordinary VALID names, so the inverse law of C14 speaks about them: split, merged (in either style) and
split again they must give exactly the same persons and parts, through the functions, the middleware pair and the whole stack.
No token alphabet of the other streams contains these letters inside braces, and `Aa` / `bb` contain none of the codes.

Generated here (fixed ordered pools, combined with the check's PRNG only):
    inner texts     per KIND (VOCAB): ordinary words that contain a two-letter part code (`Bell`, `William`, `Hoff`, `Savvy`, `Bjj`,
                    also lower-case: von words), the codes alone (`ff` `vv` `ll` `jj` `f` `v` `l` `j`, other letter case as near misses),
                    texts of template groups (`ff `, `vv `, `ll`, `, jj`, `f.`, `Bell Labs`), whole templates (`{ff }{vv }{ll}{, jj}`),
                    Python placeholders (`first`, `last`, `0`, the empty text, `0.last`, `first!r`, `last:>10` - in braces `{first}`,
                    `{0}`, `{}` -, `%s`, `%(last)s`, `%d`, `%%`, `$last`, `${von}`, `$$`), the attribute names `first` `von` `last`
                    `jr` (lower-case: von words), replacement escapes of re.sub (`\\1`, `\\g<0>`)
    words           the inner text bare (where it is one word), in braces `{i}`, glued to letters before / after (`X{i}`, `{i}x`,
                    `x{i}`), nested (`{{i}}`, `{a {i} b}`) - the shapes of c14_lookalike
    persons         the word alone and as a word of the first / von / last / jr part (the templates of c14_lookalike: all three comma
                    forms, the other parts present or absent, several such words in one name), and SAME: the word in two parts of
                    the same name (first == last, a von word equal to the last name, the first-name word inside the last name:
                    `Bell Bell`, `Bell, Bell`, `de de`, `Al McAl`, `Bell {Bell Labs}`, `Knuth-Bell, Bell`)
    values          lists of 1..4 persons with such a person as the only / last / first / middle one, several of them, the same one twice
    levels          person (op 86), list (op 87), stack (op 91; values that can be written to a file, c14_lookalike.writable): model
                    compared; fnpair (c14_lookalike.impl) and mwpair (c14_magic.impl): both merge styles, oracle only.

Verdicts: as everywhere in C14 (see c14_lookalike).
"""
from props import names_common as nc
from props import c14_magic
from props import c14_lookalike as la

NF = ("author", "editor", "translator")

VOCAB = [
    ("code2_in_word", ["Bell", "William", "Hoff", "Savvy", "Bjj", "Hall", "Jeff", "Duff", "Navvy", "Hajji", "Miller", "Hoffjjll", "bell", "hoff",
                       "savvy", "willvvff", "O'Reilly", "Ll", "LL", "Vv", "FF", "jJ", "Bell-Hoff", "B.ll", "ll.", "vv.", "jj,x"]),
    ("code2_alone", ["ff", "vv", "ll", "jj", "ffvv", "llff", "jjll", "vvll", "ffvvlljj"]),
    ("code1_alone", ["f", "v", "l", "j", "f.", "v.", "l.", "j.", "F", "L", "fl", "jv"]),
    ("code1_in_word", ["Olaf", "Vida", "Lee", "Jo", "Raj", "Kafka", "Eve", "Paul", "olaf", "java"]),
    ("group_text", ["Bell Labs", "ff ", "vv ", "ll", ", jj", " jj", "f. ", ", ff", "vv~", "ff~", "ll, ff", "ll, jj, ff", "William of Hall", "Hoff Savvy Bjj",
                    "a ll b", "Bell Labs, Inc.", " ll ", "f.~", "l. ", "von ll", "Jeff vv Hall jj", "Staff", "Miller Group"]),
    ("template", ["{ff }{vv }{ll}{, jj}", "{vv }{ll}{, jj}{, ff}", "{ff }{vv }{ll}{ jj}", "{ll}", "{ff~}{vv~}{ll}{, jj}", "{f.~}{vv~}{ll}", "{ll}{, ff}",
                  "{vv~}{ll}{, jj}{, f.}", "{ff}{ll}", "{jj}{ff}", "x{ll}y{ff}z"]),
    ("py_format", ["first", "last", "von", "jr", "0", "", "1", "0.last", "first!r", "last:>10", "0[last]", "self.last", "first} {last", "{first}", "{}",
                   "{0}", "{{}}", "{{last}}", "{first} {last}", "last}, {first"]),
    ("py_percent", ["%s", "%(last)s", "%(first)s", "%d", "%%", "%r", "%(von)s %(last)s", "%s %s", "%", "%(jr)s,", "100%s", "%(ll)s", "%ll"]),
    ("py_dollar", ["$last", "${von}", "$first", "$$", "${jr}", "$first $last", "$", "${last}, ${first}", "$ll", "a$von"]),
    ("attr_name", ["first", "von", "last", "jr", "First", "Last", "Von", "Jr", "jr.", "FIRST", "lastname", "first_name", "self.first", "name.last",
                   "von last", "last, first", "von Last, Jr, First"]),
    ("regex_repl", ["\\1", "\\g<0>", "\\2x", "\\g<ll>", "a\\1b", "\\0", "\\g<1>x"]),
]

# the word in two parts of the same name (w: the word as it stands, l: its first letter lowered, so a von word where w starts a letter)
SAME = ["%(w)s\x00%(w)s", "%(w)s,\x00%(w)s", "%(w)s,\x00%(w)s,\x00%(w)s", "%(w)s\x00%(l)s\x00%(w)s", "%(l)s\x00%(l)s", "Donald\x00%(l)s\x00%(l)s",
        "%(l)s\x00%(w)s,\x00Donald", "%(l)s\x00%(l)s,\x00%(w)s", "%(w)s\x00Mc%(w)s", "%(w)s\x00%(w)sson", "%(w)s\x00{De\x00%(w)s}", "%(w)s\x00{%(w)s Labs}",
        "Knuth-%(w)s,\x00%(w)s", "%(w)s\x00Knuth\x00%(w)s", "Knuth\x00%(w)s,\x00%(w)s", "%(w)s\x00Knuth,\x00Jr,\x00%(w)s", "Knuth,\x00%(w)s,\x00%(w)s",
        "%(w)s\x00%(w)s\x00%(w)s\x00%(w)s", "%(l)s\x00%(w)s,\x00%(w)s,\x00%(w)s", "%(w)s\x00%(l)s\x00%(w)s\x00%(l)s\x00%(w)s", "%(w)s\x00de\x00%(w)s", "%(w)s-%(w)s,\x00%(w)s"]
SAME_PLAIN = ["Knuth", "Donald", "de", "van", "Jr", "Al", "Lee", "{Barnes Noble}", "D.", "III"]

BARE = ("bare", "%s")
SHAPES = [BARE] + list(la.SHAPES)
KINDS = la.KINDS


def one_word(i):
    """the text is one name word without braces around it: balanced, not empty, no separator at depth 0, no edge that the
    splitters strip"""
    if not i or not nc.balanced(i):
        return False
    depth = 0
    for c in i:
        if c == "{":
            depth += 1
        elif c == "}":
            depth -= 1
            if depth < 0:
                return False
        elif depth == 0 and c in " \t\r\n,~":
            return False
    return True


def lower_first(w):
    """the word with its first letter lowered (the first letter at depth 0 decides the case of a word; inside a brace group
    nothing changes, which is as it should be: such a word has no case)"""
    for k, c in enumerate(w):
        if c == "{":
            return w
        if c.isalpha():
            return w[:k] + c.lower() + w[k + 1:]
    return w


def cases(rng, tier, good, ok):
    quick = tier == "quick"
    out = []
    inner = [(kind, i) for kind, xs in VOCAB for i in xs]
    companions = [s for s in c14_magic.ORDINARY if ok(s)]
    all_templates = [t for _, ts in la.TEMPLATES for t in ts]
    seen_person = set()

    def shapes_of(i):
        return [s for s in SHAPES if (s is not BARE or one_word(i)) and nc.balanced(s[1] % i)]

    def word(i, shape=None):
        ss = shapes_of(i)
        if not ss:
            return None
        if shape is None:
            r = rng.random()
            shape = ss[0] if r < 0.35 else ss[min(1, len(ss) - 1)] if r < 0.7 else rng.choice(ss)
        elif shape not in ss:
            return None
        return shape[1] % i

    def person(kind, i, w, bucket=None, template=None, plain=None):
        """(name, label) or None if the name is not admissible for the independent name rules"""
        if w is None:
            return None
        if template is None:
            _, ts = la.TEMPLATES[bucket] if bucket is not None else rng.choice(la.TEMPLATES)
            template = rng.choice(ts)
        v = ""
        if "%(v)s" in template:
            v = word(rng.choice(inner)[1]) or "{ll}"
        name = la._fill(rng, template, w, v, rng.random() < 0.6 if plain is None else plain)
        if not ok(name):
            return None
        return name, "%s/%s" % (kind, la.role_of(name, i) if i else "alone" if name == w else "several")

    def same_person(kind, w, template=None, plain=None):
        template = template or rng.choice(SAME)
        s = template % {"w": w, "l": lower_first(w)}
        name = "".join((" " if (plain if plain is not None else rng.random() < 0.6) else rng.choice(la.SEPS)) if c == la.SEP else c for c in s)
        if not ok(name):
            return None
        return name, "%s/same" % kind

    def emit_person(p):
        if p is None:
            return
        name, label = p
        if name not in seen_person:
            seen_person.add(name)
            out.append({"stream": "fmtvocab-person", "input": {"level": "person", "s": name, "fmtvocab": label}})

    def any_person():
        for _ in range(30):
            r = rng.random()
            kind, i = rng.choice(inner)
            if r < 0.75:
                p = person(kind, i, word(i))
            elif r < 0.93:
                w = word(i)
                p = same_person(kind, w) if w else None
            else:
                p = same_person("same_plain", rng.choice(SAME_PLAIN))
            if p is not None:
                return p
        return ("{Bell Labs} Staff", "group_text/first")

    def comp():
        r = rng.random()
        return rng.choice(companions) if r < 0.55 else rng.choice(good) if r < 0.75 else any_person()[0]

    def value(pos, m, n):
        if pos == "only":
            ps = [m]
        elif pos == "last":
            ps = [comp() for _ in range(n - 1)] + [m]
        elif pos == "first":
            ps = [m] + [comp() for _ in range(n - 1)]
        elif pos == "middle":
            ps = [comp() for _ in range(n - 1)]
            ps.insert(rng.randint(1, n - 2), m)
        elif pos == "all":
            ps = [m] + [any_person()[0] for _ in range(n - 1)]
            rng.shuffle(ps)
        else:
            ps = [comp() for _ in range(n - 2)]
            for _ in range(2):
                ps.insert(rng.randint(0, len(ps)), m)
        v = ps[0]
        for p in ps[1:]:
            v += rng.choice(c14_magic.JOINS) + p
        return v

    def size(pos):
        return {"only": 1, "last": rng.randint(2, 4), "first": rng.randint(2, 4), "middle": rng.randint(3, 4), "all": rng.randint(2, 4),
                "twice": rng.randint(2, 4)}[pos]

    def emit_value(p, pos=None, levels=("list", "fn", "mw", "stack")):
        if p is None:
            return False
        name, label = p
        pos = pos or rng.choice(KINDS)
        v = value(pos, name, size(pos))
        tag = "%s/%s" % (label, pos)
        if "list" in levels:
            out.append({"stream": "fmtvocab-list", "input": {"level": "list", "s": v, "fmtvocab": tag}})
        if "fn" in levels:
            out.append({"stream": "fmtvocab-fn", "input": {"level": "fnpair", "s": v, "fmtvocab": tag}})
        if "mw" in levels:
            out.append({"stream": "fmtvocab-mw", "input": {"level": "mwpair", "field": rng.choice(NF), "s": v, "fmtvocab": tag}})
        if "stack" in levels and la.writable(v):
            fields = [[rng.choice(NF), v]]
            r = rng.random()
            if r < 0.15:
                fields.insert(rng.randint(0, 1), ["title", rng.choice(["The {ll} of {ff }{vv }{ll}{, jj}", "%(last)s and $first {0} {}", "On {Bell Labs}"])])
            elif r < 0.3:
                k2 = rng.choice([k for k in NF if k != fields[0][0]])
                v2 = value(rng.choice(KINDS[:3]), any_person()[0], rng.randint(2, 3))
                if la.writable(v2):
                    fields.insert(rng.randint(0, 1), [k2, v2])
            out.append({"stream": "fmtvocab-stack", "input": {"level": "stack", "fields": fields, "fmtvocab": tag}})
        return True

    # ---- persons: every inner text, bare and braced, in every template and (braced; bare: 8 drawn in the quick tier) in every
    # SAME template (single blanks); every inner text in every other shape in some templates with the separators drawn
    for kind, i in inner:
        for shape in SHAPES[:2]:
            w = word(i, shape)
            if w is None:
                continue
            for t in all_templates:
                emit_person(person(kind, i, w, template=t, plain=True))
            for t in (SAME if not quick or shape is not BARE else rng.sample(SAME, 8)):
                emit_person(same_person(kind, w, template=t, plain=True))
    for kind, i in inner:
        for shape in SHAPES[2:]:
            w = word(i, shape)
            if w is None:
                continue
            for t in (all_templates if not quick else rng.sample(all_templates, 3)):
                emit_person(person(kind, i, w, template=t, plain=False))
            for t in (SAME if not quick else rng.sample(SAME, 1)):
                emit_person(same_person(kind, w, template=t, plain=False))
    for w in SAME_PLAIN:
        for t in SAME:
            emit_person(same_person("same_plain", w, template=t, plain=True))
    # ---- the seed-independent core of the class on all levels: every inner text (bare and braced) x every part of a person and
    # one SAME person, the position in the list going round
    k = 0
    for kind, i in inner:
        for shape in SHAPES[:2]:
            w = word(i, shape)
            if w is None:
                continue
            for b in range(len(la.TEMPLATES)):
                # quick: the bare word through the middleware pair and through the whole stack in turn, the braced one through both
                lv = ("list", "fn", "mw", "stack") if not quick or shape is not BARE else ("list", "fn", "mw") if k % 2 else ("list", "fn", "stack")
                if emit_value(person(kind, i, w, bucket=b), KINDS[k % len(KINDS)], lv):
                    k += 1
            if emit_value(same_person(kind, w), KINDS[k % len(KINDS)]):
                k += 1
    for w in SAME_PLAIN:
        for t in rng.sample(SAME, 3):
            if emit_value(same_person("same_plain", w, template=t), KINDS[k % len(KINDS)]):
                k += 1
    # the plainest members, as they are found in .bib files
    for v in ("{Bell Labs} Staff and Ken Thompson", "{William} Shakespeare", "Anna, {Miller}", "King, {Hajji Jr.}, Martin Luther", "William Hall and Jeff Hoff",
              "{vv} {ll}, {jj}, {ff}", "{first} {last}", "de {ll} Knuth, {ff}", "Bell, Bell and de de and Al McAl", "{ff }{vv }{ll}{, jj}",
              "%(first)s %(last)s and $first $last and {0} {1}", "Savvy Bjj, ll, ff and vv ll", "{} Knuth and Knuth, {}", "first von last, jr"):
        if all(ok(n) for n in v.split(" and ")):
            emit_value((v, "fixed/list"), "only")
    # ---- sampled: any such person, any position, 1..4 persons, all levels
    for _ in range(500 if quick else 25000):
        emit_value(any_person())
    return out
