"""The library's string helpers, reached through its PUBLIC interface only.

The per-property runners used to call private helpers of the tree under test (`RemoveEnclosingMiddleware._strip_enclosing`,
`AddEnclosingMiddleware._enclose`, ...).  A behaviour-preserving rewrite that renames them then raised an alarm although no
property was touched (benign round, DESIGN.md 10.5).  Everything here goes through `Middleware.transform` on a one-block
library, which is also what a user can observe."""


def _mods():
    from bibtexparser.library import Library
    from bibtexparser.model import Entry, Field
    from bibtexparser.middlewares import enclosing
    return Library, Entry, Field, enclosing


NUMERIC_KEY, OTHER_KEY = "year", "title"


def strip_enclosing(value):
    """RemoveEnclosingMiddleware on the single field `title = value` -> (new value, recorded enclosing)"""
    Library, Entry, Field, enclosing = _mods()
    lib = Library([Entry("article", "k", [Field(OTHER_KEY, value)])])
    out = enclosing.RemoveEnclosingMiddleware(allow_inplace_modification=True).transform(lib)
    e = out.blocks[0]
    return e.fields[0].value, e.parser_metadata[enclosing.REMOVED_ENCLOSING_KEY][OTHER_KEY]


def enclose(mw, value, md, apply_int_rule):
    """AddEnclosingMiddleware instance `mw` on the single field `year|title = value` whose recorded enclosing is md (None: no record)"""
    Library, Entry, Field, enclosing = _mods()
    key = NUMERIC_KEY if apply_int_rule else OTHER_KEY
    assert (key in enclosing.ENTRY_POTENTIALLY_INT_FIELDS) == bool(apply_int_rule), "numeric-field list of the tree under test changed"
    e = Entry("article", "k", [Field(key, value)])
    if md is not None:
        e.parser_metadata[enclosing.REMOVED_ENCLOSING_KEY] = {key: md}
    out = mw.transform(Library([e]))
    return out.blocks[0].fields[0].value


# ---------------------------------------------------------------------------------------------------------------------------------
# Read-only attributes (Block.start_line, Block.raw, the parser_metadata dict object, Field.start_line, the library's block
# list) can only be given at construction.  To perturb ONE of them on a copy the generators write the instance attribute
# that backs the public property.  Its name is DISCOVERED on the tree under test (a probe object is built with
# recognisable values and its instance dictionary searched), so a rewrite that renames it does not break the harness; the
# names of the pinned tree are the fallback.
_PINNED = {"block.start_line": "_start_line_in_file", "block.raw": "_raw", "block.parser_metadata": "_parser_metadata",
           "field.start_line": "_start_line", "library.blocks": "_blocks"}
_FOUND = {}


def backing_attr(what):
    if what in _FOUND:
        return _FOUND[what]
    name = None
    try:
        from bibtexparser.library import Library
        from bibtexparser.model import Field, Preamble
        if what.startswith("block."):
            p = Preamble("v", 123457, "RAW\x00PROBE")
            p.parser_metadata["probe\x00key"] = 1
            want = {"block.start_line": lambda v: v == 123457 and type(v) is int,
                    "block.raw": lambda v: v == "RAW\x00PROBE",
                    "block.parser_metadata": lambda v: isinstance(v, dict) and "probe\x00key" in v}[what]
            hits = [k for k, v in vars(p).items() if want(v)]
        elif what == "field.start_line":
            f = Field("k", "v", 123457)
            hits = [k for k, v in vars(f).items() if v == 123457 and type(v) is int]
        else:
            b = Preamble("v")
            lib = Library([b])
            hits = [k for k, v in vars(lib).items() if type(v) is list and len(v) == 1 and v[0] is b]
        if len(hits) == 1:
            name = hits[0]
    except Exception:  # noqa: BLE001
        name = None
    _FOUND[what] = name or _PINNED[what]
    return _FOUND[what]


def set_backing(obj, what, value):
    setattr(obj, backing_attr(what), value)


def get_backing(obj, what):
    return getattr(obj, backing_attr(what))


def latex_convert(mw, text):
    """a Latex{En,De}codingMiddleware instance on the single field `title = text` -> (converted text, 1 if it failed else 0)"""
    Library, Entry, Field, _ = _mods()
    out = mw.transform(Library([Entry("article", "k", [Field(OTHER_KEY, text)])])).blocks[0]
    failed = type(out).__name__ == "MiddlewareErrorBlock"
    e = out.ignore_error_block if failed else out
    return e.fields[0].value, int(failed)
