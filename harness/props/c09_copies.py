"""C09, stream `copies`: duplicate-key documents through every path that COPIES or REBUILDS the library.

A case is one document of the collision grammar (entry keys, string keys, field names from small pools; bare field values
drawn from the string keys so that resolving changes content) and ONE path (so that a verdict is a verdict on that path):

  how     parse_string(text, parse_stack=S) (list / tuple / iterator, optionally into a caller's Library / SubLibrary),
          parse_string(text, append_middleware=S) after the default stack, Splitter.split + S applied by hand
  S       0-3 shipped middlewares, each in-place, in copy mode (allow_inplace_modification=False) or with the default
          argument: every shipped block middleware, ResolveStringReferences, the block sorter (never in place), a user's
          LibraryMiddleware subclass; or default_parse_stack(allow_inplace_modification=True / False)
  post    0-2 operations on the returned library: copy.deepcopy, copy.copy, pickle round trip, Library(lib.blocks),
          Library(list), SubLibrary(lib.blocks), Library().add(lib.blocks), Library(copy.deepcopy(lib.blocks)),
          one more middleware's transform

The verdict comes from the property statement (`judge`), stated on the RETURNED library against the generator's ground truth:
as many blocks as source blocks; the first block of every (class, key) is live (the object in entries_dict / strings_dict, a
member of blocks); every later one is, at its own position (when the path does not sort), a failed duplicate-key block that
exposes the key, the FIRST block - `previous_block` IS (identity) the live first block of the returned library, hence has
the content that block has there - and the complete duplicate (every field occurrence in source order, as written); an entry
repeating a field name is a duplicate-field block holding every occurrence and is not registered.

Known finding K13: a shipped BLOCK middleware in copy mode copies every block on its own, the copy of a duplicate-key block
drags a private, untransformed copy of its first block along.  A case whose ONLY failure is the `previous_block` link and
whose path contains such a middleware is attributed to K13; every other failure, and the link on every other path, is an
ordinary violation.

Model: paths that change neither content nor order (no middleware but the user's copying LibraryMiddleware) are also compared
with the Coq splitter model (op 132) on the blocks of the library that is RETURNED by the path; all other cases are oracle-only."""
import hashlib
import json

import gens_split as G

BLOCK_MWS = ["RemoveEnclosingMiddleware", "AddEnclosingMiddleware", "LatexDecodingMiddleware", "LatexEncodingMiddleware",
             "MonthIntMiddleware", "MonthAbbreviationMiddleware", "MonthLongStringMiddleware", "SeparateCoAuthors",
             "MergeCoAuthors", "SplitNameParts", "MergeNameParts", "NormalizeFieldKeys", "SortFieldsAlphabeticallyMiddleware",
             "SortFieldsCustomMiddleware"]
LIB_MWS = ["ResolveStringReferencesMiddleware", "SortBlocksByTypeAndKeyMiddleware", "UserLibraryMiddleware"]
SLOW_MWS = ("LatexDecodingMiddleware", "LatexEncodingMiddleware")
POST_OPS = ["deepcopy", "copy", "pickle", "rebuild", "rebuild-list", "rebuild-sub", "add-into-empty", "rebuild-deepcopied-blocks"]


# ------------------------------------------------------------------------------------------------------------- generation
NAME_CHAINS = {"SeparateCoAuthors": ["SeparateCoAuthors"], "MergeCoAuthors": ["SeparateCoAuthors", "MergeCoAuthors"],
               "SplitNameParts": ["SeparateCoAuthors", "SplitNameParts"],
               "MergeNameParts": ["SeparateCoAuthors", "SplitNameParts", "MergeNameParts"]}


# middlewares that leave values other than strings (lists of names / NameParts, int months): nothing but copies may follow them -
# RemoveEnclosing, the LaTeX middlewares ... are written for string values and raise on others, which is not this property's subject
TERMINAL = set(NAME_CHAINS) | {"MonthIntMiddleware"}


def gen_mw(rng, mode=None, pool=None, names_ok=False):
    """A list of [name, allow_inplace_modification (True / False / None = the constructor's default), options]: one middleware, or
    a name middleware preceded by the ones it needs (SplitNameParts works on the lists SeparateCoAuthors leaves, ...).  A TERMINAL
    middleware is only generated where no middleware follows it (names_ok)."""
    while True:
        if pool is None:
            r = rng.random()
            if r < 0.30:
                name = "RemoveEnclosingMiddleware"
            elif r < 0.50:
                name = "ResolveStringReferencesMiddleware"
            elif r < 0.62:
                name = "SortBlocksByTypeAndKeyMiddleware"
            elif r < 0.68:
                name = "UserLibraryMiddleware"
            else:
                name = rng.choice(BLOCK_MWS)
                if name in SLOW_MWS and rng.random() < 0.5:
                    name = rng.choice(BLOCK_MWS)
        else:
            name = rng.choice(pool)
        if names_ok or name not in TERMINAL:
            break
    if mode is None:
        mode = rng.choice([False, False, False, True, None])
    else:
        mode = mode[0]
    opts = None
    if name == "AddEnclosingMiddleware":
        opts = [rng.random() < 0.5, rng.random() < 0.5, rng.choice(["{", '"'])]
    elif name == "SortBlocksByTypeAndKeyMiddleware":
        opts = [rng.random() < 0.6]
        mode = None                      # takes no such argument: never in place
    elif name == "SortFieldsCustomMiddleware":
        cs = rng.random() < 0.5
        order = []
        for k in rng.sample(["t", "T", "a", "author", "year"], rng.randint(0, 3)):
            if cs or k.lower() not in [o.lower() for o in order]:      # the constructor refuses repeated names
                order.append(k)
        opts = [order, cs]
    elif name == "MergeNameParts":
        opts = [rng.choice(["last", "first"])]
    if name in NAME_CHAINS:
        return [[n, mode if n == name or rng.random() < 0.7 else rng.choice([True, False, None]), opts if n == name else None]
                for n in NAME_CHAINS[name]]
    return [[name, mode, opts]]


def _chain(rng, n, **kw):
    """n middlewares; only the last may be TERMINAL"""
    out = []
    for i in range(n):
        out += gen_mw(rng, names_ok=(i == n - 1), **kw)
    return out


def gen_stack(rng):
    r = rng.random()
    if r < 0.12:
        return {"default": rng.choice([False, False, True])}
    if r < 0.20:
        return {"mws": []}
    if r < 0.32:
        # the stack of the documentation in copy mode, possibly continued
        mws = [["ResolveStringReferencesMiddleware", False, None], ["RemoveEnclosingMiddleware", rng.choice([False, True, None]), None]]
        if rng.random() < 0.4:
            mws += gen_mw(rng, names_ok=True)
        return {"mws": mws}
    if r < 0.47:
        return {"mws": _chain(rng, rng.randint(1, 2), mode=[False], pool=["ResolveStringReferencesMiddleware", "UserLibraryMiddleware",
                                                                            "SortBlocksByTypeAndKeyMiddleware"])}
    if r < 0.60:
        return {"mws": _chain(rng, 1, mode=[False], pool=BLOCK_MWS)}
    return {"mws": _chain(rng, rng.randint(1, 3))}


def gen_post(rng, names_used):
    """names_used: the stack ends in name middlewares, no other middleware may follow"""
    r = rng.random()
    n = 0 if r < 0.40 else 1 if r < 0.85 else 2
    ops = []
    for _ in range(n):
        if rng.random() < 0.2 and not names_used:
            ops.append(["transform", gen_mw(rng, names_ok=True)])
            names_used = any(m[0] in TERMINAL for m in ops[-1][1])
        else:
            ops.append([rng.choice(POST_OPS), rng.choice([None, 0, 2, -1])])
    return ops


def gen_path(rng):
    r = rng.random()
    if r < 0.62:
        how = "parse_stack"
    elif r < 0.80:
        how = "append"
    else:
        how = "by-hand"
    path = {"how": how}
    if how == "append":
        path["stack"] = {"mws": _chain(rng, rng.choice([1, 1, 2]), mode=[False] if rng.random() < 0.6 else None,
                                       pool=["SortBlocksByTypeAndKeyMiddleware", "SortBlocksByTypeAndKeyMiddleware", "UserLibraryMiddleware",
                                             "ResolveStringReferencesMiddleware"] + BLOCK_MWS[:2] + BLOCK_MWS[4:])}
    else:
        path["stack"] = gen_stack(rng)
    path["post"] = gen_post(rng, any(m[0] in TERMINAL for m in path["stack"].get("mws", [])))
    if not path["post"] and how != "append" and not path["stack"].get("mws", True) and rng.random() < 0.8:
        # an empty stack and nothing after it copies nothing: give it something to do
        path["post"] = [[rng.choice(POST_OPS), rng.choice([None, 0, 2, -1])]]
    path["seq"] = rng.choice(["list", "list", "tuple", "iter"])
    path["into"] = rng.choice([None, None, None, "Library", "SubLibrary"])
    return path


def gen_case(rng):
    ek = rng.sample(["k1", "k2", "K1", "a", "b"], rng.randint(1, 3))
    sk = rng.sample(["k1", "s", "a"], rng.randint(1, 2))
    fn = rng.sample(["t", "T", "a", "author", "year", "month"], rng.randint(1, 3))
    kinds = ["entry", "entry", "entry", "entry", "string", "string", "preamble", "comment", "freetext"]
    text, items = "", []
    for _try in range(4):
        text, items = G.gen_doc(rng, max_items=rng.choice([3, 6, 10]), depth=1, entry_keys=ek, string_keys=sk, field_names=fn,
                                kinds=kinds, bare_pool=sk)
        if _collisions(items):
            break
    return {"stream": "copies", "input": {"text": text, "items": items, "path": gen_path(rng)}}


def generate(rng, tier):
    return [gen_case(rng) for _ in range(1500 if tier == "quick" else 20000)]


# ----------------------------------------------------------------------------------------------------------- the statement
def expected_kinds(items):
    """Per source block: (kind, index of the first block of its (class, key) or None).  kind: 'first' | 'dup' | 'dupfield' | 'other'"""
    live = {}
    out = []
    for i, it in enumerate(items):
        if it["kind"] == "entry":
            names = [f[0] for f in it["fields"]]
            if len(set(names)) != len(names):
                out.append(("dupfield", None))
                continue
        if it["kind"] in ("entry", "string"):
            k = (it["kind"], it["key"])
            if k in live:
                out.append(("dup", live[k]))
            else:
                live[k] = i
                out.append(("first", None))
        else:
            out.append(("other", None))
    return out


def _collisions(items):
    return sum(1 for k, _ in expected_kinds(items) if k != "first" and k != "other")


CLS = {"entry": "Entry", "string": "String", "preamble": "Preamble", "comment": "ExplicitComment", "freetext": "ImplicitComment"}


def _tn(x):
    return type(x).__name__


def _show(b):
    if _tn(b) == "Entry" or hasattr(b, "fields"):
        try:
            return "%s %r %r" % (_tn(b), b.key, [(f.key, f.value) for f in b.fields])
        except Exception:  # noqa: BLE001
            pass
    if hasattr(b, "value") and hasattr(b, "key"):
        return "%s %r = %r" % (_tn(b), b.key, b.value)
    return "%s %r" % (_tn(b), getattr(b, "key", None))


def want_class(it, kind):
    if kind == "dup":
        return "DuplicateBlockKeyBlock"
    if kind == "dupfield":
        return "DuplicateFieldKeyBlock"
    return CLS[it["kind"]]


def judge(lib, items, positional=True, what="the returned library"):
    """The property statement on a library against the source blocks.
    Returns (problem, link_problem): `problem` is a violation of anything but the previous_block link, `link_problem` a
    duplicate-key block whose previous_block is not the live first block of this library (judged only if problem is None)."""
    bs = lib.blocks
    if len(bs) != len(items):
        return "%s holds %d blocks for %d source blocks: %r" % (what, len(bs), len(items), [_tn(b) for b in bs][:14]), None
    exp = expected_kinds(items)
    # which block stands for which source block
    if positional:
        where = list(range(len(items)))
    else:
        # the path sorts: positions are not judged; a block is recognised by its raw text, start line and class
        where, used = [], set()
        for i, it in enumerate(items):
            w = want_class(it, exp[i][0])
            j = next((j for j, b in enumerate(bs) if j not in used and b.raw == it["raw"] and b.start_line == it["line"] and _tn(b) == w), None)
            if j is None:
                return ("%s (sorted) has no %s with the raw text and start line of source block %d (%s %r); it holds %r" %
                        (what, w, i, it["kind"], it.get("key"), [_tn(b) for b in bs][:14])), None
            used.add(j)
            where.append(j)
    ed, sd = lib.entries_dict, lib.strings_dict
    dicts = {"entry": ed, "string": sd}
    firsts = {"entry": {}, "string": {}}
    link = None
    for i, (it, (kind, fi)) in enumerate(zip(items, exp)):
        b = bs[where[i]]
        at = "block %d of %s (source block %d: %s %r)" % (where[i], what, i, it["kind"], it.get("key"))
        w = want_class(it, kind)
        if _tn(b) != w:
            return "%s is a %s, the statement demands a %s" % (at, _tn(b), w), None
        if b.raw != it["raw"] or b.start_line != it["line"]:
            return "%s: raw text / start line are not those of the source block" % at, None
        if kind == "other":
            continue
        if kind == "dupfield":
            e = b.ignore_error_block
            names = [f[0] for f in it["fields"]]
            dupf = sorted(set(n for n in names if names.count(n) > 1))
            if _tn(e) != "Entry" or e.key != it["key"] or sorted(b.duplicate_keys) != dupf or \
                    [[f.key, f.value] for f in e.fields] != [[f[0], f[1]] for f in it["fields"]]:
                return "%s: the duplicate-field block does not hold every field occurrence in source order: %s" % (at, _show(e)), None
            if ed.get(it["key"]) is e or ed.get(it["key"]) is b:
                return "%s: the key of an entry with repeated field names is registered as live" % at, None
            continue
        d = dicts[it["kind"]]
        if kind == "first":
            if b.key != it["key"]:
                return "%s has key %r" % (at, b.key), None
            if d.get(it["key"]) is not b:
                return ("%s is the first %s with its key but %s[%r] is %s" %
                        (at, it["kind"], "entries_dict" if it["kind"] == "entry" else "strings_dict", it["key"],
                         "absent" if it["key"] not in d else "another object (%s)" % _show(d[it["key"]]))), None
            firsts[it["kind"]][it["key"]] = b
            continue
        # a later block of a live key
        inner = b.ignore_error_block
        if b.key != it["key"]:
            return "%s: the duplicate-key block exposes key %r" % (at, b.key), None
        if _tn(inner) != CLS[it["kind"]] or inner.key != it["key"]:
            return "%s: the wrapped duplicate is %s" % (at, _show(inner)), None
        if it["kind"] == "entry":
            if [[f.key, f.value] for f in inner.fields] != [[f[0], f[1]] for f in it["fields"]] or inner.entry_type != it["type"]:
                return ("%s: the wrapped duplicate is not the complete duplicate as written: @%s %s, source @%s with fields %r" %
                        (at, inner.entry_type, _show(inner), it["type"], [[f[0], f[1]] for f in it["fields"]])), None
        elif inner.value != it["value"]:
            return "%s: the wrapped duplicate is not the duplicate as written: %s, source value %r" % (at, _show(inner), it["value"]), None
        if inner.raw != it["raw"] or inner.start_line != it["line"]:
            return "%s: the wrapped duplicate lost its raw text / start line" % at, None
        if not any(b is x for x in lib.failed_blocks):
            return "%s: the duplicate-key block is not among failed_blocks" % at, None
        first = bs[where[fi]]
        prev = b.previous_block
        if _tn(prev) != CLS[it["kind"]] or getattr(prev, "key", None) != it["key"]:
            return "%s: previous_block is %s, not a %s with key %r" % (at, _show(prev), CLS[it["kind"]], it["key"]), None
        if prev is not first and link is None:
            member = any(prev is x for x in bs)
            try:
                same = prev == first
            except Exception:  # noqa: BLE001
                same = False
            link = ("%s: previous_block is not the first block (block %d, the live %s %r of %s) but %s%s; first block: %s; previous_block: %s" %
                    (at, where[fi], it["kind"], it["key"], what,
                     "another member of its blocks, " if member else "an object that is in neither its blocks nor its %s, " %
                     ("entries_dict" if it["kind"] == "entry" else "strings_dict"),
                     "an equal copy of it" if same else "and its content DIFFERS from the first block's", _show(first), _show(prev)))
    for kind_, d in dicts.items():
        if set(d) != set(firsts[kind_]):
            return ("%s: %s has keys %r, the first blocks have keys %r" %
                    (what, "entries_dict" if kind_ == "entry" else "strings_dict", sorted(d), sorted(firsts[kind_]))), None
    return None, link


# ------------------------------------------------------------------------------------------------------- running a path
_USER = {}
SubLibrary = None      # a user's subclass of the tree's Library, at module level so that pickle finds it


def sub_library():
    global SubLibrary
    if SubLibrary is None:
        from bibtexparser.library import Library
        SubLibrary = type("SubLibrary", (Library,), {"__module__": __name__, "__qualname__": "SubLibrary"})
    return SubLibrary


def user_library_middleware():
    if "c" not in _USER:
        from bibtexparser.middlewares import LibraryMiddleware

        class UserLibraryMiddleware(LibraryMiddleware):
            """what the documentation asks of a library middleware: take the (possibly copied) library from the base class"""

            def transform(self, library):
                library = super().transform(library)
                return library
        _USER["c"] = UserLibraryMiddleware
    return _USER["c"]


def build_mw(spec):
    import bibtexparser.middlewares as M
    name, mode, opts = spec
    kw = {} if mode is None else {"allow_inplace_modification": mode}
    if name == "UserLibraryMiddleware":
        return user_library_middleware()(**kw)
    cls = getattr(M, name)
    if name == "AddEnclosingMiddleware":
        return cls(reuse_previous_enclosing=opts[0], enclose_integers=opts[1], default_enclosing=opts[2], **kw)
    if name == "SortBlocksByTypeAndKeyMiddleware":
        return cls(preserve_comments_on_top=opts[0])
    if name == "SortFieldsCustomMiddleware":
        return cls(order=tuple(opts[0]), case_sensitive=opts[1], **kw)
    if name == "MergeNameParts":
        return cls(style=opts[0], **kw)
    return cls(**kw)


def build_stack(st):
    if "default" in st:
        from bibtexparser.middlewares import default_parse_stack
        return default_parse_stack(allow_inplace_modification=st["default"])
    return [build_mw(s) for s in st["mws"]]


def _specs(path):
    st = path["stack"]
    specs = []
    if "default" in st:
        specs += [["ResolveStringReferencesMiddleware", st["default"], None], ["RemoveEnclosingMiddleware", st["default"], None]]
    else:
        specs += st["mws"]
    for op in path["post"]:
        if op[0] == "transform":
            specs += op[1]
    return specs


def in_known_class(path):
    """K13: the path applies a shipped BLOCK middleware constructed with allow_inplace_modification=False"""
    return any(s[0] in BLOCK_MWS and s[1] is False for s in _specs(path))


def sorts(path):
    return any(s[0] == "SortBlocksByTypeAndKeyMiddleware" for s in _specs(path))


def pure(path):
    """neither content nor order can change: comparable with the splitter model"""
    return path["how"] != "append" and all(s[0] == "UserLibraryMiddleware" for s in _specs(path))


def describe(path):
    def mw(s):
        return "%s(%s)" % (s[0], ", ".join((["allow_inplace_modification=%r" % s[1]] if s[1] is not None else []) +
                                                ([repr(s[2])] if s[2] is not None else [])))
    st = path["stack"]
    stack = ("default_parse_stack(allow_inplace_modification=%r)" % st["default"]) if "default" in st else "[%s]" % ", ".join(mw(s) for s in st["mws"])
    into = ", library=%s()" % path["into"] if path.get("into") else ""
    if path["how"] == "parse_stack":
        s = "parse_string(text, parse_stack=%s%s%s)" % (stack, "" if path["seq"] == "list" else " as " + path["seq"], into)
    elif path["how"] == "append":
        s = "parse_string(text, append_middleware=%s%s%s)" % (stack, "" if path["seq"] == "list" else " as " + path["seq"], into)
    else:
        s = "Splitter(text).split(%s) then transform of %s one by one" % (into[2:], stack)
    for op in path["post"]:
        s += " -> " + (" -> ".join(mw(m) + ".transform" for m in op[1]) if op[0] == "transform" else op[0] + ("" if op[0] != "pickle" or op[1] is None else "(protocol %d)" % op[1]))
    return s


def run_path(text, path):
    import copy
    import pickle
    import bibtexparser
    from bibtexparser.library import Library
    from bibtexparser.splitter import Splitter
    stack = build_stack(path["stack"])
    seq = path.get("seq", "list")
    arg = stack if seq == "list" else tuple(stack) if seq == "tuple" else iter(stack)
    into = None
    if path.get("into") == "Library":
        into = Library()
    elif path.get("into") == "SubLibrary":
        into = sub_library()()
    kw = {} if into is None else {"library": into}
    if path["how"] == "parse_stack":
        lib = bibtexparser.parse_string(text, parse_stack=arg, **kw)
    elif path["how"] == "append":
        lib = bibtexparser.parse_string(text, append_middleware=arg, **kw)
    else:
        lib = Splitter(text).split(**kw)
        for m in stack:
            lib = m.transform(lib)
    for op in path["post"]:
        if op[0] == "transform":
            for m in op[1]:
                lib = build_mw(m).transform(lib)
        elif op[0] == "deepcopy":
            lib = copy.deepcopy(lib)
        elif op[0] == "copy":
            lib = copy.copy(lib)
        elif op[0] == "pickle":
            lib = pickle.loads(pickle.dumps(lib) if op[1] is None else pickle.dumps(lib, protocol=op[1]))
        elif op[0] == "rebuild":
            lib = Library(lib.blocks)
        elif op[0] == "rebuild-list":
            lib = Library(list(lib.blocks))
        elif op[0] == "rebuild-sub":
            lib = sub_library()(lib.blocks)
        elif op[0] == "add-into-empty":
            new = Library()
            new.add(list(lib.blocks))
            lib = new
        elif op[0] == "rebuild-deepcopied-blocks":
            lib = Library(copy.deepcopy(lib.blocks))
        else:
            raise AssertionError("unknown operation %r" % (op,))
    return lib


def kinds_of(path):
    """the case kinds recorded in the distribution"""
    tags = ["copies:how=" + path["how"]]
    st = path["stack"]
    if "default" in st:
        tags.append("copies:default_parse_stack(%s)" % ("in-place" if st["default"] else "copy"))
    elif not st["mws"]:
        tags.append("copies:empty-stack")
    for s in _specs(path):
        cat = "block-mw" if s[0] in BLOCK_MWS else "sorter" if s[0].startswith("SortBlocks") else "library-mw"
        tags.append("copies:%s:%s" % (cat, "copy" if s[1] is False or cat == "sorter" else "in-place"))
        tags.append("copies:mw=" + s[0])
    for op in path["post"]:
        tags.append("copies:post=" + op[0])
    if path.get("into"):
        tags.append("copies:into=" + path["into"])
    if path.get("seq", "list") != "list":
        tags.append("copies:stack-as-" + path["seq"])
    tags.append("copies:K13-class-path" if in_known_class(path) else "copies:path-outside-K13")
    return sorted(set(tags))


def impl(case):
    import logging
    import warnings
    import enc
    import implutil
    import splitcommon as SC
    inp = case["input"]
    text, items, path = inp["text"], inp["items"], inp["path"]
    tags = kinds_of(path)
    ncoll = _collisions(items)
    rec = {"sx_in": None, "sx_out": None, "key": hashlib.sha1(json.dumps(inp, sort_keys=True).encode()).hexdigest(),
           "nontrivial": ncoll > 0}
    tags.append("copies:collisions" if ncoll else "copies:no-collision")
    prev_disable = logging.root.manager.disable
    logging.disable(logging.CRITICAL)          # the middlewares log every failed block they pass on
    try:
        with warnings.catch_warnings():
            warnings.simplefilter("ignore")
            r = implutil.guarded(lambda: run_path(text, path))
    finally:
        logging.disable(prev_disable)
    where = describe(path)
    if pure(path):
        rec["sx_in"] = [132, enc.enc_str(text)]
        rec["sx_out"] = implutil.r_exc(6) if r[0] == "exc" else implutil.r_ok([enc.enc_block(b) for b in r[1].blocks])
        if not SC.lower_ok(text):
            rec["skip"] = True
        tags.append("copies:compared-with-model")
    if r[0] == "exc":
        rec["oracle"] = {"ok": False, "detail": "%s raised %s" % (where, r[2])}
        rec["tags"] = ["copies"] + tags + ["copies:raised"]
        rec["summary"] = "raised " + r[2]
        return rec
    lib = r[1]
    rec["summary"] = (where + " -> " + " ".join(_tn(b)[:6] for b in lib.blocks))[:300]
    if any(_tn(b) == "MiddlewareErrorBlock" for b in lib.blocks):
        # a middleware refused a block (invalid name, ...): the first block of a key may no longer be live; not this property's subject
        rec["oracle"] = {"ok": True, "detail": ""}
        rec["nontrivial"] = False
        rec["tags"] = ["copies"] + tags + ["copies:middleware-error-block-left-out"]
        return rec
    problem, link = judge(lib, items, positional=not sorts(path), what="the library returned by " + where)
    if problem:
        rec["oracle"] = {"ok": False, "detail": problem}
        tags.append("copies:FAILED")
    elif link:
        rec["oracle"] = {"ok": False, "detail": link}
        if in_known_class(path):
            rec["oracle"]["known"] = "K13"
            tags.append("copies:link-failed:K13")
        else:
            tags.append("copies:link-FAILED")
    else:
        rec["oracle"] = {"ok": True, "detail": ""}
        if ncoll and in_known_class(path) and any(k == "dup" for k, _ in expected_kinds(items)):
            tags.append("copies:K13-class-path-holds")
    rec["tags"] = ["copies"] + sorted(set(tags))
    return rec
