"""C05, stream `selfref`: WELL-FORMED documents that contain text the library itself writes (props/selfref.py).

The writer puts a warning comment (`BibtexFormat.parsing_failed_comment` filled in with the number of lines of the block) in
front of blocks it could not parse.  Re-parsed, that comment is an ordinary implicit comment - and an ordinary comment of a
well-formed document may read exactly like it.  The property makes no exception for such a comment: it is content, it must come
back after write + parse, and the second write must repeat the first.

The class generated here (every choice from the rng handed in):

  the text W      selfref.warning_lines(n, fmt): the exact warning for n lines and its near misses (n-1, n+1, 0, 1, huge, negative,
                  padded, other digit systems incl. characters with str.isdigit() true and int() failing, other case, blanks
                  around, doubled, without the period, the bare template)
  the template    the DEFAULT one (read from the tree under test: W is rendered in the child process) and custom ones
                  (CUSTOM_TEMPLATES: other wording, the bare number, no placeholder, the placeholder twice, escaped braces, two
                  lines, format specs and conversions, blanks around, one character away from the default, and templates that
                  str.format cannot fill in); W from the template of the format in use, or from another one (mismatch)
  the count n     the line count of the block T it is put next to: in the INPUT layout (T as it stands in the document) or in the
                  WRITER's layout (fields + 2 for an entry, 1 for the other kinds, plus the line breaks inside values and inside
                  the indent), each measured with str.splitlines() and by counting '\\n' (they differ on \\r, \\x0c, \\x85, U+2028);
                  layouts in which the two coincide and layouts in which they differ
  the block T     every kind of VALID block: entry (0..4 fields; the writer's layout, one line, trailing comma, spread out, CRLF,
                  form feeds as inner whitespace, multi-line values), @string, @preamble, explicit comment (one line / several)
  the place       directly above T, one blank line above, other gaps above (incl. the same line), below T, far from T (another
                  block in between); first in the document or after other blocks; T last or followed by others
  the host        free text (an implicit comment: alone, or the first / last / a middle line of a longer one); inside an explicit comment; inside a value of the entry above; inside a value
                  of T itself; the value of an @string (which an entry refers to); inside a @preamble
  also            documents in which EVERY block has its own warning above it (tours through all kinds), and the writer's other
                  constants (VAL_SEP, the default indent / separator, reserved words) as free text / comment / value

Verdict: the oracle of props/c05.py (content equal after write + parse, second write identical) and the model comparison (op 150
takes the template as part of the format); for this stream the round trip is continued to a third and fourth write, which by the
property applied to the written text (a well-formed document itself) must again be identical.
"""
from props import selfref as SR

KINDS = ["entry", "string", "preamble", "comment"]

CUSTOM_TEMPLATES = [
    "% {n} lines could not be parsed",
    "{n}",
    "%% failed: {n} %%",
    "Parsing failed ({n})",
    "% no placeholder here",
    "{n} {n}",
    "{{n}} = {n}",
    "% failed\n% the next {n} lines",
    "{n:>4} lines",
    "{n!r} lines",
    " % blanks around {n} ",
    "% WARNING Parsing failed for the following {n} lines",
    "% warning parsing failed for the following {n} lines.",
    "% WARNING Parsing failed for the following {n} lines.",
    "%WARNING Parsing failed for the following {n} lines.",
    "% WARNING Parsing failed for the following {n} line(s).",
    "٠{n} lines",
    "# {n}",
    "% WARNUNG: die folgenden {n} Zeilen wurden nicht verstanden — bitte prüfen",
]
# str.format cannot fill these in (IndexError, KeyError, ValueError, AttributeError): on a well-formed document nothing is
# filled in, so nothing may raise
UNFORMATTABLE = ["{0}", "{key} {n}", "{", "{n", "}{n}", "{n.real.x} lines", "{n:q}"]

INT_LABELS = {"exact": lambda n: n, "n-1": lambda n: n - 1, "n+1": lambda n: n + 1, "zero": lambda n: 0, "one": lambda n: 1,
              "huge": lambda n: 10 ** 6, "negative": lambda n: -n}


class _Fmt:
    """stands for a BibtexFormat with the given template (selfref.warning_lines reads this one attribute)"""

    def __init__(self, tpl):
        self.parsing_failed_comment = tpl


def wtext(n, label, tpl):
    """the text for (count, label of selfref.warning_lines, template); tpl None = the default template of the tree in this
    process"""
    lines = SR.warning_lines(n, None if tpl is None else _Fmt(tpl))
    for lab, t in lines:
        if lab == label:
            return t
    return lines[0][1]


def labels(n, tpl):
    return [lab for lab, _ in SR.warning_lines(n, None if tpl is None else _Fmt(tpl))]


def render(parts):
    """document text of a list of pieces: str, or {"w": [n, label], "tpl": template or None}"""
    return "".join(p if isinstance(p, str) else wtext(p["w"][0], p["w"][1], p.get("tpl")) for p in parts)


def br_sl(s):
    return len((s + "x").splitlines()) - 1


def br_nl(s):
    return s.count("\n")


def balanced(s):
    d = 0
    for k, c in enumerate(s):
        if c in "{}" and (k == 0 or s[k - 1] != "\\"):
            d += 1 if c == "{" else -1
            if d < 0:
                return False
    return d == 0 and not s.endswith("\\") and "\\{" not in s and "\\}" not in s


# ----------------------------------------------------------------------------------------------------------------- blocks
FIELD_NAMES = ["title", "author", "year", "note", "month", "x-y", "howpublished"]
ENTRY_LAYS = ["writer", "oneline", "trailing", "spread", "crlf", "formfeed", "bare"]
STRING_LAYS = ["oneline", "padded", "fourlines", "twolinevalue"]
PREAMBLE_LAYS = ["oneline", "twolines", "concat", "ownlines"]
COMMENT_LAYS = ["oneline", "twolines", "ownlines", "threelines"]
LAYS = {"entry": ENTRY_LAYS, "string": STRING_LAYS, "preamble": PREAMBLE_LAYS, "comment": COMMENT_LAYS}
HOLE = "\x00HOLE\x00"       # stands for a warning text inside a value of the target itself until the count is known


class Block:
    """A valid block: source text, kind, and the texts that decide its line count in the writer's layout"""

    def __init__(self, kind, lay, text, written_values, nf=0):
        self.kind, self.lay, self.text, self.values, self.nf = kind, lay, text, written_values, nf

    def n_in(self, br):
        return br(self.text) + 1

    def n_w(self, br, indent):
        if self.kind == "entry":
            return 2 + sum(1 + br(indent) + br(v) for v in self.values)
        return 1 + sum(br(v) for v in self.values)

    def counts(self, indent):
        return {"input": self.n_in(br_sl), "writer": self.n_w(br_sl, indent),
                "input-nl": self.n_in(br_nl), "writer-nl": self.n_w(br_nl, indent)}


def value(rng, i, multiline=None):
    k = rng.randrange(12)
    if multiline is False:
        k = k % 5
    elif multiline:
        k = 5 + k % 6
    return ["{v%d}", '"T%d {B}r"', "19%02d", "undefined%d", "jan # { %d}",
            "{two\n  lines %d}", "{three\nlines\n%d}", "{form\x0cfeed %d}", "{cr\r\nlf %d}", "{ls sep %d}", "{nel\x85%d}",
            "{plain %d}"][k] % (i % 100)


def entry(rng, i, lay=None, nf=None, hole=False):
    lay = lay or rng.choice(ENTRY_LAYS)
    if hole and lay == "bare":
        lay = "writer"
    typ = rng.choice(["article", "Book", "misc", "a", "inProceedings"])
    key = rng.choice(["k%d", "K%d", "doe2020:%d", "%d"]) % i
    nf = rng.choice([0, 1, 1, 2, 2, 3, 4]) if nf is None else nf
    if lay == "bare":
        nf = 0
    elif hole:
        nf = max(nf, 1)
    if nf == 0:
        lay = "bare"
    names = rng.sample(FIELD_NAMES, nf)
    ml = None if lay in ("writer", "oneline", "spread") and rng.random() < 0.3 else False
    vals = [value(rng, i * 7 + j, ml) for j in range(nf)]
    if hole:
        vals[rng.randrange(nf)] = "{" + HOLE + "}"
    fs = ["%s = %s" % (a, b) for a, b in zip(names, vals)]
    if lay == "bare":
        text = "@%s{%s%s}" % (typ, key, rng.choice(["", ",", ",\n", ",\n\n"]))
    elif lay == "writer":
        text = "@%s{%s,\n  %s\n}" % (typ, key, ",\n  ".join(fs))
    elif lay == "oneline":
        text = "@%s{%s, %s}" % (typ, key, ", ".join(fs))
    elif lay == "trailing":
        text = "@%s{%s,\n%s,\n}" % (typ, key, ",\n".join(fs))
    elif lay == "spread":
        text = "@%s{ %s ,\n\n\t%s\n\n}" % (typ, key, " ,\n\n\t".join(fs))
    elif lay == "crlf":
        text = "@%s{%s,\r\n  %s\r\n}" % (typ, key, ",\r\n  ".join(fs))
    elif lay == "formfeed":
        text = "@%s{%s,\x0c%s\x0c}" % (typ, key, ",\x0c".join(fs))
    else:
        raise ValueError(lay)
    return Block("entry", lay, text, vals, nf)


def string(rng, i, lay=None):
    lay = lay or rng.choice(STRING_LAYS)
    key = rng.choice(["s%d", "S%d", "abbr%d"]) % i
    val = rng.choice(['"S %d"', "{S{%d}}", "%d"]) % i
    if lay == "oneline":
        text = "@string{%s = %s}" % (key, val)
    elif lay == "padded":
        text = "@String{ %s=%s }" % (key, val)
    elif lay == "fourlines":
        text = "@STRING{%s\n  =\n  %s\n}" % (key, val)
    else:
        val = "{two\nlines %d}" % i
        text = "@string{%s = %s}" % (key, val)
    return Block("string", lay, text, [val])


def preamble(rng, i, lay=None):
    lay = lay or rng.choice(PREAMBLE_LAYS)
    inner = {"oneline": '"\\newcommand{\\noop}[1]{} %d"', "twolines": "two\nlines %d", "concat": " {b} # s%d ",
             "ownlines": "\n  \\def\\p%d{}\n"}[lay] % i
    # the preamble text is kept as it stands between the braces (not stripped), so are its line breaks
    return Block("preamble", lay, rng.choice(["@preamble{%s}", "@Preamble{%s}", "@PREAMBLE{%s}"]) % inner, [inner])


def comment(rng, i, lay=None):
    lay = lay or rng.choice(COMMENT_LAYS)
    inner = {"oneline": "c%d", "twolines": "two\n  lines %d", "ownlines": "\n  own lines %d\n", "threelines": "a\nb {n}\nc %d"}[lay] % i
    return Block("comment", lay, rng.choice(["@comment{%s}", "@Comment{%s}", "@COMMENT{%s}"]) % inner, [inner.strip()])


MAKE = {"entry": entry, "string": string, "preamble": preamble, "comment": comment}


# ----------------------------------------------------------------------------------------------------------------- formats
INDENTS = ["", "\t", "  ", "    "]
COLUMNS = [0, 1, 7, 20, "auto"]
SEPS = ["", "\n", "\n\n", " \n\t\n"]
EDGE_INDENTS = ["\n\t", " \n", "\r\n ", "\x0c", "  "]
EDGE_SEPS = ["\n\n\n", "\r\n", "\n \n", " ", "\t", "\n\x0c", "\r", "\x85\n"]


def fmt(rng, tpl):
    r = rng.random()
    if r < 0.3:
        f = {"indent": "\t", "column": 0, "trailing": False, "sep": "\n\n"}          # the defaults of BibtexFormat
    elif r < 0.85:
        f = {"indent": rng.choice(INDENTS), "column": rng.choice(COLUMNS), "trailing": rng.random() < 0.5, "sep": rng.choice(SEPS)}
    else:
        f = {"indent": rng.choice(INDENTS + EDGE_INDENTS), "column": rng.choice(COLUMNS), "trailing": rng.random() < 0.5,
             "sep": rng.choice(SEPS + EDGE_SEPS)}
    if tpl is not None:
        f["failed"] = tpl
    return f


# ----------------------------------------------------------------------------------------------------------------- documents
PLACES = ["above0", "above1", "aboveN", "below", "far"]
FREE_HOSTS = ["free", "free-last-line", "free-first-line", "free-middle-line"]
HOSTS = ["free", "comment", "value", "own-value", "string", "preamble"] + FREE_HOSTS[1:]
COUNT_KINDS = ["input", "writer", "input-nl", "writer-nl"]


class Doc:
    def __init__(self, rng):
        self.rng = rng
        self.i = rng.randrange(1, 50)
        self.parts = []
        self.n_blocks = 0
        self.labels = set()

    def nxt(self):
        self.i += 1
        return self.i

    def other(self, avoid_n=None):
        """some valid block that is not a target (pairwise different keys); avoid_n: a line count it must not have"""
        for _ in range(20):
            b = MAKE[self.rng.choice(KINDS)](self.rng, self.nxt())
            if avoid_n is None or (avoid_n not in b.counts("\t").values() and avoid_n not in b.counts("").values()):
                return b
        return comment(self.rng, self.nxt(), "oneline" if avoid_n != 1 else "threelines")

    def add(self, *pieces):
        self.parts += list(pieces)


def count_tags(counts, label, n):
    """how the number in the text (label applied to n) relates to the line counts of the block"""
    if label not in INT_LABELS:
        return None, ["near:" + label]
    k = INT_LABELS[label](n)
    rel = [c for c in ("input", "writer") if counts[c] == k]
    rel += [c for c in ("input-nl", "writer-nl") if counts[c] == k and counts[c] != counts[c[:-3]]]
    return k, ["cnt=" + ("+".join(rel) if rel else "none"), "near:" + label]


def warn_piece(target, f, ckind, label, wtpl):
    """the piece for a warning about `target` (its line count of kind ckind under format f)"""
    return {"w": [target.counts(f["indent"])[ckind], label], "tpl": wtpl}


def host_pieces(rng, doc, host, wp):
    """the pieces of the block that carries the warning piece wp; ('free' carries it as it is)"""
    i = doc.nxt()
    if host == "free":
        return [wp], 0
    if host == "free-last-line":          # the last / first / a middle line of a longer free text
        return [rng.choice(["%% remark %d\n", "some text %d\nmore\n", "%d\n"]) % i, wp], 0
    if host == "free-first-line":
        return [wp, rng.choice(["\n%% remark %d", "\nsome text %d\n  more", " trailing words %d"]) % i], 0
    if host == "free-middle-line":
        return ["%% above %d\n" % i, wp, "\n% below"], 0
    if host == "comment":
        return [rng.choice(["@comment{", "@Comment{ ", "@comment{\n"]), wp, rng.choice(["}", " }", "\n}"])], 1
    if host == "value":
        return ["@misc{h%d, note = {" % i, wp, rng.choice(["}}", "},\n}", "}, year = 2001}"])], 1
    if host == "string":
        return ["@string{w%d = " % i + rng.choice(["{", '"']), wp, None], 1            # closed by the caller (same delimiter)
    if host == "preamble":
        return ["@preamble{", wp, "}"], 1
    raise ValueError(host)


GAPS_N = ["\n\n\n", " \n", "\n \n", "\r\n", "\n\t", "\x0c\n", " ", "\r\n\r\n", "\n\n\n\n\n"]


def single(rng, kind, lay, place, ckind, host, label, tplmode, tpl):
    """One document around one target block.  tplmode: 'default' (format and text use the default template), 'custom' (both use
    tpl), 'text-default' (format has tpl, the text is the default warning), 'text-custom' (format default, text from tpl),
    'text-other' (format has tpl, text from another custom template)"""
    d = Doc(rng)
    ftpl = None if tplmode in ("default", "text-custom") else tpl
    wtpl = {"default": None, "custom": tpl, "text-default": None, "text-custom": tpl,
            "text-other": rng.choice([t for t in CUSTOM_TEMPLATES if t != tpl])}[tplmode]
    f = fmt(rng, ftpl)
    own = host == "own-value" and kind == "entry"
    if host == "own-value" and not own:
        host = "free"
    t = MAKE[kind](rng, d.nxt(), lay, **({"hole": True} if own else {}))
    if label is None:
        labs = [x for x in labels(3, wtpl) if x != "exact"]
        label = rng.choice(labs) if labs else "exact"
    hp = None
    if host == "string":
        hp, _ = host_pieces(rng, d, host, None)
        if kind == "entry" and t.nf and rng.random() < 0.7:
            # the target refers to the @string: after interpolation its value IS the warning text
            name = hp[0].split("{", 1)[1].split(" ")[0]
            t.text = t.text.replace(" = " + t.values[0], " = " + name, 1)
            t.values[0] = "{" + HOLE + "}"
    wp = warn_piece(t, f, ckind, label, wtpl)
    w_now = wtext(wp["w"][0], wp["w"][1], wtpl)
    if host not in FREE_HOSTS and not balanced(w_now):
        # cannot stand between braces: as free text
        if own:
            t.text = t.text.replace(HOLE, "own")
        t.values = [v.replace(HOLE, "own") for v in t.values]
        own, host, hp = False, "free", None
    # the counts with the text in place (a text of several lines inside a value of the block itself adds to them)
    t.values = [v.replace(HOLE, w_now) for v in t.values]
    counts = Block(t.kind, t.lay, t.text.replace(HOLE, w_now), t.values, t.nf).counts(f["indent"])
    k, tags = count_tags(counts, label, wp["w"][0])
    if w_now.strip() == "":
        tags.append("empty-text")          # an empty count in a bare template: a document without the comment
    d.labels |= set(tags)
    d.labels |= {"place:" + place, "host:" + host, "target:" + kind, "lay:%s/%s" % (kind, t.lay), "tpl:" + tplmode, "ckind:" + ckind}
    # blocks in front
    for _ in range(rng.choice([0, 0, 1, 2])):
        d.add(d.other().text, rng.choice(["\n", "\n\n", "\n\n", " \n"]))
        d.n_blocks += 1
    d.labels.add("first" if not d.parts else "not-first")
    if own:
        a, b = t.text.split(HOLE)
        d.add(rng.choice(["", "% remark\n", ""]), a, wp, b)
        d.n_blocks += 1
    else:
        if hp is None:
            hp, _ = host_pieces(rng, d, host, wp)
        if host == "string":
            hp[1] = wp
            hp[2] = "}}" if hp[0].endswith("{") else '"}'
            if hp[0].endswith('"') and ('"' in w_now or not balanced(w_now)):
                hp[0], hp[2] = hp[0][:-1] + "{", "}}"
        gap = {"above0": "\n", "above1": "\n\n", "aboveN": rng.choice(GAPS_N)}.get(place)
        if place in ("above0", "above1", "aboveN"):
            d.add(*hp)
            d.add(gap, t.text)
        elif place == "below":
            d.add(t.text, rng.choice(["\n", "\n", "\n\n", " "]))
            d.add(*hp)
        else:
            x = d.other(avoid_n=k)
            d.add(*hp)
            d.add(rng.choice(["\n", "\n\n"]), x.text, rng.choice(["\n", "\n\n"]), t.text)
            d.n_blocks += 1
        d.n_blocks += 2
    # blocks behind
    for _ in range(rng.choice([0, 0, 1, 2])):
        d.add(rng.choice(["\n", "\n\n", "\n\n", " \n"]), d.other().text)
        d.n_blocks += 1
    d.add(rng.choice(["", "\n", "\n", "\n\n"]))
    return finish(d, f)


def tour(rng, tplmode, tpl, n_targets):
    """A document in which every block has its own warning above it (mostly exact, for the input or the writer's layout)"""
    d = Doc(rng)
    ftpl = None if tplmode == "default" else tpl
    f = fmt(rng, ftpl)
    kinds = list(KINDS)
    rng.shuffle(kinds)
    kinds = (kinds * 3)[:n_targets]
    d.labels |= {"tour", "tpl:" + tplmode}
    for j, kind in enumerate(kinds):
        t = MAKE[kind](rng, d.nxt())
        ckind = rng.choice(COUNT_KINDS[:2] * 3 + COUNT_KINDS[2:])
        labs = labels(3, ftpl)
        label = "exact" if rng.random() < 0.7 else rng.choice(labs)
        wp = warn_piece(t, f, ckind, label, ftpl)
        w_now = wtext(wp["w"][0], wp["w"][1], ftpl)
        k, tags = count_tags(t.counts(f["indent"]), label, wp["w"][0])
        host = rng.choice(["free", "free", "free", "comment", "value", "free-last-line", "free-first-line"])
        if host not in FREE_HOSTS and not balanced(w_now):
            host = "free"
        hp, nb = host_pieces(rng, d, host, wp)
        if j:
            d.add(rng.choice(["\n", "\n\n", "\n\n", "\n\n\n"]))
        d.add(*hp)
        d.add(rng.choice(["\n", "\n", "\n", "\n\n", " \n"]), t.text)
        d.n_blocks += 2
        d.labels |= set(tags) | {"target:" + kind, "host:" + host, "lay:%s/%s" % (kind, t.lay)}
    d.add(rng.choice(["", "\n"]))
    return finish(d, f)


def magic(rng, words):
    """the writer's other constants and the library's reserved words as free text, in an explicit comment and in a value"""
    d = Doc(rng)
    f = fmt(rng, None)
    d.labels |= {"magic"}
    for j, w in enumerate(words):
        if j:
            d.add(rng.choice(["\n", "\n\n"]))
        i = d.nxt()
        hosts = ["comment", "value", "string"] if balanced(w) else []
        if w.strip() and "@" not in w:
            hosts.append("free")
        if not hosts:
            continue
        h = rng.choice(hosts)
        if h == "free":
            d.add(w.strip("\n"), "\n", entry(rng, i).text)
            d.n_blocks += 2
        elif h == "comment":
            d.add("@comment{" + w + "}")
            d.n_blocks += 1
        elif h == "value":
            d.add("@misc{m%d, note = {%s}, other = {a%sb}}" % (i, w, w))
            d.n_blocks += 1
        else:
            d.add("@string{m%d = {%s}}\n@misc{u%d, note = m%d # {%s} # m%d}" % (i, w, i, i, w, i))
            d.n_blocks += 2
        d.labels.add("host:" + h)
    return finish(d, f)


def finish(d, f):
    labs = sorted("selfref:" + l for l in d.labels)
    return {"stream": "selfref", "input": {"text": render(d.parts), "parts": d.parts, "fmt": f, "n_items": max(2, d.n_blocks), "labels": labs}}


MAGIC = [" = ", "=", "\t", "\n\n", "a = b", ", ", ",", " # ", "#", "{n}", "{0}", "{}", "%s", "%(n)s", "{", "}", "{{", "}}", "\"",
         "% WARNING", "WARNING", "Parsing failed", "lines.", "ID", "ENTRYTYPE", "comment", "string", "preamble", "None",
         "removed_enclosing", "no-enclosing", "\t= ", "x = {y},", "@", "%"]


# ----------------------------------------------------------------------------------------------------------------- generate
def generate(rng, tier):
    quick = tier == "quick"
    rep = 1 if quick else 8
    cases = []
    customs = list(CUSTOM_TEMPLATES)

    class Cycle:
        def __init__(self, pool):
            self.pool = list(pool)
            rng.shuffle(self.pool)
            self.k = 0

        def __call__(self):
            x = self.pool[self.k % len(self.pool)]
            self.k += 1
            return x
    tpl_c = Cycle(customs)
    place_c = Cycle(PLACES)
    for _ in range(rep):
        # A. every layout of every kind of valid block x every place x the input count / the writer's count, as free text;
        #    the template alternates between the default and a custom one
        for kind in KINDS:
            for lay in LAYS[kind]:
                for place in PLACES:
                    for ckind in COUNT_KINDS[:2]:
                        for tplmode in (("default", "custom") if not quick or place in ("above0", "above1") else (("default", "custom")[(len(cases)) % 2],)):
                            cases.append(single(rng, kind, lay, place, ckind, "free", "exact", tplmode, tpl_c()))
        # A'. the other measure of a line (counting '\n' instead of splitlines) where it gives another number
        for lay in ("crlf", "formfeed", "writer", "oneline"):
            for ckind in COUNT_KINDS[2:]:
                for place in ("above0", "above1"):
                    cases.append(single(rng, "entry", lay, place, ckind, "free", "exact", rng.choice(["default", "custom"]), tpl_c()))
        # B. the other hosts x every kind of block x both counts x both templates
        for host in ("comment", "value", "string", "preamble") + tuple(FREE_HOSTS[1:]):
            for kind in KINDS:
                for ckind in COUNT_KINDS[:2]:
                    for tplmode in ("default", "custom"):
                        cases.append(single(rng, kind, None, rng.choice(["above0", "above0", "above1", place_c()]), ckind, host, "exact", tplmode, tpl_c()))
        #    ... inside a value of the block itself: every layout of an entry with fields; as the value of an @string that the
        #    entry refers to
        for host in ("own-value", "string"):
            for lay in ENTRY_LAYS:
                if lay == "bare":
                    continue
                for ckind in COUNT_KINDS[:2]:
                    for tplmode in ("default", "custom"):
                        cases.append(single(rng, "entry", lay, rng.choice(["above0", "above1", "below"]), ckind, host, "exact", tplmode, tpl_c()))
        # C. every near miss of the exact text, default and custom template, directly / one blank line above
        for tplmode in ("default", "custom"):
            tpl = "% {n} lines could not be parsed"
            for label in labels(3, None if tplmode == "default" else tpl):
                if label == "exact":
                    continue
                for place in (("above0", "above1")[len(cases) % 2:][:1] if quick else ("above0", "above1")):
                    cases.append(single(rng, rng.choice(KINDS), None, place, rng.choice(COUNT_KINDS[:2]), "free", label, tplmode, tpl))
                cases.append(single(rng, rng.choice(KINDS), None, place_c(), rng.choice(COUNT_KINDS), rng.choice(HOSTS), label, tplmode, tpl_c()))
        # D. every custom template (incl. those that cannot be filled in) x both counts; the text of one template under a
        #    format that has another
        for tpl in customs + UNFORMATTABLE:
            for ckind in COUNT_KINDS[:2]:
                cases.append(single(rng, rng.choice(KINDS), None, rng.choice(["above0", "above1"]), ckind, "free", "exact", "custom", tpl))
            cases.append(single(rng, rng.choice(KINDS), None, place_c(), rng.choice(COUNT_KINDS), rng.choice(HOSTS), None, "custom", tpl))
        for tplmode in ("text-default", "text-custom", "text-other"):
            for kind in KINDS:
                for ckind in COUNT_KINDS[:2]:
                    cases.append(single(rng, kind, None, rng.choice(["above0", "above1"]), ckind, "free", "exact", tplmode, tpl_c()))
        # E. every block of a document has its own warning
        for k in range(24 if quick else 36):
            cases.append(tour(rng, ("default", "custom")[k % 2], tpl_c(), rng.randint(3, 8)))
        # F. the writer's other constants and reserved words as text
        words = list(MAGIC)
        rng.shuffle(words)
        for k in range(0, len(words), 3):
            cases.append(magic(rng, words[k:k + 3]))
        # G. at random over the whole class
        for _ in range(60 if quick else 120):
            kind = rng.choice(KINDS)
            tplmode = rng.choice(["default", "default", "custom", "custom", "text-default", "text-custom", "text-other"])
            cases.append(single(rng, kind, None, rng.choice(PLACES), rng.choice(COUNT_KINDS), rng.choice(HOSTS),
                                "exact" if rng.random() < 0.6 else None, tplmode, rng.choice(customs + UNFORMATTABLE[:2])))
    return cases
