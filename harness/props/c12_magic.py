"""C12, magic words as names (imported by c12.py only).

A name list may contain, as a whole name, as the first / last / only piece, or as a word inside a name, a string that the
library or BibTeX gives a meaning to somewhere: the truncation marker `others` in any spelling, `et al.`, `and others`,
`Others, A.`, the Jr / von particles, `{others}`, the word `AND`, month names, numbers, `None`, the reserved keys and the
texts of selfref.MAGIC_WORDS.  For co-author splitting and merging NONE of them is special: the pieces are contiguous parts of
the input, only `blank+ and blank+` at depth 0 separates, merging is joining with ' and ', and split(merge(split(x))) == split(x).
Code that recognises such a word ("lists ending in Others are written with a lower-case others", "et al. is dropped",
"a trailing Jr. belongs to the previous name") breaks the property on exactly one word at one position with one casing,
which token alphabets of generic words never produce.

Generators (all seeded from the check's PRNG, appended after the existing streams):
  magic-positions   EXHAUSTIVE over word x form x (n, position): every word of WORDS (selfref.MAGIC_WORDS + the extras below,
                    core families in every case variant) in each of the FORMS (whole name, first / last / inner word of a name,
                    before / after the comma, tied with '~') at every position of lists of 1..4 names; the other names and the
                    'and' spelling are drawn from the PRNG
  magic-lists       random lists of 1..4 (sometimes up to 8) names whose names / words are drawn from WORDS (with random
                    re-casing) and from the ordinary name pool, ordinary and odd glue, blanks at the list edges
  magic-middleware  every magic-positions text through SeparateCoAuthors, MergeCoAuthors (three texts per entry: author,
                    editor, translator), then random entries: magic lists as texts through every middleware sequence, lists
                    of magic pieces handed to MergeCoAuthors directly (sequences starting with a merge), magic words in
                    non-name fields (must stay untouched)
The verdict comes from the oracle of c12.py (names_common.conserved / ref_split, c12_blank.accounted; at the middleware level
merging a list of strings is joining it with ' and ', by the property text) and from the model comparison: every case is
representable (texts travel as code points, list values as lists).
"""
import re

from props import names_common as nc
from props import selfref

# ---------------------------------------------------------------------------------------------------------------- the words
# families generated in every case variant (lower, UPPER, Title; the others family also sWAPPED): the words that BibTeX or a
# style gives a meaning to
CORE = {
    "others": ["others", "Others", "oThers", "{others}", "and others", "Others, A.", "A. Others", "others others", "other", "others."],
    "et-al": ["et al.", "et al", "et. al.", "et~al.", "etal", "{et al.}", "al."],
    "and": ["and", "and and", "{and}", "&", "\\&"],
    "particle": ["jr", "jr.", "sr.", "iii", "von", "van der", "de la", "jr, A."],
}
# families generated as written and as Title (UPPER where listed)
PLAIN = {
    "month": ["jan", "JAN", "january", "may", "dec"],
    "literal": ["none", "NONE", "null", "NULL", "true", "nan", "n/a", "anonymous", "anon.", "unknown", "collaboration", "editor", "eds."],
    "number": ["0", "1", "01", "12", "13", "2024", "-1", "1e3", "\u0661", "IV"],
}


def _variants(w, swapped=True):
    return [w, w.lower(), w.upper(), w.title()] + ([w.swapcase()] if swapped else [])


WORDS = []
FAMILY = {}
for _fam, _ws in CORE.items():
    for _w in _ws:
        for _v in _variants(_w, _fam == "others"):
            if _v not in FAMILY:
                FAMILY[_v] = _fam
                WORDS.append(_v)
for _fam, _ws in PLAIN.items():
    for _w in _ws:
        for _v in (_w, _w.title()):
            if _v not in FAMILY:
                FAMILY[_v] = _fam
                WORDS.append(_v)
for _w in selfref.MAGIC_WORDS:
    if _w not in FAMILY:
        FAMILY[_w] = "selfref"
        WORDS.append(_w)
WORDSET = set(WORDS)
FOLDED = {}
for _w in WORDS:
    FOLDED.setdefault(_w.lower(), FAMILY[_w])

FORMS = ["whole-name", "first-word", "last-word", "inner-word", "before-comma", "after-comma", "tied"]
# the other names of the list: short on purpose (the cost of a case is its length), half of them the plainest possible
FILL = ["Ab", "Cd E", "Ab", "Cd E", "K, D.", "{S and S}", "\\'E, B.", "de la F, J.", "Émile Z", "St~and B", "F, Jr., H."]
ANDS = [" AND ", " And ", " aNd ", "\nand\t", "  and  ", " and\n", "\r\nand ", "\tAND\t"]
POSITIONS = [(n, p) for n in (1, 2, 3, 4) for p in range(n)]


def shape(w, form):
    if form == "whole-name":
        return w
    if form == "first-word":
        return w + " Yz"
    if form == "last-word":
        return "X. " + w
    if form == "inner-word":
        return "X. " + w + " Yz"
    if form == "before-comma":
        return w + ", J."
    if form == "after-comma":
        return "Yz, " + w
    return "X.~" + w


def _glue(rng):
    return " and " if rng.random() < 0.8 else rng.choice(ANDS)


def _join(rng, names):
    out = []
    for i, x in enumerate(names):
        if i:
            out.append(_glue(rng))
        out.append(x)
    return "".join(out)


def gen_positions(rng, tier, seen):
    """-> (text, names) for every word x form x (n, position); quick and thorough are both exhaustive (thorough adds a second
    draw of the surrounding names and glue)"""
    for rnd in range(1 if tier == "quick" else 2):
        for w in WORDS:
            for form in FORMS:
                x = shape(w, form)
                for n, p in POSITIONS:
                    names = [rng.choice(FILL) for _ in range(n)]
                    names[p] = x
                    s = _join(rng, names)
                    if s not in seen:
                        seen.add(s)
                        yield s, form


def _recase(rng, w):
    r = rng.random()
    if r < 0.75:
        return w
    if r < 0.85:
        return rng.choice(_variants(w))
    return "".join(c.upper() if rng.random() < 0.5 else c.lower() for c in w)


def random_name(rng, first):
    r = rng.random()
    if r < 0.4:
        return _recase(rng, rng.choice(WORDS))
    if r < 0.5:
        return shape(_recase(rng, rng.choice(WORDS)), rng.choice(FORMS))
    k = rng.randint(1, 3)
    parts = []
    for i in range(k):
        parts.append(_recase(rng, rng.choice(WORDS)) if rng.random() < 0.4 else rng.choice(first))
        if i + 1 < k:
            parts.append(rng.choice([" ", " ", " ", "~", ", ", "\t", "  "]))
    return "".join(parts)


def random_names(rng, first):
    n = rng.randint(5, 8) if rng.random() < 0.1 else rng.randint(1, 4)
    return [random_name(rng, first) for _ in range(n)]


def random_list(rng, first, glue):
    names = random_names(rng, first)
    out = []
    for i, x in enumerate(names):
        if i:
            out.append(" and " if rng.random() < 0.7 else rng.choice(glue + ANDS))
        out.append(x)
    s = "".join(out)
    if rng.random() < 0.15:
        s = rng.choice([" ", "\n", "\t ", "\r"]) + s + rng.choice([" ", "\n", " \t", "\r\n"])
    return s


MW_SEQS = [[0], [0, 1], [0, 1, 0], [1], [1, 0], [0, 1, 0, 1]]
MW_SEQS_LIST = [[1], [1, 0], [1, 0, 1], [1, 1], [1, 1, 0]]


def gen_middleware_positions(rng, texts):
    """every magic-positions text through Separate then Merge, three texts per entry"""
    keys = ["author", "editor", "translator"]
    for i in range(0, len(texts), 3):
        chunk = texts[i:i + 3]
        ks = list(keys)
        rng.shuffle(ks)
        fields = [[k, t] for k, t in zip(ks, chunk)]
        if rng.random() < 0.3:
            fields.insert(rng.randint(0, len(fields)), ["title", rng.choice(chunk)])
        yield {"level": "mw", "fields": fields, "mws": [0, 1], "nf": None, "mg": "positions"}


def gen_middleware_random(rng, n, first, glue):
    for _ in range(n):
        as_list = rng.random() < 0.4
        keys = ["author", "editor", "translator"]
        rng.shuffle(keys)
        fields = []
        for k in keys[:rng.randint(1, 3)]:
            if as_list:
                if rng.random() < 0.5:
                    # every word at every position also reaches MergeCoAuthors directly, without a split before it
                    m, p = rng.choice(POSITIONS)
                    names = [rng.choice(FILL) for _ in range(m)]
                    names[p] = _recase(rng, rng.choice(WORDS))
                else:
                    names = random_names(rng, first)
                fields.append([k, {"list": names}])
            else:
                fields.append([k, random_list(rng, first, glue)])
        for k in ("title", "Author", "year", "note"):
            if rng.random() < 0.25:
                v = rng.choice(WORDS) if rng.random() < 0.5 else random_list(rng, first, glue)
                fields.insert(rng.randint(0, len(fields)), [k, v])
        mws = rng.choice(MW_SEQS_LIST if as_list else MW_SEQS)
        nf = None if rng.random() < 0.9 else rng.choice([["author"], ["title", "author"], ["editor", "translator", "note"]])
        yield {"level": "mw", "fields": fields, "mws": mws, "nf": nf, "mg": "list-values" if as_list else "texts"}


# ---------------------------------------------------------------------------------------------------------------- distribution
_WORD_CUT = re.compile("[ \t\r\n~,]+")


def _fam(x):
    if x in WORDSET:
        return FAMILY[x]
    return FOLDED.get(x.lower())


def tags_of_pieces(pieces):
    """where a magic word sits in a list of names (goes to the distribution in the evidence file)"""
    n = len(pieces)
    out = set()
    out.add("magic:names=%s" % (n if n <= 4 else "5+"))
    for i, p in enumerate(pieces):
        pos = "only" if n == 1 else "first" if i == 0 else "last" if i == n - 1 else "middle"
        f = _fam(p)
        if f is not None:
            out.add("magic=whole-name@" + pos)
            out.add("magic-family:" + f)
            if p.lower() == "others" and p != "others":
                out.add("magic=Others-not-lower-case@" + pos)
            continue
        ws = [w for w in _WORD_CUT.split(p) if w]
        for k, w in enumerate(ws):
            f = _fam(w)
            if f is None:
                continue
            wpos = "first-word" if k == 0 else "last-word" if k == len(ws) - 1 else "inner-word"
            out.add("magic=%s@%s" % (wpos, pos))
            out.add("magic-family:" + f)
    return out


def tags(s):
    return sorted(tags_of_pieces(nc.ref_split(s)))
