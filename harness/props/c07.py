"""C07 - writing and copy-mode middleware never mutate or alias their input.

Three streams:
  mw / stack   the Python oracle of the property on every shipped middleware class x option set x stacks of 1..3
  write        write_string with the default stack: library and format untouched, two writes give the same text
  heap         correspondence of the Coq heap model of the FRAMEWORK (Model/HeapMw.v) with the real framework
               (see c07_heap.py)
  rep / heaprep  value-keyed state and repeated configurations: the same value text in several fields, entries and libraries x
               stacks holding one middleware class 2-3 times with different option sets, on libraries that already hold
               structured values; every result also checked against everything handed out by earlier calls (see c07_rep.py)
  reent / thr  ONE middleware instance used by OVERLAPPING calls: re-entered from user code that gets control while the
               middleware is at work (Field / str / block subclasses, __deepcopy__, logging filter / handler, showwarning, a
               user subclass of the shipped class), and driven by 2-3 threads under a deterministic schedule; every call judged
               by the property, then the instance's public configuration and a plain call against a fresh instance
               (see c07_reent.py)
  strref / heapstrref  libraries whose @string definitions refer to other definitions (chains, concatenations, aliases of
               concatenations, mutual / self reference, undefined names, definition after use, duplicate definitions), used by
               entry fields or by none, parsed with the empty and with the default stack x every configuration, stacks of 1..3,
               the same instance twice, write_string; and against the heap model (see c07_strref.py)
"""
from props import pubapi
import copy
import json

import gens_split as G

ENGINE = "heap"
CASE_TIMEOUT_S = 30
RULE = ("libraries parsed (default stack, empty stack, or with name / month / key middlewares appended so that values are lists, "
        "NameParts and MiddlewareErrorBlocks) from grammar documents over small key pools (duplicate keys, duplicate fields) and "
        "their mutations (failed blocks) plus hand-written name documents; x every shipped middleware class and option set "
        "(52 configurations) singly, x seeded stacks of 2 and 3, each in copy mode (checked) and in-place mode (sharing counted); "
        "write_string x 13 formats (5 with comment templates str.format cannot fill, so the writer raises at the first failed "
        "block), each also against a fresh equal format; wseq: ONE format object and one set of prepended middleware instances "
        "shared by 3-5 write_string calls on 2-3 libraries (some edited to look code-built: no raw text, a foreign Block "
        "subclass), format and library checked after every call whether it returned or raised, every text compared with what a "
        "fresh equal format gives; heap stream: the real framework with 9 probe bodies + Resolve/Sort/LibraryMiddleware AND every "
        "shipped block middleware class x option set against its Coq body model (Model/HeapBodies.v), both modes, "
        "against the Coq model on the same initial heap; rep / heaprep (props/c07_rep.py): 1-2 documents over ONE small pool of "
        "persons, co-author lists, titles, months and @string contents (the same value text in several fields of an entry, in "
        "several entries and in both documents; the second document is the same text or another arrangement of the pool) x "
        "an earlier middleware run (parse-time name middlewares and / or 0-2 prep stages, each copy or in-place) x stacks of 2-3 "
        "copy-mode middlewares in which one class occurs 2-3 times with DIFFERENT option sets (name middlewares x 9 name_fields "
        "tuples, planned so that each stage meets the value types it expects; two field / block sorters with different orders; "
        "two AddEnclosing with different defaults around RemoveEnclosing; LaTeX middlewares with different switches; month / "
        "Resolve chains), both documents in one process with fresh or with shared middleware instances; each judged call is "
        "checked against its input AND against every library handed out earlier in the case (parsed libraries, prep results, "
        "earlier results on either document), and every library handed out is compared at the end with the copy taken when it "
        "was handed out; heaprep = the single-document block-middleware part of that class against the Coq heap model; "
        "reent / thr (props/c07_reent.py): every configuration in copy mode x a channel through which user code gets control "
        "while the middleware is at work (Field subclass key / value getters and setters, str subclass methods, block subclass "
        "attribute access, __deepcopy__ of user classes, a logging filter on every logger of the library, a lock-free handler "
        "on its top logger, warnings.showwarning, a user subclass of the shipped class overriding transform_block / "
        "transform_entry / ...; or all at once) x [reent] at 1-3 chosen events of the outer call (indices reduced modulo the "
        "event count of a dry run) the callback runs transform of the SAME instance and / or of ANOTHER instance of the class "
        "on the other document's library or on the outer call's own input, sometimes re-entered once more (depth 2); [thr] 2-3 "
        "daemon threads calling transform of the one instance, parked at chosen events by threading.Event with bounded waits, "
        "the main thread playing one of 7 schedules (B inside A, crossing = B starts inside A and ends after it, three "
        "crossing, three nested, A parked twice with a whole call in each gap, ping-pong, B and C inside A; the not properly "
        "nested ones, which re-entrancy in one thread cannot produce, more often) so that one thread runs at a time; every call (outer, inner, each thread's) is "
        "judged against its input and everything handed out before, then the instance's public attributes are compared with "
        "what they read after construction and with a fresh instance, a plain call is judged and compared structurally with "
        "a fresh instance's result, and every library handed out with the copy taken then; oracle only (overlapping calls "
        "have no counterpart in the heap model); strref / heapstrref (props/c07_strref.py): documents whose @string definitions "
        "form a reference graph (chains a = b, b = c; concatenations full = first # \" \" # last in every spelling of #; aliases "
        "of concatenations; concatenations of concatenations; mutual and self reference; undefined names; the same name "
        "defined twice), written leaves-first, heads-first or shuffled, each structure used by entry fields as a bare "
        "reference, inside a concatenation, both, only through another used definition, or by none, entries before / after / "
        "between the definitions, parsed with the empty stack and with the default stack x every configuration singly (Resolve "
        "x16), stacks of 2-3 (half holding Resolve), the same instance twice, write_string (default path mostly), and resolve / "
        "library / sort / write / stacks of the heap stream against the Coq model. distinct = distinct (document, parse option, stack, mode); non-trivial = "
        "the library has at least one entry or string block, i.e. some mutable field/value/metadata object that could be shared")
TRUSTED = ["heap snapshotter harness/heapsnap.py: walks __dict__, list, dict, set, tuple; fails closed on any other object type; "
           "objects reachable only through C-level state or closures would be invisible (none in the shipped classes)",
           "the oracle streams walk THROUGH exception objects (args, instance attributes, __cause__/__context__; not "
           "__traceback__): the error object of a failed block may itself be shared, what it holds is input state like any other",
           "atoms (str, int, None, bool, exception objects) are hashed to integers for the model; every exception is one atom "
           "(the heap model does not look inside error objects; the oracle streams do)",
           "string-dependent decisions of Resolve/Sort (which values are bare references; the sort permutation) enter the heap "
           "model as arguments computed by an independent reference in the harness",
           "string-level results of the shipped bodies (stripped/enclosed text, month names, lowered keys, sort ranks, name "
           "splits and validity, merged names, LaTeX conversions and their errors) enter the body models as finite tables over "
           "atoms computed by harness/props/c07_bodies.py with the implementation's own string helpers; the footprint theorem "
           "C07_shipped_footprints holds for EVERY table"]
ASSUMPTIONS = ["copy.deepcopy is CPython's: in the theorems it is a Section variable DC with the contract dc_contract (heap only "
               "grows and stays well formed, old objects unchanged, everything reachable from the copy is fresh); the executable "
               "fuelled copy used to run the model is shown to satisfy the contract on the example heaps by vm_compute and is "
               "compared with CPython's deepcopy through the correspondence on every run",
               "exception objects are atoms: sharing an exception object is not aliasing (property text; "
               "ParsingException.__deepcopy__ returns self); a block, field, list or dict kept as an attribute / argument of "
               "such an object is NOT covered by this: reaching it from the result is aliasing"]

# ---------------------------------------------------------------------------------------------- middleware configurations
BLOCK_ORDERS = [["String", "Preamble", "Entry", "ImplicitComment", "ExplicitComment"],
                ["Entry", "String"], ["ExplicitComment", "Entry", "Preamble"], []]
FIELD_ORDERS = [["title", "author"], ["Author", "year", "month"], [], ["note", "TITLE", "editor", "k1"]]


def all_specs():
    s = []
    for reuse in (False, True):
        for ints in (False, True):
            for d in ("{", '"'):
                s.append(["AddEnclosing", reuse, ints, d])
    s.append(["RemoveEnclosing"])
    s.append(["Resolve"])
    s += [["MonthInt"], ["MonthAbbrev"], ["MonthLong"]]
    s.append(["NormalizeFieldKeys"])
    s.append(["SortFieldsAlpha"])
    for o in range(len(FIELD_ORDERS)):
        for cs in (False, True):
            s.append(["SortFieldsCustom", o, cs])
    for o in range(len(BLOCK_ORDERS)):
        for pc in (True, False):
            s.append(["SortBlocks", o, pc])
    for nf in (0, 1):
        s.append(["SeparateCoAuthors", nf])
        s.append(["MergeCoAuthors", nf])
        s.append(["SplitNameParts", nf])
        for style in ("last", "first"):
            s.append(["MergeNameParts", style, nf])
    for km in (None, True, False):
        for eu in (None, False):
            s.append(["LatexEncoding", km, eu])
    for kb in (None, True):
        for km in (None, False):
            s.append(["LatexDecoding", kb, km])
    s.append(["LibraryMiddleware"])
    return s


SPECS = all_specs()
NAME_FIELDS = [("author", "editor", "translator"), ("author", "title", "Author"),
               # option sets of the repeated name middlewares (stream 'rep', props.c07_rep); SPECS uses 0 and 1 only
               ("author",), ("editor",), ("translator", "author"), ("editor", "translator"), ("translator",), ("title", "author"),
               ("editor", "author")]
PARSE_OPTS = ["default", "raw", "sep", "split", "split_norm", "month", "latexdec", "sortcustom"]
FORMATS = [{}, {"value_column": "auto"}, {"value_column": 12}, {"indent": "  ", "trailing_comma": True},
           {"value_column": "auto", "block_separator": "\n", "indent": ""}, {"parsing_failed_comment": "% failed {n}"},
           {"value_column": "auto", "trailing_comma": True, "parsing_failed_comment": "%%"}, {"block_separator": ""},
           # comment templates str.format cannot fill: the writer raises part-way, at the first failed block
           # (KeyError, IndexError, ValueError, AttributeError); new ones are appended so that indices stay stable
           {"value_column": "auto", "parsing_failed_comment": "% failed {m} lines"},
           {"value_column": "auto", "indent": "  ", "parsing_failed_comment": "% {n} {}"},
           {"value_column": "auto", "trailing_comma": True, "block_separator": "\n", "parsing_failed_comment": "% {n"},
           {"value_column": 9, "indent": " ", "parsing_failed_comment": "% {n.lines}"},
           {"value_column": "auto", "indent": "", "parsing_failed_comment": "% {n:>4} of {total}"}]
# edits of a parsed library that make it look like one built in code (the writer then fails on some block)
POSTS = [None, None, None, "strip_raw", "foreign_block", "strip_raw_failed"]


def make_mw(spec, inplace):
    import bibtexparser.middlewares as M
    import bibtexparser.model as model
    from bibtexparser.middlewares.middleware import LibraryMiddleware
    n = spec[0]
    a = dict(allow_inplace_modification=inplace)
    if n == "AddEnclosing":
        return M.AddEnclosingMiddleware(reuse_previous_enclosing=spec[1], enclose_integers=spec[2], default_enclosing=spec[3], **a)
    if n == "RemoveEnclosing":
        return M.RemoveEnclosingMiddleware(**a)
    if n == "Resolve":
        return M.ResolveStringReferencesMiddleware(**a)
    if n == "MonthInt":
        return M.MonthIntMiddleware(**a)
    if n == "MonthAbbrev":
        return M.MonthAbbreviationMiddleware(**a)
    if n == "MonthLong":
        return M.MonthLongStringMiddleware(**a)
    if n == "NormalizeFieldKeys":
        return M.NormalizeFieldKeys(**a)
    if n == "SortFieldsAlpha":
        return M.SortFieldsAlphabeticallyMiddleware(**a)
    if n == "SortFieldsCustom":
        # the caller's configuration objects may be MUTABLE (a list for `order`): for half of the configurations a list is
        # handed in (seeding round 11: with case_sensitive=True the middleware kept the caller's list and put it, uncopied,
        # into every entry's metadata - input and result of a second application then share it)
        order = FIELD_ORDERS[spec[1]]
        order = list(order) if (spec[1] + int(bool(spec[2]))) % 2 == 1 else tuple(order)
        return M.SortFieldsCustomMiddleware(order=order, case_sensitive=spec[2], **a)
    if n == "SortBlocks":
        # no allow_inplace_modification parameter: "the block sorter always"
        bto = [getattr(model, c) for c in BLOCK_ORDERS[spec[1]]]
        return M.SortBlocksByTypeAndKeyMiddleware(block_type_order=bto if spec[1] % 2 == 1 else tuple(bto),
                                                  preserve_comments_on_top=spec[2])
    if n == "SeparateCoAuthors":
        return M.SeparateCoAuthors(name_fields=NAME_FIELDS[spec[1]], **a)
    if n == "MergeCoAuthors":
        return M.MergeCoAuthors(name_fields=NAME_FIELDS[spec[1]], **a)
    if n == "SplitNameParts":
        return M.SplitNameParts(name_fields=NAME_FIELDS[spec[1]], **a)
    if n == "MergeNameParts":
        return M.MergeNameParts(style=spec[1], name_fields=NAME_FIELDS[spec[2]], **a)
    if n == "LatexEncoding":
        return M.LatexEncodingMiddleware(keep_math=spec[1], enclose_urls=spec[2], **a)
    if n == "LatexDecoding":
        return M.LatexDecodingMiddleware(keep_braced_groups=spec[1], keep_math_mode=spec[2], **a)
    if n == "LibraryMiddleware":
        return LibraryMiddleware(**a)
    raise ValueError(spec)


def parse(text, opt):
    import bibtexparser
    import bibtexparser.middlewares as M
    if opt == "split_unwrap":
        import props.c07_bodies as B
        return B.unwrap_parts(parse(text, "split"))
    if opt == "default":
        return bibtexparser.parse_string(text)
    if opt == "raw":
        return bibtexparser.parse_string(text, parse_stack=[])
    app = {"sep": lambda: [M.SeparateCoAuthors()],
           "split": lambda: [M.SeparateCoAuthors(), M.SplitNameParts()],
           "split_norm": lambda: [M.NormalizeFieldKeys(), M.SeparateCoAuthors(), M.SplitNameParts()],
           "month": lambda: [M.MonthIntMiddleware(), M.SortFieldsAlphabeticallyMiddleware()],
           "latexdec": lambda: [M.LatexDecodingMiddleware(), M.SeparateCoAuthors()],
           "sortcustom": lambda: [M.SortFieldsCustomMiddleware(order=("title", "author")), M.SeparateCoAuthors(), M.SplitNameParts()],
           }[opt]()
    return bibtexparser.parse_string(text, append_middleware=app)


def make_format(idx, always=False):
    """a fresh BibtexFormat configured as FORMATS[idx] (None for the unconfigured even ones unless `always`)"""
    import bibtexparser
    fspec = FORMATS[idx]
    if not (fspec or idx % 2 == 1 or always):
        return None
    fmt = bibtexparser.BibtexFormat()
    for k, v in fspec.items():
        setattr(fmt, k, v)
    return fmt


_FOREIGN = []


def foreign_block():
    """a block of a class the writer does not know (a user-defined Block subclass)"""
    import bibtexparser.model as model
    if not _FOREIGN:
        class ForeignBlock(model.Block):
            _verif_probe_class = True

            def __init__(self):
                super().__init__(start_line=None, raw=None)
                self.payload = ["x", {"k": "v"}]
        ForeignBlock.__qualname__ = "ForeignBlock"
        _FOREIGN.append(ForeignBlock)
    return _FOREIGN[0]()


def apply_post(lib, post):
    """make the parsed library look like one built in code; the writer cannot print some of these blocks and raises there"""
    if post == "strip_raw":
        for b in lib.blocks:
            pubapi.set_backing(b, "block.raw", None)
    elif post == "strip_raw_failed":
        for b in lib.failed_blocks[-1:]:
            pubapi.set_backing(b, "block.raw", None)
    elif post == "foreign_block":
        _bl = pubapi.get_backing(lib, "library.blocks")
        _bl.insert((len(_bl) + 1) // 2, foreign_block())
    return lib


# ---------------------------------------------------------------------------------------------- generators
DUP_TAILS = ["@article{%s, title = {a}}\n@article{%s, averyveryverylongfieldname = {b}, note = {c}}\n",
             "@string{%s = {a}}\n@string{%s = {b}}\n@misc{zz, howpublished = {x}}\n",
             "@book{%s, title = {t}, title = {u}, organization = {o}}\n%s\n",
             "@article{%s, author = {x}}\n@article{%s, author = {y}\n\n@misc{ok, k = {v}}\n"]


def gen_wseq(rng):
    """ONE format object used for a sequence of write_string calls on 2-3 libraries (some visited twice); at least one of
    the libraries usually has a failed block, so that with the un-fillable comment templates (or the code-built blocks of
    POSTS) some call in the middle of the sequence raises part-way through the writer"""
    docs = []
    for _ in range(rng.choice([2, 2, 3])):
        text = gen_text(rng)
        if rng.random() < 0.5:
            k = rng.choice(["k1", "dup", "K1"])
            tail = rng.choice(DUP_TAILS) % (k, k)
            text = text + "\n" + tail if rng.random() < 0.6 else tail + text
        docs.append({"text": text, "parse": rng.choice(["default", "default", "raw", "month", "split_norm", "sep", "latexdec"]),
                     "post": rng.choice(POSTS)})
    n = len(docs)
    steps = list(range(n)) + [rng.randrange(n) for _ in range(rng.randint(1, 2))]
    if rng.random() < 0.5:
        rng.shuffle(steps)
    auto = [i for i, f in enumerate(FORMATS) if f.get("value_column") == "auto"]
    return {"kind": "wseq", "docs": docs, "steps": steps,
            "format": rng.choice(auto) if rng.random() < 0.7 else rng.randrange(len(FORMATS)),
            # the copy-mode middleware instances given as prepend_middleware are shared by all calls of the sequence too
            "prepend": rng.choice([None, None, None, [], [rng.choice(SPECS)]])}
NAMES = ["Donald E. Knuth", "Knuth, Donald E.", "Ludwig van Beethoven", "de la Vall{\\'e}e Poussin, Charles", "Smith, Jr., John",
         "{Barnes and Noble, Inc.}", "A and B", "Jean-Paul Sartre", "von Last, First", "x", "", "a, b, c, d", "AA bb CC dd",
         "M{\\\"u}ller", "Jos\\'e Garc\\'ia", "{\\O}stergaard", ",", "A,, B", "and", "A and", "Lopez\\", "$x$ y", "first last,"]
HAND_DOCS = [
    "@string{abbr = \"Journal of X\"}\n@string{jan = {January}}\n@article{k1,\n author = {Knuth, Donald E. and Ludwig van Beethoven},\n"
    " title = {The {TeX} book},\n journal = abbr,\n month = jan,\n year = 1984\n}\n@article{k1, author = {A and B}, month = 3}\n"
    "% free text\n@comment{c}\n@preamble{\"p\"}\n@book{k2, author = {A,, B,, C,, D}, title = {T}, title = {U}}\n@article{k3, author = ",
    "@article{a, author = {a, b, c, d and Smith, Jr., John}, editor = {M{\\\"u}ller and {\\O}stergaard}, Author = {X}}\n"
    "@article{a, title = {Caf\\'e $x^2$ http://a.b/c}}\n@string{abbr = {S}}\n@string{abbr = {S2}}\n@misc{m, note = abbr # { x}, year = {2020}, month = {12}}",
    "",
    "just a comment",
    "@article{k,\n}\n@article{k}\n@article{k, month = 13, pages = 10}",
]
FIELD_POOL = ["author", "editor", "title", "month", "year", "Author", "note", "pages", "translator"]


def gen_text(rng):
    r = rng.random()
    if r < 0.12:
        t = rng.choice(HAND_DOCS)
        return G.mutate(rng, t) if rng.random() < 0.3 else t
    ek = rng.sample(["k1", "k2", "K1", "b"], rng.randint(1, 3))
    sk = rng.sample(["abbr", "jan", "Foo", "k1"], rng.randint(1, 3))
    fn = rng.sample(FIELD_POOL, rng.randint(2, 5))
    text, _ = G.gen_doc(rng, max_items=rng.choice([2, 4, 7]), depth=2, entry_keys=ek, string_keys=sk, field_names=fn,
                        bare_pool=["abbr", "jan", "Foo", "12", "3", "mar", "k1", "1990"])
    # make person-name fields look like names most of the time
    if rng.random() < 0.7:
        extra = "@%s{%s, author = {%s}, editor = {%s}, month = %s}\n" % (
            rng.choice(["article", "book"]), rng.choice(ek), " and ".join(rng.choice(NAMES) for _ in range(rng.randint(1, 3))),
            rng.choice(NAMES), rng.choice(["jan", "{March}", "13", "\"2\"", "abbr"]))
        text = text + extra if rng.random() < 0.5 else extra + text
    if rng.random() < 0.3:
        text = G.mutate(rng, text)
    return text


def generate(rng, tier):
    import props.c07_heap as H
    quick = tier == "quick"
    cases = []
    # every configuration singly, on several documents and parse options
    per_spec = 6 if quick else 150
    for spec in SPECS:
        for k in range(per_spec):
            cases.append({"stream": "mw", "input": {"kind": "stack", "text": gen_text(rng), "parse": rng.choice(PARSE_OPTS) if k else "default",
                                                     "stack": [spec]}})
    # stacks of 2 and 3
    for _ in range(350 if quick else 25000):
        n = rng.choice([2, 2, 3])
        cases.append({"stream": "stack", "input": {"kind": "stack", "text": gen_text(rng), "parse": rng.choice(PARSE_OPTS),
                                                    "stack": [rng.choice(SPECS) for _ in range(n)]}})
    # the SAME middleware instance applied to its own output (its input then holds whatever the instance left in metadata)
    for spec in SPECS:
        for _ in range(2 if quick else 50):
            cases.append({"stream": "reuse", "input": {"kind": "reuse", "text": gen_text(rng), "parse": rng.choice(PARSE_OPTS),
                                                        "stack": [spec]}})
    # write_string
    for _ in range(200 if quick else 10000):
        cases.append({"stream": "write", "input": {"kind": "write", "text": gen_text(rng), "parse": rng.choice(PARSE_OPTS),
                                                    "format": rng.randrange(len(FORMATS)),
                                                    # None, empty (list / tuple), one or two copy-mode middlewares
                                                    "prepend": rng.choice([None, None, None, [], [], [rng.choice(SPECS)],
                                                                           [rng.choice(SPECS)], [rng.choice(SPECS), rng.choice(SPECS)]]),
                                                    "prepend_tuple": rng.random() < 0.3}})
    # sequences of write_string calls sharing ONE format object (and one set of prepended middleware instances)
    for _ in range(120 if quick else 6000):
        cases.append({"stream": "wseq", "input": gen_wseq(rng)})
    cases += H.generate(rng, tier, gen_text, PARSE_OPTS)
    # value-keyed state and repeated configurations (drawn last: the streams above are the same as before for a given seed)
    import props.c07_rep as R
    cases += R.generate(rng, tier, _this())
    # re-entrant and interleaved use of ONE instance (drawn after everything else: the streams above keep their inputs)
    import props.c07_reent as X
    cases += X.generate(rng, tier, _this())
    # @string definitions that refer to other definitions (drawn after everything else again)
    import props.c07_strref as S
    cases += S.generate(rng, tier, _this())
    return cases


def _this():
    import props.c07 as P
    return P


# ---------------------------------------------------------------------------------------------- oracle
def shares(inp_ids, out_root):
    """mutable objects reachable from out_root that are objects of the input graph"""
    import heapsnap as HS
    out = HS.reachable([out_root])
    return [out[i] for i in out if i in inp_ids]


def in_deepcopy(e):
    """the exception was raised while copy.deepcopy was running (the copy machinery itself failed)"""
    tb = e.__traceback__
    while tb is not None:
        fn = tb.tb_frame.f_code.co_filename.replace("\\", "/")
        if fn.endswith("/copy.py") or fn.endswith("/copyreg.py"):
            return True
        tb = tb.tb_next
    return False


def check_stage(lib, run, what, registry=None):
    """Run `run(lib)`; return (result, problems, stats).  The property on one call:
       (a) the input library is structurally equal to its prior deep copy and consists of the same objects,
       (b) no mutable object reachable from the result is an object of the input graph,
       (c) with `registry` (id -> object, the objects kept alive by the caller): nor an object of any library handed out by
           an earlier call in this process (parsed libraries, earlier results on this and on other libraries).
       All graphs include what the error objects of failed blocks hold (heapsnap passes through exception objects)."""
    import heapsnap as HS
    memo = {}
    snap = HS.clone(lib, memo)
    # error objects holding more than atoms were rebuilt for the reference copy: Block.__eq__ compares them by identity
    eq_applies = not any(HS.is_exc(o) and o is not c for o, c in memo.values())
    ids_before = HS.reachable([lib])
    d0 = HS.struct_diff(lib, snap)
    if d0 is not None or any(i in ids_before for i in HS.reachable([snap])):   # the reference must be trustworthy
        raise HS.UnknownObject("the reference copy of the input is not a structurally equal, disjoint copy: %s" % d0)
    pre = []
    try:                                       # CPython's deepcopy must be able to copy the library, and agree with the reference
        dc = copy.deepcopy(lib)
        # an exception object may be shared by the copy (property text), and a shared exception object that holds input
        # state (a block, a list) makes the copy reach into the input: then there is nothing to compare the reference with;
        # whether a RESULT reaches input state that way is (b) below
        d1 = None if shares(ids_before, dc) else HS.struct_diff(dc, snap)
    except HS.UnknownObject:
        raise
    except Exception as e:  # noqa: BLE001  (F15: InvalidNameError could not be copied)
        d1 = None
        pre.append("%s: copy.deepcopy of the input library raises %s: copy-mode middleware and write_string cannot work on it"
                   % (what, type(e).__name__))
    if d1 is not None:
        raise HS.UnknownObject("copy.deepcopy and the reference copy differ: " + d1)
    imap = HS.identity_map(lib)
    try:
        res = run(lib)
    except HS.UnknownObject:
        raise
    except Exception as e:  # noqa: BLE001
        e._c07_pre = pre + (["%s: %s raised inside copy.deepcopy" % (what, type(e).__name__)] if in_deepcopy(e) else [])
        d = HS.struct_diff(lib, snap)
        if d is not None:
            e._c07_pre.append("%s: input library mutated (call raised %s) at %s" % (what, type(e).__name__, d))
        raise
    problems = list(pre)
    d = HS.struct_diff(lib, snap)
    if d is not None:
        problems.append("%s: input library mutated at %s" % (what, d))
    elif HS.identity_map(lib) != imap:
        problems.append("%s: input library now consists of other objects" % what)
    elif eq_applies and not (lib.blocks == snap.blocks and lib.entries_dict == snap.entries_dict and lib.strings_dict == snap.strings_dict):
        problems.append("%s: input library != its prior deep copy (by __eq__)" % what)
    out_ids = HS.reachable([res])
    sh = [x for i, x in out_ids.items() if i in ids_before]
    if sh:
        kinds = sorted(set(HS.kind_of(x) for x in sh))
        problems.append("%s: result shares %d mutable object(s) with its input: %s (e.g. %s)" %
                        (what, len(sh), ",".join(kinds), type(sh[0]).__name__))
    if registry:
        old = [x for i, x in out_ids.items() if i in registry and i not in ids_before]
        if old:
            kinds = sorted(set(HS.kind_of(x) for x in old))
            problems.append("%s: result shares %d mutable object(s) with a library handed out by an EARLIER call (not its input): "
                            "%s (e.g. %s %r)" % (what, len(old), ",".join(kinds), type(old[0]).__name__, repr(old[0])[:80]))
    return res, problems, len(ids_before)


def _rep_count(stages):
    import props.c07_rep as R
    return R.repeated([s[2] for s in stages if s[0] == "shipped" and not s[1]])


def impl(case):
    inp = case["input"]
    if inp["kind"] == "heap":
        import props.c07_heap as H
        rec = H.impl(case, parse)
        if inp.get("rep_family"):
            rec["tags"] = list(rec.get("tags", [])) + ["heaprep_" + inp["rep_family"], "heaprep_sameclass_x%d" % _rep_count(inp["op"][1])]
        if inp.get("strref") and "parse_raised" not in rec.get("tags", []):
            import props.c07_strref as S
            rec["tags"] = list(rec.get("tags", [])) + ["heap" + t for t in S.tags_for(inp, None, _this())]
        return rec
    if inp["kind"] == "rep":
        import props.c07_rep as R
        return R.impl(case, _this())
    if inp["kind"] == "reent":
        import props.c07_reent as X
        return X.impl(case, _this())
    if inp["kind"] == "wseq":
        return impl_wseq(inp)
    import heapsnap as HS
    import bibtexparser
    rec = {"sx_in": None, "sx_out": None, "key": json.dumps([inp["text"], inp["parse"], inp.get("stack"), inp.get("format"), inp.get("prepend"), inp.get("prepend_tuple")])}
    tags = []
    try:
        lib = parse(inp["text"], inp["parse"])
    except Exception as e:  # noqa: BLE001  (C01's business; nothing to check here)
        rec.update(oracle={"ok": True, "detail": ""}, nontrivial=False, tags=["parse_raised"], summary="parse raised " + type(e).__name__)
        return rec
    kinds = [type(b).__name__ for b in lib.blocks]
    if inp.get("strref"):
        import props.c07_strref as S
        tags += S.tags_for(inp, lib, _this())
        tags.append("strref_%s_x%d" % (inp["kind"], len(inp.get("stack") or [])) if inp["kind"] != "write" else "strref_write" +
                    ("_default_path" if inp.get("prepend") is None else "_prepend"))
    rec["nontrivial"] = any(k in ("Entry", "String") for k in kinds) or any(
        type(getattr(b, "ignore_error_block", None)).__name__ in ("Entry", "String") for b in lib.blocks)
    for k in set(kinds):
        if k not in ("Entry", "String", "Preamble", "ExplicitComment", "ImplicitComment"):
            tags.append("has_" + k)
    problems = []
    try:
        if inp["kind"] == "reuse":
            mw = make_mw(inp["stack"][0], False)
            try:
                mid = mw.transform(lib)
                out, pr, _ = check_stage(mid, mw.transform, "second application of the same %s instance" % inp["stack"][0][0])
                tags.append("reuse")
                rec["summary"] = "%s twice -> %s" % (inp["stack"][0][0], [type(b).__name__ for b in out.blocks][:8])
                problems += pr
            except HS.UnknownObject:
                raise
            except Exception as e:  # noqa: BLE001
                tags.append("raised_" + type(e).__name__)
                problems += getattr(e, "_c07_pre", [])
                rec["summary"] = "raised " + type(e).__name__
        elif inp["kind"] == "stack":
            cur = lib
            first_ids = HS.reachable([lib])
            first_snap = HS.clone(lib)
            raised = None
            for i, spec in enumerate(inp["stack"]):
                mw = make_mw(spec, False)
                try:
                    cur, pr, _ = check_stage(cur, mw.transform, "stage %d %s" % (i, spec[0]))
                except HS.UnknownObject:
                    raise
                except Exception as e:  # noqa: BLE001  a middleware raising for reasons of its own (wrong value types) is not
                    raised = type(e).__name__          # C07's subject, but the input must be intact and deepcopy must not be the cause
                    problems += getattr(e, "_c07_pre", [])
                    break
                problems += pr
            # the whole stack against the original input
            d = HS.struct_diff(lib, first_snap)
            if d is not None:
                problems.append("stack: original library mutated at " + d)
            if raised is None:
                sh = [x for i, x in HS.reachable([cur]).items() if i in first_ids]
                if sh:
                    problems.append("stack: final result shares %d mutable object(s) with the original input" % len(sh))
            tags.append("raised_" + raised if raised else "len%d" % len(inp["stack"]))
            rec["summary"] = "%s -> %s" % ([s[0] for s in inp["stack"]], raised or [type(b).__name__ for b in cur.blocks][:8])
            # in-place mode on a fresh parse: how often does sharing occur (non-vacuity of (b))
            try:
                lib2 = parse(inp["text"], inp["parse"])
                ids2 = HS.reachable([lib2])
                cur2 = lib2
                for spec in inp["stack"]:
                    cur2 = make_mw(spec, True).transform(cur2)
                sh2 = [x for i, x in HS.reachable([cur2]).items() if i in ids2]
                if inp["stack"] and all(s[0] != "SortBlocks" for s in inp["stack"]):
                    tags.append("inplace_shares" if sh2 else ("inplace_noshare_nontrivial" if rec["nontrivial"] else "inplace_noshare_trivial"))
                else:
                    tags.append("sortblocks_in_stack_shares" if sh2 else "sortblocks_in_stack_noshare")
            except HS.UnknownObject:
                raise
            except Exception:  # noqa: BLE001
                tags.append("inplace_raised")
        else:
            fspec = FORMATS[inp["format"]]
            fmt = make_format(inp["format"])
            fsnap = HS.clone(fmt)
            fmap = HS.identity_map(fmt) if fmt is not None else None
            texts = []
            kw = {}
            if inp.get("prepend") is not None:
                kw["prepend_middleware"] = [make_mw(s, False) for s in inp["prepend"]]
                if inp.get("prepend_tuple"):
                    kw["prepend_middleware"] = tuple(kw["prepend_middleware"])

            def run(l):
                try:
                    texts.append(bibtexparser.write_string(l, bibtex_format=fmt, **kw))
                except HS.UnknownObject:
                    raise
                except Exception as e:  # noqa: BLE001  (C01/C06's business, unless the copy machinery is the cause)
                    texts.append(("raised", type(e).__name__))
                    if in_deepcopy(e):
                        problems.append("write_string: %s raised inside copy.deepcopy" % type(e).__name__)
                return None
            for n in (1, 2):
                _, pr, _ = check_stage(lib, lambda l: (run(l), [])[1], "write %d" % n)
                problems += [p for p in pr]
                d = HS.struct_diff(fmt, fsnap)
                if d is not None:
                    problems.append("write %d: the caller's format changed at %s" % (n, d))
                elif fmt is not None and HS.identity_map(fmt) != fmap:
                    problems.append("write %d: the caller's format consists of other objects" % n)
                if fmt is not None and fspec.get("value_column") == "auto" and fmt.value_column != "auto":
                    problems.append("write %d: value_column of the caller's format is %r, was 'auto'" % (n, fmt.value_column))
            if texts[0] != texts[1]:
                problems.append("writing twice gave different text: %r vs %r" % (texts[0][:80], texts[1][:80]))
            # the format is "exactly as it was": a third write with it gives what a fresh, equally configured format gives
            used = fmt
            fmt = make_format(inp["format"])
            run(lib)
            fmt = used
            run(lib)
            if not (texts[2] == texts[3] == texts[0]):
                problems.append("a format used before writes other text than a fresh equal format: %r vs fresh %r" %
                                (texts[3][:80], texts[2][:80]))
            tags.append("write_raised" if isinstance(texts[0], tuple) else ("write_auto" if fspec.get("value_column") == "auto" else "write"))
            rec["summary"] = repr(texts[0])[:120]
    except HS.UnknownObject as e:
        problems.append("snapshotter met an unknown object (fail closed): %s" % e)
    rec["oracle"] = {"ok": not problems, "detail": "; ".join(problems[:3])}
    rec["tags"] = tags
    return rec


def impl_wseq(inp):
    """ONE BibtexFormat object (and one list of prepended copy-mode middleware instances) used for a sequence of
    write_string calls on several libraries.  After EVERY call, whether it returned or raised: the library written is
    equal to its prior deep copy and made of the same objects, the format is equal to its prior deep copy and made of the
    same objects.  At the end: every text (or exception type) obtained with the shared format is what a fresh, equally
    configured format and fresh middleware instances give for that library."""
    import heapsnap as HS
    import bibtexparser
    rec = {"sx_in": None, "sx_out": None, "key": json.dumps(["wseq", inp["docs"], inp["steps"], inp["format"], inp["prepend"]])}
    tags = ["wseq"]
    libs = []
    try:
        for d in inp["docs"]:
            libs.append(apply_post(parse(d["text"], d["parse"]), d.get("post")))
    except Exception as e:  # noqa: BLE001  (C01's business)
        rec.update(oracle={"ok": True, "detail": ""}, nontrivial=False, tags=["parse_raised"], summary="parse raised " + type(e).__name__)
        return rec
    rec["nontrivial"] = any(type(b).__name__ in ("Entry", "String") for l in libs for b in l.blocks)
    fspec = FORMATS[inp["format"]]
    problems = []

    def writer(fmt, kw):
        def run(l):
            try:
                return bibtexparser.write_string(l, bibtex_format=fmt, **kw)
            except HS.UnknownObject:
                raise
            except Exception as e:  # noqa: BLE001  (what is written is C06's business; here: nothing may be left changed)
                if in_deepcopy(e):
                    problems.append("write_string: %s raised inside copy.deepcopy" % type(e).__name__)
                return ("raised", type(e).__name__)
        return run

    def kwargs():
        return {} if inp["prepend"] is None else {"prepend_middleware": [make_mw(s, False) for s in inp["prepend"]]}
    try:
        fmt = make_format(inp["format"], always=True)
        fsnap = HS.clone(fmt)
        fmap = HS.identity_map(fmt)
        kw = kwargs()
        run = writer(fmt, kw)
        got = []
        for n, i in enumerate(inp["steps"]):
            what = "call %d (library %d)" % (n, i)
            out = []
            _, pr, _ = check_stage(libs[i], lambda l: (out.append(run(l)), [])[1], what)
            problems += pr
            got.append((n, i, out[0]))
            ended = "raised " + out[0][1] if isinstance(out[0], tuple) else "returned"
            d = HS.struct_diff(fmt, fsnap)
            if d is not None:
                problems.append("%s %s: the caller's format changed at %s" % (what, ended, d))
            elif HS.identity_map(fmt) != fmap:
                problems.append("%s %s: the caller's format consists of other objects" % (what, ended))
            if isinstance(out[0], tuple):
                tags.append("wseq_raised_then_more" if n < len(inp["steps"]) - 1 else "wseq_raised_last")
        fresh = {}
        for n, i, text in got:
            if i not in fresh:
                fresh[i] = writer(make_format(inp["format"], always=True), kwargs())(libs[i])
            if text != fresh[i]:
                problems.append("call %d (library %d): the shared format gives other text than a fresh equal format: %r vs fresh %r"
                                % (n, i, text[:80], fresh[i][:80]))
        if fspec.get("value_column") == "auto":
            tags.append("wseq_auto")
        rec["summary"] = "%s -> %s" % (inp["steps"], [t[1] if isinstance(t, tuple) else len(t) for _, _, t in got])
    except HS.UnknownObject as e:
        problems.append("snapshotter met an unknown object (fail closed): %s" % e)
    rec["oracle"] = {"ok": not problems, "detail": "; ".join(problems[:3])}
    rec["tags"] = sorted(set(tags))
    return rec


def shrink(case):
    inp = case["input"]
    if inp["kind"] != "heap":
        return
    import props.c07_heap as H
    yield from H.shrink(case)
