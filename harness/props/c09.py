"""C09 - duplicate keys are never merged or dropped: first wins, the rest are flagged."""
import gens_split as G
import splitcommon as SC
from props import c09_copies as CP
from props import c09_wide as WD
from props import c09_keychars as KC

ENGINE = "split"
RULE = ("grammar documents whose entry keys, string keys and field names are drawn from pools of 2-3 names so that collisions of every "
        "multiplicity and interleaving occur (entry/entry, string/string, entry and string with the same name, duplicates of a "
        "duplicate-field entry); distinct = distinct document; non-trivial = the document has at least one collision. "
        "Stream `history`: 1-3 such documents parsed into ONE library (Splitter.split(library=), parse_string(.., library=) with an empty "
        "and with the default stack, a document possibly more than once) interleaved with Library.add / remove / replace calls in block "
        "and list form (members, the blocks wrapped in failed blocks, previous_blocks, blocks removed earlier, equal-but-not-identical "
        "copies, fresh blocks with pool keys; calls that are refused or raise included); after EVERY step the library is compared with "
        "the first-wins history stated by the oracle; non-trivial = a collision or a refused call occurred. "
        "Stream `copies` (props/c09_copies.py): such a document (bare field values drawn from the string keys) through ONE path that copies or "
        "rebuilds the library - parse_string with parse_stack= / append_middleware= (list, tuple, iterator; into a caller's Library / subclass) "
        "or Splitter.split + transform by hand, 0-3 shipped middlewares each in place / in copy mode / default (every shipped block middleware, "
        "ResolveStringReferences, the block sorter, a user's LibraryMiddleware, default_parse_stack(True / False)), then 0-2 of copy.deepcopy, "
        "copy.copy, pickle, Library(lib.blocks) and variants, one more transform; the RETURNED library is judged by the statement: previous_block "
        "IS the live first block of that library (member of blocks, the object in entries_dict / strings_dict), the wrapped duplicate is "
        "complete as written, positions kept unless the path sorts; a failure of the previous_block link alone on a path with a shipped block "
        "middleware in copy mode is attributed to known finding K13, every other failure is a violation; paths that change neither content nor "
        "order are also compared with the splitter model; non-trivial = the document has a collision. "
        "Stream `wide` (props/c09_wide.py): an entry with 2..40 (and 100, 257, 1000; thorough also 63..66, 127..130, 255..258) fields whose names are pairwise distinct "
        "except for ONE name occurring at indices i < j - every (n, i, j) up to n = 24 (thorough 32), beyond that every index that is an end "
        "or T-1, T, T+1 of T = 8, 16, 17, 32, 64, 128, 256 once as i and once as j, plus random pairs -, or two different repeated names, or "
        "one name three times; in a document with a clean entry of the same key after it (which must be the live one), before it, on both "
        "sides, or after two such entries, sometimes with an unrelated block in between; through parse_string with the default stack and "
        "Splitter.split or parse_string with the empty stack (a seeded part also compared with the splitter model, the rest oracle-only), "
        "each returned library judged by the statement. "
        "Stream `keychars` (props/c09_keychars.py): entry keys, @string names and field names built around ONE atom - each printable ASCII "
        "punctuation character that is not a delimiter (! # $ % & ' ( ) * + - . / : ; < > ? @ [ \\ ] ^ _ ` | ~), each delimiter escaped by a "
        "backslash, non-ASCII letters, digits of other scripts / superscripts, letters with odd case mappings, combining marks, invisible "
        "characters that are not white space - at the start / in the middle / at the end / alone / doubled / doubled inside; legality is "
        "decided from the dialect grammar (key = anything but white space and active delimiters), not by the tree under test; as a single "
        "entry (with fields, field-less), second and third occurrence of the key, an entry repeating a field name before / between clean "
        "entries of the key, interleaved with @string blocks of the same name, next to a sibling key that differs only around the atom, "
        "the same for @string names, field names (distinct, repeated, siblings), and pairs of different keys that look alike (case, "
        "composed / decomposed, sharp s, full-width digit, invisible character); every document through parse_string with the empty stack "
        "(compared with the splitter model) and the default stack, seeded also Splitter.split and a two-part parse with library=; each "
        "returned library judged by the statement, live blocks must hold exactly the key / fields / value written")
TRUSTED = ["the ground truth (source blocks) is produced by the generator",
           "stream `history`: which member a remove/replace argument denotes is decided with the library's own Block.__eq__ (C19's subject); "
           "steps whose argument equals more than one member are left out"]
ASSUMPTIONS = []


def generate(rng, tier):
    cases = []
    # incremental parsing against the model (op 135): two documents sharing key pools, the second parsed into the first's library
    for _ in range(500 if tier == "quick" else 10000):
        ek = rng.sample(["k1", "k2", "K1", "a", "b"], rng.randint(1, 3))
        sk = rng.sample(["k1", "s", "a"], rng.randint(1, 2))
        fn = rng.sample(["t", "T", "a", "author", "year"], rng.randint(1, 3))
        t1 = G.gen_doc(rng, max_items=rng.choice([1, 3, 5]), depth=1, entry_keys=ek, string_keys=sk, field_names=fn)[0]
        t2 = G.gen_doc(rng, max_items=rng.choice([1, 3, 5]), depth=1, entry_keys=ek, string_keys=sk, field_names=fn)[0]
        if rng.random() < 0.2:
            t1 = G.mutate(rng, t1)
        if rng.random() < 0.2:
            t2 = G.mutate(rng, t2)
        cases.append({"stream": "incremental", "input": {"t1": t1, "t2": t2}})
    for _ in range(2500 if tier == "quick" else 25000):
        ek = rng.sample(["k1", "k2", "K1", "a", "b"], rng.randint(1, 3))
        sk = rng.sample(["k1", "s", "a"], rng.randint(1, 2))
        fn = rng.sample(["t", "T", "a", "author", "year"], rng.randint(1, 3))
        text, items = G.gen_doc(rng, max_items=rng.choice([3, 6, 10]), depth=1, entry_keys=ek, string_keys=sk, field_names=fn)
        cases.append({"stream": "G-dup", "input": {"text": text, "items": items}})
    # histories: documents parsed into one library, interleaved with add / remove / replace calls (short histories first)
    n_hist = 700 if tier == "quick" else 12000
    hist = [gen_history(rng, 2 + (i * 7) // n_hist) for i in range(n_hist)]
    cases.extend({"stream": "history", "input": h} for h in hist)
    # duplicate-key documents through every path that copies or rebuilds the library (props/c09_copies.py)
    cases.extend(CP.generate(rng, tier))
    # entries with many distinct field names and one repeat at every position pair (props/c09_wide.py)
    cases.extend(WD.generate(rng, tier))
    # keys made of every character the format accepts in a key, in every collision shape (props/c09_keychars.py); appended last
    cases.extend(KC.generate(rng, tier))
    return cases


def gen_target(rng, keys):
    """Denotes (at run time, indices modulo what exists) the block handed to add / remove / replace."""
    r = rng.random()
    if r < 0.22:
        return ["blk", rng.randrange(64)]                 # a member of the library
    if r < 0.42:
        return ["inner", rng.randrange(64)]               # the block wrapped in a failed block (not a member)
    if r < 0.50:
        return ["prev", rng.randrange(64)]                # the previous_block of a duplicate-key block
    if r < 0.60:
        return ["gone", rng.randrange(64)]                # a block removed / replaced earlier in the history
    if r < 0.72:
        return ["twin", rng.randrange(64)]                # an equal but not identical copy of a member
    return ["fresh", rng.choice(["entry", "entry", "entry0", "string", "string", "preamble", "comment"]), rng.choice(keys),
            rng.choice(["{x}", '"y"', "{z w}"])]


def gen_history(rng, n_steps):
    ek = rng.sample(["k1", "k2", "K1", "a", "b"], rng.randint(1, 3))
    sk = rng.sample(["k1", "s", "a"], rng.randint(1, 2))
    fn = rng.sample(["t", "T", "a", "author", "year"], rng.randint(1, 3))
    keys = ek + sk
    docs = []
    for _ in range(rng.randint(1, 3)):
        for _try in range(3):
            text, items = G.gen_doc(rng, max_items=rng.choice([2, 3, 5]), depth=1, entry_keys=ek, string_keys=sk, field_names=fn)
            if items:
                break
        docs.append({"text": text, "items": items})

    def parse_step(i):
        return ["parse", i, rng.choice(["split", "empty", "empty", "empty", "default"])]
    steps = [parse_step(0)]
    while len(steps) < n_steps:
        r = rng.random()
        last = len(steps) == n_steps - 1
        if r < (0.7 if last else 0.25):
            steps.append(parse_step(rng.randrange(len(docs))))
        elif r < 0.45:
            n = rng.choice([1, 1, 2, 3])
            steps.append(["add", "one" if n == 1 and rng.random() < 0.5 else "list", [gen_target(rng, keys) for _ in range(n)],
                          rng.random() < 0.35])
        elif r < 0.78:
            n = rng.choice([1, 1, 1, 2, 3])
            steps.append(["remove", "one" if n == 1 and rng.random() < 0.7 else "list", [gen_target(rng, keys) for _ in range(n)]])
        else:
            steps.append(["replace", gen_target(rng, keys), gen_target(rng, keys), rng.choice([None, True, False])])
    return {"docs": docs, "steps": steps}


def impl_incremental(case):
    import enc
    import implutil
    from bibtexparser.splitter import Splitter
    t1, t2 = case["input"]["t1"], case["input"]["t2"]

    def go():
        la = Splitter(t1).split()
        n = len(la.blocks)
        lb = Splitter(t2).split(library=la)
        return la, n, lb
    r = implutil.guarded(go)
    rec = {"sx_in": [135, enc.enc_str(t1), enc.enc_str(t2)], "key": str(hash((t1, t2))), "nontrivial": True, "tags": ["incremental"]}
    if not (SC.lower_ok(t1) and SC.lower_ok(t2)):
        rec["skip"] = True
    if r[0] == "exc":
        rec["sx_out"] = implutil.r_exc(6)
        rec["oracle"] = {"ok": False, "detail": "incremental split raised " + r[2]}
        return rec
    la, n, lb = r[1]
    rec["sx_out"] = implutil.r_ok([enc.enc_block(b) for b in lb.blocks])
    ok, detail = True, ""
    if lb is not la:
        ok, detail = False, "split(library=L) returned another library"
    else:
        # first wins over the WHOLE library: every duplicate-key block points at the first live block of its class and key
        live = {}
        for i, b in enumerate(lb.blocks):
            cn = type(b).__name__
            if cn in ("Entry", "String"):
                if (cn, b.key) in live:
                    ok, detail = False, "two live %s blocks with key %r" % (cn, b.key)
                    break
                live[(cn, b.key)] = b
            elif cn == "DuplicateBlockKeyBlock":
                k = (type(b.ignore_error_block).__name__, b.key)
                if k not in live or b.previous_block is not live[k]:
                    ok, detail = False, ("block %d: duplicate of %s %r does not point at the first live block of the library" % (i, k[0], k[1]))
                    break
        if ok and ({k: id(v) for k, v in lb.entries_dict.items()} != {k[1]: id(v) for k, v in live.items() if k[0] == "Entry"} or
                   {k: id(v) for k, v in lb.strings_dict.items()} != {k[1]: id(v) for k, v in live.items() if k[0] == "String"}):
            ok, detail = False, "entries_dict / strings_dict do not map each key to its first block"
    rec["oracle"] = {"ok": ok, "detail": detail}
    rec["summary"] = " ".join(SC.block_kinds(lb))[:200]
    return rec


def impl_history(case):
    """Oracle-only.  The oracle keeps its own account of the history: `slots` (the blocks the library must hold, in order) and `live`
    ((class, key) -> the first block, the one registered by key).  Insertion (parsing, add, the second half of replace): a block whose
    (class, key) is live becomes, at its own position, a DuplicateBlockKeyBlock exposing the key, the live block and the complete
    duplicate; otherwise it is live itself.  remove / replace of a block that is not a member is refused and changes nothing, as
    does a replace refused for a duplicate key (fail_on_duplicate_key, the default).  Whether and what a call raises is not judged."""
    import copy
    import hashlib
    import json
    import bibtexparser
    from bibtexparser.splitter import Splitter
    from bibtexparser.model import Entry, String, Field, Preamble, ExplicitComment, ParsingFailedBlock
    inp = case["input"]
    docs, steps = inp["docs"], inp["steps"]
    slots, live, gone = [], {}, []
    tags = set()
    log = []

    def cls_of(x):
        return "Entry" if isinstance(x, Entry) else "String" if isinstance(x, String) else None

    def tn(x):
        return type(x).__name__

    def desc(x):
        return "%s %r" % (tn(x), getattr(x, "key", None))

    def fresh(kind, key, val):
        if kind == "entry":
            return Entry("article", key, [Field("t", val)])
        if kind == "entry0":
            return Entry("misc", key, [])
        if kind == "string":
            return String(key, val)
        if kind == "preamble":
            return Preamble(val)
        return ExplicitComment(val)

    def resolve(t, inserting):
        x = None
        if t[0] == "fresh":
            return fresh(t[1], t[2], t[3])
        if t[0] in ("blk", "twin") and slots:
            x = slots[t[1] % len(slots)]
            if t[0] == "twin":
                x = copy.deepcopy(x)
        elif t[0] in ("inner", "prev"):
            pool = [b for b in slots if tn(b) == "DuplicateBlockKeyBlock" or (t[0] == "inner" and not inserting and isinstance(b, ParsingFailedBlock))]
            if pool:
                b = pool[t[1] % len(pool)]
                x = b.ignore_error_block if t[0] == "inner" else b.previous_block
        elif t[0] == "gone" and gone:
            x = gone[t[1] % len(gone)]
        if inserting and isinstance(x, ParsingFailedBlock):
            # failed blocks are not inserted a second time (the same wrapper twice would make positions ambiguous)
            x = x.ignore_error_block if tn(x) == "DuplicateBlockKeyBlock" else None
        if x is None:
            x = fresh("entry", "k1", "{x}")
        return x

    def matches(lst, t):
        return [i for i, b in enumerate(lst) if b is t or b == t]

    def insert_expect(x):
        """first wins: what the library must hold for the inserted block x -> ('obj', x) | ('dup', x, first)"""
        c = cls_of(x)
        if c and (c, x.key) in live:
            tags.add("history:collision")
            return ("dup", x, live[(c, x.key)])
        return ("obj", x)

    def adopt(exp, a, where):
        """Compare the block `a` held by the library with the expectation; returns (problem, block to keep in slots)."""
        if exp[0] == "obj":
            if a is not exp[1]:
                return "%s: the library holds %s where the inserted %s is expected (no live block with its key)" % (where, desc(a), desc(exp[1])), a
            c = cls_of(a)
            if c:
                live[(c, a.key)] = a
            return None, a
        x, first = exp[1], exp[2]
        if tn(a) != "DuplicateBlockKeyBlock":
            return "%s: %s repeats the key of a live block but the library holds %s, not a failed duplicate-key block" % (where, desc(x), desc(a)), a
        if a.key != x.key or a.previous_block is not first or a.ignore_error_block is not x:
            return ("%s: duplicate-key block for %s exposes key %r, previous_block %s%s, duplicate %s%s" %
                    (where, desc(x), a.key, desc(a.previous_block), "" if a.previous_block is first else " (not the live block)",
                     desc(a.ignore_error_block), "" if a.ignore_error_block is x else " (not the inserted block)")), a
        return None, a

    def check_state(lib, when):
        bs = lib.blocks
        seen = {}
        for i, b in enumerate(bs):
            c = cls_of(b)
            if c:
                if (c, b.key) in seen:
                    return "%s: blocks %d and %d are both live %s blocks with key %r" % (when, seen[(c, b.key)], i, c, b.key)
                seen[(c, b.key)] = i
        if len(bs) != len(slots):
            return "%s: the library holds %d blocks, %d expected (%r, expected %r)" % (when, len(bs), len(slots), [desc(b) for b in bs][:12],
                                                                                      [desc(b) for b in slots][:12])
        for i, (a, e) in enumerate(zip(bs, slots)):
            if a is not e:
                return "%s: block %d is %s, expected %s (another object)" % (when, i, desc(a), desc(e))
        for name, d, c in (("entries_dict", lib.entries_dict, "Entry"), ("strings_dict", lib.strings_dict, "String")):
            want = {k[1]: v for k, v in live.items() if k[0] == c}
            if set(d) != set(want) or any(d[k] is not want[k] for k in want):
                return ("%s: %s has keys %r but the live %s blocks (first of each key) have keys %r%s" %
                        (when, name, sorted(d), c, sorted(want), "" if set(d) != set(want) else " and other objects"))
        if [id(b) for b in lib.entries] != [id(b) for b in slots if cls_of(b) == "Entry"] or \
                [id(b) for b in lib.strings] != [id(b) for b in slots if cls_of(b) == "String"]:
            return "%s: Library.entries / strings are not the live blocks in block order" % when
        if [id(b) for b in lib.failed_blocks] != [id(b) for b in slots if isinstance(b, ParsingFailedBlock)]:
            return "%s: Library.failed_blocks are not the failed blocks in block order" % when
        return None

    def parsed_problem(b, it, strict, where):
        """the new block b against its source block; registers / looks up the live block.  Returns a problem or None."""
        cn = tn(b)

        def same_fields(e):
            if [f.key for f in e.fields] != [f[0] for f in it["fields"]]:
                return False
            return not strict or [f.value for f in e.fields] == [f[1] for f in it["fields"]]
        if strict and it["kind"] == "entry" and (b.raw != it["raw"] or b.start_line != it["line"]):
            return "%s: raw / start line differ from the source block" % where
        if it["kind"] == "entry":
            names = [f[0] for f in it["fields"]]
            dupf = sorted(set(n for n in names if names.count(n) > 1))
            if dupf:
                tags.add("history:collision")
                e = b.ignore_error_block if cn == "DuplicateFieldKeyBlock" else None
                if e is None or tn(e) != "Entry" or sorted(b.duplicate_keys) != dupf or e.key != it["key"] or not same_fields(e):
                    return "%s: entry with repeated field keys %r is %s / does not hold every field occurrence in order" % (where, dupf, cn)
                return None
        if it["kind"] in ("entry", "string"):
            c = "Entry" if it["kind"] == "entry" else "String"
            if (c, it["key"]) in live:
                tags.add("history:collision")
                first = live[(c, it["key"])]
                if cn != "DuplicateBlockKeyBlock":
                    return "%s: later %s with key %r is a %s although %s is live in the library" % (where, c, it["key"], cn, desc(first))
                d = b.ignore_error_block
                if b.key != it["key"] or b.previous_block is not first or tn(d) != c or d.key != it["key"] \
                        or (c == "Entry" and not same_fields(d)) or (c == "String" and strict and d.value != it["value"]):
                    return ("%s: duplicate-key block of %s %r: key %r, previous_block %s%s, duplicate %s / incomplete" %
                            (where, c, it["key"], b.key, desc(b.previous_block), "" if b.previous_block is first else " (not the live block)", desc(d)))
                return None
            if cn != c or b.key != it["key"] or (c == "Entry" and not same_fields(b)) or (c == "String" and strict and b.value != it["value"]):
                return "%s: first %s with key %r (no live block with this key in the library) is %s" % (where, c, it["key"], desc(b))
            live[(c, b.key)] = b
            return None
        want = {"preamble": "Preamble", "comment": "ExplicitComment", "freetext": "ImplicitComment"}[it["kind"]]
        if cn != want:
            return "%s is %s, expected %s" % (where, cn, want)
        return None

    lib = None
    problem = None
    for n, st in enumerate(steps):
        raised = None
        if st[0] == "parse":
            d, how = docs[st[1]], st[2]
            when = "step %d (%s of document %d%s)" % (n, {"split": "Splitter.split", "empty": "parse_string with an empty stack",
                                                          "default": "parse_string with the default stack"}[how], st[1],
                                                      "" if lib is None else ", library=the library")
            try:
                if how == "split":
                    ret = Splitter(d["text"]).split() if lib is None else Splitter(d["text"]).split(library=lib)
                else:
                    kw = {} if how == "default" else {"parse_stack": []}
                    if lib is not None:
                        kw["library"] = lib
                    ret = bibtexparser.parse_string(d["text"], **kw)
            except Exception as e:  # noqa: BLE001
                problem = "%s raised %s" % (when, type(e).__name__)
                break
            if lib is not None and how != "default" and ret is not lib:
                problem = "%s returned another library" % when
                break
            lib = ret
            bs = lib.blocks
            if len(bs) != len(slots) + len(d["items"]):
                problem = "%s: %d source blocks added to %d blocks give %d blocks" % (when, len(d["items"]), len(slots), len(bs))
                break
            for j, it in enumerate(d["items"]):
                b = bs[len(slots)]
                problem = parsed_problem(b, it, how != "default", "%s: source block %d (%s %r), block %d of the library" %
                                         (when, j, it["kind"], it.get("key"), len(slots)))
                if problem:
                    break
                slots.append(b)
            if problem:
                break
            log.append("parse%d" % st[1])
        elif lib is None:
            continue
        elif st[0] == "add":
            xs = [resolve(t, True) for t in st[2]]
            when = "step %d (add(%s%s))" % (n, ", ".join(desc(x) for x in xs), ", fail_on_duplicate_key=True" if st[3] else "")
            # the expectation for a later block depends on the earlier ones of the same call: stated one by one below
            try:
                lib.add(xs[0] if st[1] == "one" else list(xs), **({"fail_on_duplicate_key": True} if st[3] else {}))
            except Exception as e:  # noqa: BLE001
                raised = type(e).__name__
            bs = lib.blocks
            if len(bs) != len(slots) + len(xs):
                problem = "%s%s: %d blocks added to %d blocks give %d blocks" % (when, " raised %s" % raised if raised else "", len(xs), len(slots), len(bs))
                break
            for j, x in enumerate(xs):
                problem, keep = adopt(insert_expect(x), bs[len(slots)], "%s, block %d of the library" % (when, len(slots)))
                if problem:
                    break
                slots.append(keep)
            if problem:
                break
            log.append("add%d%s" % (len(xs), "!" + raised if raised else ""))
        elif st[0] == "remove":
            ts = [resolve(t, False) for t in st[2]]
            when = "step %d (remove(%s%s))" % (n, "" if st[1] == "one" else "list: ", ", ".join(desc(t) for t in ts))
            remaining = list(slots)
            refused = ambiguous = False
            for t in ts:
                m = matches(remaining, t)
                if len(m) > 1:
                    ambiguous = True
                    break
                if not m:
                    refused = True
                    break
                del remaining[m[0]]
            if ambiguous:
                tags.add("history:ambiguous-step-left-out")
                continue
            try:
                lib.remove(ts[0] if st[1] == "one" else list(ts))
            except Exception as e:  # noqa: BLE001
                raised = type(e).__name__
            if refused:
                tags.add("history:refused-remove")
                when += " - not all are members, nothing may change%s" % (" (raised %s)" % raised if raised else "")
            else:
                for b in slots:
                    if not any(b is r for r in remaining):
                        gone.append(b)
                        c = cls_of(b)
                        if c and live.get((c, b.key)) is b:
                            del live[(c, b.key)]
                slots[:] = remaining
                when += " raised %s" % raised if raised else ""
            log.append("remove%d%s" % (len(ts), "!" + raised if raised else ""))
        elif st[0] == "replace":
            old, new = resolve(st[1], False), resolve(st[2], True)
            fail = True if st[3] is None else st[3]
            when = "step %d (replace(%s, %s%s))" % (n, desc(old), desc(new), "" if st[3] is None else ", fail_on_duplicate_key=%r" % st[3])
            m = matches(slots, old)
            if len(m) > 1:
                tags.add("history:ambiguous-step-left-out")
                continue
            try:
                lib.replace(old, new, **({} if st[3] is None else {"fail_on_duplicate_key": st[3]}))
            except Exception as e:  # noqa: BLE001
                raised = type(e).__name__
            if not m:
                tags.add("history:refused-replace")
                when += " - the old block is not a member, nothing may change%s" % (" (raised %s)" % raised if raised else "")
            else:
                i = m[0]
                orig = slots[i]
                c = cls_of(orig)
                if c and live.get((c, orig.key)) is orig:
                    del live[(c, orig.key)]
                exp = insert_expect(new)
                bs = lib.blocks
                if len(bs) != len(slots):
                    problem = "%s%s: the library holds %d blocks, %d expected" % (when, " raised %s" % raised if raised else "", len(bs), len(slots))
                    break
                if exp[0] == "dup" and fail:
                    # refused for the duplicate key: position i holds the old block again (the member or the equal block handed in)
                    tags.add("history:refused-replace")
                    a = bs[i]
                    if a is not orig and a is not old:
                        problem = "%s - refused for the duplicate key: block %d is %s, expected the old block %s back" % (when, i, desc(a), desc(orig))
                        break
                    slots[i] = a
                    if c:
                        live[(c, a.key)] = a
                    when += " - refused for the duplicate key, nothing may change%s" % (" (raised %s)" % raised if raised else "")
                else:
                    problem, keep = adopt(exp, bs[i], "%s, block %d of the library" % (when, i))
                    if problem:
                        break
                    slots[i] = keep
                    gone.append(orig)
            log.append("replace%s" % ("!" + raised if raised else ""))
        problem = check_state(lib, "after " + when)
        if problem:
            break
    tags = sorted(tags)
    return {"sx_in": None, "sx_out": None, "oracle": {"ok": problem is None, "detail": problem or ""},
            "nontrivial": any(t in ("history:collision", "history:refused-remove", "history:refused-replace") for t in tags),
            "key": hashlib.sha1(json.dumps(inp, sort_keys=True).encode()).hexdigest(),
            "tags": ["history"] + tags, "summary": (" ".join(log) + " -> " + " ".join(tn(b)[:6] for b in slots))[:200]}


def impl(case):
    if case.get("stream") == "keychars" or "keychars" in case["input"]:
        return KC.impl(case)
    if case.get("stream") == "wide" or "wide" in case["input"]:
        return WD.impl(case)
    if case.get("stream") == "copies" or "path" in case["input"]:
        return CP.impl(case)
    if case.get("stream") == "history" or "steps" in case["input"]:
        return impl_history(case)
    if "t1" in case["input"]:
        return impl_incremental(case)
    text, items = case["input"]["text"], case["input"]["items"]
    rec, r = SC.base_record(text)
    if r[0] == "exc":
        rec["oracle"] = {"ok": False, "detail": "parse raised " + r[2]}
        rec["nontrivial"] = True
        return rec
    lib = r[1]
    bs = lib.blocks
    ok, detail, known = True, "", None
    collisions = 0
    if len(bs) != len(items):
        ok, detail = False, "%d blocks for %d source blocks" % (len(bs), len(items))
    else:
        live_e, live_s = {}, {}
        for i, (b, it) in enumerate(zip(bs, items)):
            cn = type(b).__name__
            if it["kind"] == "entry":
                names = [f[0] for f in it["fields"]]
                dupf = sorted(set(n for n in names if names.count(n) > 1))
                if dupf:
                    collisions += 1
                    if cn != "DuplicateFieldKeyBlock":
                        ok, detail = False, "block %d: entry with repeated field keys %r is a %s" % (i, dupf, cn)
                        break
                    e = b.ignore_error_block
                    if sorted(b.duplicate_keys) != dupf or [[f.key, f.value] for f in e.fields] != [[f[0], f[1]] for f in it["fields"]] \
                            or e.key != it["key"] or b.raw != it["raw"] or b.start_line != it["line"]:
                        ok, detail = False, "block %d: duplicate-field block does not hold every field occurrence in order" % i
                        break
                    continue                       # its key is not registered as live
                if it["key"] in live_e:
                    collisions += 1
                    if cn != "DuplicateBlockKeyBlock" or b.key != it["key"] or b.previous_block is not bs[live_e[it["key"]]] \
                            or type(b.ignore_error_block).__name__ != "Entry" \
                            or [[f.key, f.value] for f in b.ignore_error_block.fields] != [[f[0], f[1]] for f in it["fields"]] \
                            or b.raw != it["raw"] or b.start_line != it["line"]:
                        ok, detail = False, "block %d: later entry with key %r is %s / wrong previous block or content" % (i, it["key"], cn)
                        break
                else:
                    live_e[it["key"]] = i
                    if cn != "Entry" or b.key != it["key"]:
                        ok, detail = False, "block %d: first entry with key %r is %s" % (i, it["key"], cn)
                        break
            elif it["kind"] == "string":
                if it["key"] in live_s:
                    collisions += 1
                    if cn != "DuplicateBlockKeyBlock" or b.key != it["key"] or b.previous_block is not bs[live_s[it["key"]]] \
                            or type(b.ignore_error_block).__name__ != "String" or b.ignore_error_block.value != it["value"]:
                        ok, detail = False, "block %d: later string with key %r is %s / wrong previous block" % (i, it["key"], cn)
                        break
                else:
                    live_s[it["key"]] = i
                    if cn != "String" or b.key != it["key"]:
                        ok, detail = False, "block %d: first string with key %r is %s" % (i, it["key"], cn)
                        break
            else:
                want = {"preamble": "Preamble", "comment": "ExplicitComment", "freetext": "ImplicitComment"}[it["kind"]]
                if cn != want:
                    ok, detail = False, "block %d is %s, expected %s" % (i, cn, want)
                    break
        if ok:
            ed, sd = lib.entries_dict, lib.strings_dict
            if {k: id(v) for k, v in ed.items()} != {k: id(bs[i]) for k, i in live_e.items()} or \
                    {k: id(v) for k, v in sd.items()} != {k: id(bs[i]) for k, i in live_s.items()}:
                ok, detail = False, "entries_dict / strings_dict do not map each key to its first block"
            # the default parse stack keeps the classification
            import bibtexparser
            lib2 = bibtexparser.parse_string(text)
            if SC.block_kinds(lib2) != SC.block_kinds(lib):
                ok, detail = False, "default parse stack changed the classification: %r -> %r" % (SC.block_kinds(lib), SC.block_kinds(lib2))
            # ... and after a parse stack every duplicate still exposes the first block: previous_block IS the live first block of
            # the library that is RETURNED (in-place stack, and a stack whose library middleware works on a copy), and the wrapped
            # duplicate is complete (CP.judge: the statement on a returned library against the source blocks)
            from bibtexparser.middlewares import ResolveStringReferencesMiddleware as RS, RemoveEnclosingMiddleware as RE
            lib3 = bibtexparser.parse_string(text, parse_stack=[RS(allow_inplace_modification=False)])
            for name, L in (("default", lib2), ("[ResolveStringReferencesMiddleware(allow_inplace_modification=False)]", lib3)):
                if not ok:
                    break
                problem, link = CP.judge(L, items, positional=True, what="the library returned by the %s parse stack" % name)
                if problem or link:
                    ok, detail = False, problem or link
            # incremental parsing: the document cut between two source blocks, the second part parsed INTO the library of the
            # first (library=...): same classification, and every duplicate points at the first live block of the whole library
            if ok and len(items) >= 2:
                pos, offs = 0, []
                for it in items:
                    pos = text.index(it["raw"], pos)
                    offs.append(pos)
                    pos += len(it["raw"])
                cut = offs[1 + (len(text) + len(items)) % (len(items) - 1)]
                for name, stack in (("an empty", []), ("the default", None)):
                    kw = {} if stack is None else {"parse_stack": stack}
                    la = bibtexparser.parse_string(text[:cut], **kw)
                    n_a = len(la.blocks)
                    lb = bibtexparser.parse_string(text[cut:], library=la, **kw)
                    if (stack is not None and lb is not la) or SC.block_kinds(lb) != SC.block_kinds(lib):
                        ok, detail = False, ("parsing the document in two parts (second part with library=first, %s parse stack) "
                                             "classifies the blocks as %r, in one go as %r" % (name, SC.block_kinds(lb), SC.block_kinds(lib)))
                        break
                    for i, (b, it) in enumerate(zip(lb.blocks, items)):
                        if type(b).__name__ != "DuplicateBlockKeyBlock":
                            continue
                        first = lb.blocks[(live_e if it["kind"] == "entry" else live_s)[it["key"]]]
                        if b.previous_block is not first:
                            ok, detail = False, ("two-part parsing (library=, %s parse stack, cut before block %d of %d): duplicate block "
                                                 "%d (%s %r) does not point at the first live block of the library but at %s %r" %
                                                 (name, sum(1 for o in offs if o < cut), len(items), i, it["kind"], it["key"],
                                                  type(b.previous_block).__name__, getattr(b.previous_block, "key", None)))
                            break
                    if not ok:
                        break
            for L in (lib2, lib3):
                if ok and ({k: type(v).__name__ for k, v in L.entries_dict.items()} != {k: "Entry" for k in live_e} or
                           {k: type(v).__name__ for k, v in L.strings_dict.items()} != {k: "String" for k in live_s}):
                    ok, detail = False, "entries_dict / strings_dict after a parse stack do not hold exactly the first blocks"
            # last (so that it hides nothing): the same stack with the block middleware in copy mode as well, judged by the full
            # statement; a failure of the previous_block link alone is known finding K13 (props/c09_copies.py), anything else is not
            if ok:
                lib4 = bibtexparser.parse_string(text, parse_stack=[RS(allow_inplace_modification=False), RE(allow_inplace_modification=False)])
                problem, link = CP.judge(lib4, items, positional=True, what="the library returned by the parse stack [ResolveStringReferences"
                                         "Middleware(allow_inplace_modification=False), RemoveEnclosingMiddleware(allow_inplace_modification=False)]")
                if problem:
                    ok, detail = False, problem
                elif link:
                    ok, detail, known = False, link, "K13"
    rec["oracle"] = {"ok": ok, "detail": detail}
    if known:
        rec["oracle"]["known"] = known
    rec["nontrivial"] = collisions > 0
    rec["key"] = text if len(text) < 300 else str(hash(text))
    rec["tags"] = ["collisions" if collisions else "no-collision"] + (["copy-mode-block-stack:link-failed:" + known] if known else [])
    return rec


def shrink(case):
    return []
