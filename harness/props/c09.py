"""C09 - duplicate keys are never merged or dropped: first wins, the rest are flagged."""
import gens_split as G
import splitcommon as SC

ENGINE = "split"
RULE = ("grammar documents whose entry keys, string keys and field names are drawn from pools of 2-3 names so that collisions of every "
        "multiplicity and interleaving occur (entry/entry, string/string, entry and string with the same name, duplicates of a "
        "duplicate-field entry); distinct = distinct document; non-trivial = the document has at least one collision")
TRUSTED = ["the ground truth (source blocks) is produced by the generator"]
ASSUMPTIONS = []


def generate(rng, tier):
    cases = []
    # incremental parsing against the model (op 135): two documents sharing key pools, the second parsed into the first's library
    for _ in range(500 if tier == "quick" else 10000):
        ek = rng.sample(["k1", "k2", "K1", "a", "b"], rng.randint(1, 3))
        sk = rng.sample(["k1", "s", "a"], rng.randint(1, 2))
        fn = rng.sample(["t", "T", "a", "author", "year"], rng.randint(1, 3))
        t1 = G.gen_doc(rng, max_items=rng.choice([1, 3, 5]), depth=1, entry_keys=ek, string_keys=sk, field_names=fn)[0]
        t2 = G.gen_doc(rng, max_items=rng.choice([1, 3, 5]), depth=1, entry_keys=ek, string_keys=sk, field_names=fn)[0]
        if rng.random() < 0.2:
            t1 = G.mutate(rng, t1)
        if rng.random() < 0.2:
            t2 = G.mutate(rng, t2)
        cases.append({"stream": "incremental", "input": {"t1": t1, "t2": t2}})
    for _ in range(2500 if tier == "quick" else 25000):
        ek = rng.sample(["k1", "k2", "K1", "a", "b"], rng.randint(1, 3))
        sk = rng.sample(["k1", "s", "a"], rng.randint(1, 2))
        fn = rng.sample(["t", "T", "a", "author", "year"], rng.randint(1, 3))
        text, items = G.gen_doc(rng, max_items=rng.choice([3, 6, 10]), depth=1, entry_keys=ek, string_keys=sk, field_names=fn)
        cases.append({"stream": "G-dup", "input": {"text": text, "items": items}})
    return cases


def impl_incremental(case):
    import enc
    import implutil
    from bibtexparser.splitter import Splitter
    t1, t2 = case["input"]["t1"], case["input"]["t2"]

    def go():
        la = Splitter(t1).split()
        n = len(la.blocks)
        lb = Splitter(t2).split(library=la)
        return la, n, lb
    r = implutil.guarded(go)
    rec = {"sx_in": [135, enc.enc_str(t1), enc.enc_str(t2)], "key": str(hash((t1, t2))), "nontrivial": True, "tags": ["incremental"]}
    if not (SC.lower_ok(t1) and SC.lower_ok(t2)):
        rec["skip"] = True
    if r[0] == "exc":
        rec["sx_out"] = implutil.r_exc(6)
        rec["oracle"] = {"ok": False, "detail": "incremental split raised " + r[2]}
        return rec
    la, n, lb = r[1]
    rec["sx_out"] = implutil.r_ok([enc.enc_block(b) for b in lb.blocks])
    ok, detail = True, ""
    if lb is not la:
        ok, detail = False, "split(library=L) returned another library"
    else:
        # first wins over the WHOLE library: every duplicate-key block points at the first live block of its class and key
        live = {}
        for i, b in enumerate(lb.blocks):
            cn = type(b).__name__
            if cn in ("Entry", "String"):
                if (cn, b.key) in live:
                    ok, detail = False, "two live %s blocks with key %r" % (cn, b.key)
                    break
                live[(cn, b.key)] = b
            elif cn == "DuplicateBlockKeyBlock":
                k = (type(b.ignore_error_block).__name__, b.key)
                if k not in live or b.previous_block is not live[k]:
                    ok, detail = False, ("block %d: duplicate of %s %r does not point at the first live block of the library" % (i, k[0], k[1]))
                    break
        if ok and ({k: id(v) for k, v in lb.entries_dict.items()} != {k[1]: id(v) for k, v in live.items() if k[0] == "Entry"} or
                   {k: id(v) for k, v in lb.strings_dict.items()} != {k[1]: id(v) for k, v in live.items() if k[0] == "String"}):
            ok, detail = False, "entries_dict / strings_dict do not map each key to its first block"
    rec["oracle"] = {"ok": ok, "detail": detail}
    rec["summary"] = " ".join(SC.block_kinds(lb))[:200]
    return rec


def impl(case):
    if "t1" in case["input"]:
        return impl_incremental(case)
    text, items = case["input"]["text"], case["input"]["items"]
    rec, r = SC.base_record(text)
    if r[0] == "exc":
        rec["oracle"] = {"ok": False, "detail": "parse raised " + r[2]}
        rec["nontrivial"] = True
        return rec
    lib = r[1]
    bs = lib.blocks
    ok, detail = True, ""
    collisions = 0
    if len(bs) != len(items):
        ok, detail = False, "%d blocks for %d source blocks" % (len(bs), len(items))
    else:
        live_e, live_s = {}, {}
        for i, (b, it) in enumerate(zip(bs, items)):
            cn = type(b).__name__
            if it["kind"] == "entry":
                names = [f[0] for f in it["fields"]]
                dupf = sorted(set(n for n in names if names.count(n) > 1))
                if dupf:
                    collisions += 1
                    if cn != "DuplicateFieldKeyBlock":
                        ok, detail = False, "block %d: entry with repeated field keys %r is a %s" % (i, dupf, cn)
                        break
                    e = b.ignore_error_block
                    if sorted(b.duplicate_keys) != dupf or [[f.key, f.value] for f in e.fields] != [[f[0], f[1]] for f in it["fields"]] \
                            or e.key != it["key"] or b.raw != it["raw"] or b.start_line != it["line"]:
                        ok, detail = False, "block %d: duplicate-field block does not hold every field occurrence in order" % i
                        break
                    continue                       # its key is not registered as live
                if it["key"] in live_e:
                    collisions += 1
                    if cn != "DuplicateBlockKeyBlock" or b.key != it["key"] or b.previous_block is not bs[live_e[it["key"]]] \
                            or type(b.ignore_error_block).__name__ != "Entry" \
                            or [[f.key, f.value] for f in b.ignore_error_block.fields] != [[f[0], f[1]] for f in it["fields"]] \
                            or b.raw != it["raw"] or b.start_line != it["line"]:
                        ok, detail = False, "block %d: later entry with key %r is %s / wrong previous block or content" % (i, it["key"], cn)
                        break
                else:
                    live_e[it["key"]] = i
                    if cn != "Entry" or b.key != it["key"]:
                        ok, detail = False, "block %d: first entry with key %r is %s" % (i, it["key"], cn)
                        break
            elif it["kind"] == "string":
                if it["key"] in live_s:
                    collisions += 1
                    if cn != "DuplicateBlockKeyBlock" or b.key != it["key"] or b.previous_block is not bs[live_s[it["key"]]] \
                            or type(b.ignore_error_block).__name__ != "String" or b.ignore_error_block.value != it["value"]:
                        ok, detail = False, "block %d: later string with key %r is %s / wrong previous block" % (i, it["key"], cn)
                        break
                else:
                    live_s[it["key"]] = i
                    if cn != "String" or b.key != it["key"]:
                        ok, detail = False, "block %d: first string with key %r is %s" % (i, it["key"], cn)
                        break
            else:
                want = {"preamble": "Preamble", "comment": "ExplicitComment", "freetext": "ImplicitComment"}[it["kind"]]
                if cn != want:
                    ok, detail = False, "block %d is %s, expected %s" % (i, cn, want)
                    break
        if ok:
            ed, sd = lib.entries_dict, lib.strings_dict
            if {k: id(v) for k, v in ed.items()} != {k: id(bs[i]) for k, i in live_e.items()} or \
                    {k: id(v) for k, v in sd.items()} != {k: id(bs[i]) for k, i in live_s.items()}:
                ok, detail = False, "entries_dict / strings_dict do not map each key to its first block"
            # the default parse stack keeps the classification
            import bibtexparser
            lib2 = bibtexparser.parse_string(text)
            if SC.block_kinds(lib2) != SC.block_kinds(lib):
                ok, detail = False, "default parse stack changed the classification: %r -> %r" % (SC.block_kinds(lib), SC.block_kinds(lib2))
            # ... and every duplicate still points at the first block of ITS class with that key (in-place stack: the very
            # object held by the library; copy-mode stack: a block of the same class and key)
            from bibtexparser.middlewares import ResolveStringReferencesMiddleware as RS, RemoveEnclosingMiddleware as RE
            lib3 = bibtexparser.parse_string(text, parse_stack=[RS(allow_inplace_modification=False),
                                                                RE(allow_inplace_modification=False)])
            for name, L, ident in (("default", lib2, True), ("copy-mode", lib3, False)):
                if not ok:
                    break
                if len(L.blocks) != len(bs):
                    ok, detail = False, "%s parse stack changed the number of blocks" % name
                    break
                for i, (b, it) in enumerate(zip(L.blocks, items)):
                    if type(b).__name__ != "DuplicateBlockKeyBlock":
                        continue
                    first = L.blocks[(live_e if it["kind"] == "entry" else live_s)[it["key"]]]
                    prev = b.previous_block
                    want_cls = "Entry" if it["kind"] == "entry" else "String"
                    if type(prev).__name__ != want_cls or prev.key != it["key"] or (ident and prev is not first) \
                            or type(b.ignore_error_block).__name__ != want_cls:
                        ok, detail = False, ("after the %s parse stack, duplicate block %d (%s %r) has previous_block %s %r%s" %
                                             (name, i, it["kind"], it["key"], type(prev).__name__, getattr(prev, "key", None),
                                              "" if not ident or prev is first else " (not the first block held by the library)"))
                        break
            # incremental parsing: the document cut between two source blocks, the second part parsed INTO the library of the
            # first (library=...): same classification, and every duplicate points at the first live block of the whole library
            if ok and len(items) >= 2:
                pos, offs = 0, []
                for it in items:
                    pos = text.index(it["raw"], pos)
                    offs.append(pos)
                    pos += len(it["raw"])
                cut = offs[1 + (len(text) + len(items)) % (len(items) - 1)]
                for name, stack in (("an empty", []), ("the default", None)):
                    kw = {} if stack is None else {"parse_stack": stack}
                    la = bibtexparser.parse_string(text[:cut], **kw)
                    n_a = len(la.blocks)
                    lb = bibtexparser.parse_string(text[cut:], library=la, **kw)
                    if (stack is not None and lb is not la) or SC.block_kinds(lb) != SC.block_kinds(lib):
                        ok, detail = False, ("parsing the document in two parts (second part with library=first, %s parse stack) "
                                             "classifies the blocks as %r, in one go as %r" % (name, SC.block_kinds(lb), SC.block_kinds(lib)))
                        break
                    for i, (b, it) in enumerate(zip(lb.blocks, items)):
                        if type(b).__name__ != "DuplicateBlockKeyBlock":
                            continue
                        first = lb.blocks[(live_e if it["kind"] == "entry" else live_s)[it["key"]]]
                        if b.previous_block is not first:
                            ok, detail = False, ("two-part parsing (library=, %s parse stack, cut before block %d of %d): duplicate block "
                                                 "%d (%s %r) does not point at the first live block of the library but at %s %r" %
                                                 (name, sum(1 for o in offs if o < cut), len(items), i, it["kind"], it["key"],
                                                  type(b.previous_block).__name__, getattr(b.previous_block, "key", None)))
                            break
                    if not ok:
                        break
            for L in (lib2, lib3):
                if ok and ({k: type(v).__name__ for k, v in L.entries_dict.items()} != {k: "Entry" for k in live_e} or
                           {k: type(v).__name__ for k, v in L.strings_dict.items()} != {k: "String" for k in live_s}):
                    ok, detail = False, "entries_dict / strings_dict after a parse stack do not hold exactly the first blocks"
    rec["oracle"] = {"ok": ok, "detail": detail}
    rec["nontrivial"] = collisions > 0
    rec["key"] = text if len(text) < 300 else str(hash(text))
    rec["tags"] = ["collisions" if collisions else "no-collision"]
    return rec


def shrink(case):
    return []
