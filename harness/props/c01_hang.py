"""C01, streams H / P-H: RUNNING TIME IS PART OF "ALWAYS RETURNS" - small texts on which a backtracking pattern or a rescanning
loop explodes.

The property says that parse_string returns a Library and write_string a str "whatever the size, nesting depth, line count or
syntax errors of the text ... never as exceptions, HANGS or lost control flow".  A hang does not need a large text: a pattern
with a repetition inside a repetition (`(?:[^{}]+|{...})*}`), tried on a line where it CANNOT match, needs time that doubles with
every character of that line, and so does a recursive "does this still close somewhere" scan.  Code of that kind is what a
well-meant fix of a quirk brings in ("a `@word{...}` closed on its own line is text of the value, not a block start"): the
showcase input gets better, the neighbouring BROKEN input - same opening, never closed - does not come back any more.

A case is   prefix x token x run x tail   (all on few lines, at most ~700 characters):

    prefix   what is OPEN when the token comes (PREFIXES): an unterminated braced / quoted / nested field value, an entry head
             without its closing (after the key, after the comma, inside a field name), an @string head / value, @preamble{,
             @comment{ (empty and with text), free text, nothing at all
    token    something in the MIDDLE of that line that opens or separates and is not closed on the line (TOKENS): `@w{` `@w(`
             `@w {` `{` `"` `=` `#` `,` a backslash, a bare `@`; further: `@{`, `@string{`, `@comment{`, `\\{`, `@w<TAB>{`
    run      n in {8, 16, 24, 28, 32, 40, 48, 64, 128, 512} characters of ONE class on the same line (CLASSES): letters, digits,
             blanks, tabs, commas, `=`, `@`, `#`, backslashes, quotes, mixed non-brace text; further: words separated by single
             blanks, blank/tab mixtures, non-ASCII letters, parentheses
    tail     the end of the input | a newline, a field line and a well-formed block | other characters on the same line (the run
             is broken off, not ended by its line) and a closing brace pair some lines further down; further: the closing brace
             on the same line right behind the run, the brace pair lines away with the run at the end of its line, ...

`quick` runs the whole product of the first-named members (7 x 10 x 10 x 11 x 3) plus a drawn sample of the combinations with a
"further" member; `thorough` runs the product of the first-named members with every tail, and every (prefix, token, class) that
has a "further" member with every n and a drawn tail.  A drawn tenth of the texts also goes through the public entry points against
the composed model (P-H).  All choices (the word behind `@`, the characters of a run, the sample) come from the check's PRNG.

THE VERDICT.  Each text is judged by the property oracle of props/c01.py like every other text (nothing raises, a Library / a str
comes back, failed blocks carry error and raw text, no block lost), compared with the model, and in addition:
  * it must RETURN.  The whole evaluation of the case (parse with the empty and the default stack, two writes) runs under a limit
    of CPU_LIMIT_S seconds of *CPU time of this process* (ITIMER_PROF; the unchanged library needs about a millisecond, so the
    margin is more than a thousandfold, and a busy machine does not eat CPU time of this process).  A case that uses the limit up
    is reported as a violation WITH THAT TEXT - provided that, measured immediately afterwards in the same process, a WELL-FORMED
    document of the same length is through in less than a twentieth of the limit (otherwise the process, not the text, is slow:
    then the case is handed to the harness's own wall-clock limit and re-evaluation, harness/impl_runner.py / core.run_impl).  The
    time of the same text with its run cut to 4 characters is measured too and reported with the verdict.
    Once two cases of one child process have been reported so the run is a violation anyway; the following cases of that process
    get a sixth of the limit (same verdict rule), which bounds the cost of a tree that hangs on hundreds of them (the VIOLATION
    line of the run names the first such case in generation order, and that one has been judged under the full limit).
  * a text without any `}` cannot contain a complete block: when its prefix opens a block, the syntax error must SURFACE: at
    least one failed block, and every block is a failed block or an implicit comment;
  * the raw text of every failed block occurs in the text.
"""
import signal
import string
import time

CPU_LIMIT_S = 3.0
REFERENCE_SHARE = 20            # the well-formed reference must be through in CPU_LIMIT_S / REFERENCE_SHARE
AFTER_TWO_DIVISOR = 6

NS = [8, 16, 24, 28, 32, 40, 48, 64, 128, 512]

# name -> text that leaves something open; \x02 = the word behind an `@` (drawn)
PREFIXES = [
    ("braced-value", "@article{k1, title = {see the "),
    ("quoted-value", "@article{k1, title = \"see the "),
    ("entry-head", "@article{k1"),
    ("string-head", "@string{"),
    ("preamble", "@preamble{"),
    ("comment", "@comment{"),
    ("nothing", ""),
]
MORE_PREFIXES = [
    ("nested-braced-value", "@article{k1,\n  title = {The {nested "),
    ("second-field-value", "@article{k1,\n  year = 2000,\n  note = {a note "),
    ("entry-after-comma", "@article{k1, "),
    ("entry-field-name", "@article{k1, year = 2000,\n  note"),
    ("entry-after-equals", "@article{k1, title = "),
    ("string-braced-value", "@string{name = {abc "),
    ("string-quoted-value", "@string{name = \"abc "),
    ("string-after-equals", "@string{name = "),
    ("preamble-quoted", "@preamble{\"abc "),
    ("comment-text", "@comment{some text "),
    ("free-text", "some free text "),
    ("behind-a-block", "@book{k0, title = {ok}}\n\n@article{k1, title = {see the "),
]
# name -> token; \x02 = the word behind the `@` (drawn)
TOKENS = [
    ("at-word-brace", "@\x02{"),
    ("at-word-paren", "@\x02("),
    ("at-word-blank-brace", "@\x02 {"),
    ("brace", "{"),
    ("quote", "\""),
    ("equals", "="),
    ("hash", "#"),
    ("comma", ","),
    ("backslash", "\\"),
    ("at", "@"),
]
MORE_TOKENS = [
    ("at-brace", "@{"),
    ("at-string", "@string{"),
    ("at-comment", "@comment{"),
    ("at-preamble", "@preamble{"),
    ("escaped-brace", "\\{"),
    ("escaped-quote", "\\\""),
    ("at-word-tab-brace", "@\x02\t{"),
    ("at-word-brace-key", "@\x02{key,"),
    ("brace-brace", "{{"),
]
WORDS = ["w", "misc", "Article", "x1", "TechReport"]

MIXED = string.ascii_letters * 2 + "      " + string.digits + ",.;:=#@\\\"'-_()[]!?&%$~^*+/<>|`"
CLASSES = [
    ("letters", string.ascii_letters),
    ("digits", string.digits),
    ("blanks", " "),
    ("tabs", "\t"),
    ("commas", ","),
    ("equals", "="),
    ("ats", "@"),
    ("hashes", "#"),
    ("backslashes", "\\"),
    ("quotes", "\""),
    ("mixed", MIXED),
]
MORE_CLASSES = [
    ("words", None),                                   # letters with single blanks between them
    ("blank-tab", " \t"),
    ("unicode-letters", "éØłαжß"),
    ("parens", "()"),
    ("dots-dashes", ".-:;"),
    ("at-words", None),                                # `@ab @cd ...`: block-start look-alikes without a brace
]
TAILS = [
    ("eof", ""),
    ("nl-block", "\n  year = 2000\n\n@book{k2, title = {ok}}\n"),
    ("far-close", " ;x\n  and some more text\n  on three lines\n}}\n"),     # the run is BROKEN OFF on its line, not ended by the line
]
MORE_TAILS = [
    ("far-close-at-eol", "\n  and some more text\n  on three lines\n}}\n"),
    ("broken-off-eof", ".x"),
    ("close-same-line", "}\n"),
    ("close-same-line-then-block", "}},\n}\n\n@book{k2, title = {ok}}\n"),
    ("nl-eof", "\n"),
    ("nl-text-eof", "\n  year = 2000,\n  note = {unfinished"),
]


def make_run(rng, cname, pool, n):
    if cname == "words":
        out = []
        while sum(len(w) + 1 for w in out) < n:
            out.append("".join(rng.choice(string.ascii_lowercase) for _ in range(rng.randint(1, 7))))
        return " ".join(out)[:n]
    if cname == "at-words":
        out = []
        while sum(len(w) + 1 for w in out) < n:
            out.append("@" + "".join(rng.choice(string.ascii_lowercase) for _ in range(rng.randint(0, 5))))
        return " ".join(out)[:n]
    if len(pool) == 1 or rng.random() < 0.5:
        return rng.choice(pool) * n                     # one character, n times
    return "".join(rng.choice(pool) for _ in range(n))


def _case(rng, pre, tok, cls, n, tail, k):
    word = rng.choice(WORDS)
    gap = rng.choice(["", "", " "])                     # the run follows the token at once or after one blank: same line
    head = pre[1] + tok[1].replace("\x02", word) + gap
    run = make_run(rng, cls[0], cls[1], n)
    text = head + run + tail[1]
    hang = {"prefix": pre[0], "token": tok[0], "class": cls[0], "n": n, "tail": tail[0], "run_at": len(head)}
    out = [{"stream": "H", "input": {"text": text, "hang": hang}}]
    if rng.random() < 0.1:                              # (drawn, not every tenth: the product above has period 30)
        out.append({"stream": "P-H", "input": {"text": text, "hang": hang, "pipe": 1}})
    return out


def generate(rng, tier):
    cases = []
    k = 0
    if tier == "quick":
        for pre in PREFIXES:
            for tok in TOKENS:
                for cls in CLASSES:
                    for n in NS:
                        for tail in TAILS:
                            cases.extend(_case(rng, pre, tok, cls, n, tail, k))
                            k += 1
        # combinations with at least one "further" member: a drawn sample; every further member occurs (round robin) with drawn
        # partners from the whole pools
        allp, allt, allc, alle = PREFIXES + MORE_PREFIXES, TOKENS + MORE_TOKENS, CLASSES + MORE_CLASSES, TAILS + MORE_TAILS
        for rnd in range(24):
            for dim, more in enumerate((MORE_PREFIXES, MORE_TOKENS, MORE_CLASSES, MORE_TAILS)):
                for m in more:
                    pick = [rng.choice(allp), rng.choice(allt), rng.choice(allc), rng.choice(alle)]
                    pick[dim] = m
                    n = NS[(rnd + k) % len(NS)]
                    cases.extend(_case(rng, pick[0], pick[1], pick[2], n, pick[3], k))
                    k += 1
    else:
        # the whole product of the first-named members with EVERY tail ...
        for pre in PREFIXES:
            for tok in TOKENS:
                for cls in CLASSES:
                    for n in NS:
                        for tail in TAILS + MORE_TAILS:
                            cases.extend(_case(rng, pre, tok, cls, n, tail, k))
                            k += 1
        # ... and every (prefix, token, class) with a "further" member x every n, the tail drawn
        base = (set(p[0] for p in PREFIXES), set(t[0] for t in TOKENS), set(c[0] for c in CLASSES))
        for pre in PREFIXES + MORE_PREFIXES:
            for tok in TOKENS + MORE_TOKENS:
                for cls in CLASSES + MORE_CLASSES:
                    if pre[0] in base[0] and tok[0] in base[1] and cls[0] in base[2]:
                        continue
                    for n in NS:
                        cases.extend(_case(rng, pre, tok, cls, n, rng.choice(TAILS + MORE_TAILS), k))
                        k += 1
    return cases


def tags(hang):
    if hang.get("shrunk"):
        return ["hang:shrunk-candidate"]
    return ["hang:prefix=" + hang["prefix"], "hang:token=" + hang["token"], "hang:class=" + hang["class"], "hang:n=%d" % hang["n"],
            "hang:tail=" + hang["tail"]]


# ------------------------------------------------------------------ "it returns", measured in CPU time of this process
class CpuLimit(BaseException):
    """raised by the SIGPROF handler: not an Exception, so neither the library nor implutil.guarded turns it into a result"""


_STATE = {"installed": False, "late": 0, "returned": set()}


def _on_prof(signum, frame):
    raise CpuLimit()


def _breathe():
    return None


def cpu_limited(fn, limit):
    """('ok', value, cpu seconds) or ('late', None, cpu seconds): fn() under `limit` seconds of CPU time of this process"""
    if not _STATE["installed"]:
        signal.signal(signal.SIGPROF, _on_prof)
        _STATE["installed"] = True
    t0 = time.process_time()
    try:
        try:
            signal.setitimer(signal.ITIMER_PROF, limit)
            v = fn()
        finally:
            signal.setitimer(signal.ITIMER_PROF, 0)
        _breathe()            # a signal that arrived just before the timer was cleared is delivered here, inside the try
    except CpuLimit:
        return "late", None, time.process_time() - t0
    return "ok", v, time.process_time() - t0


def reference_document(length):
    """a WELL-FORMED document of about `length` characters: what the same process needs for a text of that size"""
    block = "@book{k%d,\n  title = {A well-formed {B}lock},\n  year = 2000\n}\n\n"
    out, k = "", 0
    while len(out) < max(length, 1):
        out += block % k
        k += 1
    return out


def _show(t):
    return repr(t) if len(t) <= 900 else repr(t[:600]) + "...(%d characters)..." % len(t) + repr(t[-200:])


def run(case, evaluate):
    """the record of a hang case: evaluate(case) (the ordinary evaluation of props/c01.py) under the CPU-time limit"""
    hang = case["input"]["hang"]
    text = case["input"]["text"]
    me = (text, bool(case["input"].get("pipe")))
    # (a text that came back earlier in this process - the second pass of impl_runner.py evaluates a sample again - keeps the full
    # limit, so that the two evaluations are judged alike)
    limit = CPU_LIMIT_S / (AFTER_TWO_DIVISOR if _STATE["late"] >= 2 and me not in _STATE["returned"] else 1)
    st, rec, cpu = cpu_limited(lambda: evaluate(case), limit)
    if st == "ok":
        if cpu > CPU_LIMIT_S / (2 * AFTER_TWO_DIVISOR):
            _STATE["returned"].add(me)
        return rec
    # it did not come back.  Is it the text, or is this process slow altogether?
    what = "write_string(parse_string(text))" if case["input"].get("pipe") else \
        "parse_string(text, parse_stack=[]) / parse_string(text) / write_string of the result"
    ref_case = {"stream": case.get("stream"), "input": {"text": reference_document(len(text))}}
    if case["input"].get("pipe"):
        ref_case["input"]["pipe"] = 1
    rst, _, rcpu = cpu_limited(lambda: evaluate(ref_case), CPU_LIMIT_S / REFERENCE_SHARE)
    if rst != "ok":
        # the process is slow (or wedged) altogether: no verdict from CPU time; the harness's wall-clock limit decides
        rec = evaluate(case)
        rec["tags"] = list(rec.get("tags", [])) + ["hang:cpu-limit-inconclusive-left-to-the-harness-limit"]
        return rec
    _STATE["late"] += 1
    short = ""
    at, n = hang.get("run_at"), hang.get("n")
    if not hang.get("shrunk") and isinstance(at, int) and isinstance(n, int) and n > 4 and len(text) >= at + n:
        small = dict(case, input=dict(case["input"], text=text[:at + 4] + text[at + n:]))
        sst, _, scpu = cpu_limited(lambda: evaluate(small), limit)
        short = ("; the same text with the run cut to 4 characters " +
                 ("returned in %.3f s" % scpu if sst == "ok" else "did not return within %.1f s either" % limit))
    where = ("" if hang.get("shrunk") else
             " (prefix %s, mid-line token %s, then a run of %d %s on the same line, tail %s)"
             % (hang["prefix"], hang["token"], hang["n"], hang["class"], hang["tail"]))
    # (the report starts with the same words for every such case: core.py prints one VIOLATION line per distinct beginning, so
    # the line names the first case in generation order, which its child has judged under the full limit)
    detail = ("a hang: the call did not come back (small text, the CPU-time limit of the case used up): %s used up %.1f s of CPU time of the process on this %d-character text%s without "
              "coming back (a well-formed document of the same length took %.4f s in the same process immediately afterwards%s); "
              "text %s" % (what, limit, len(text), where, rcpu, short, _show(text)))
    return {"sx_in": None, "sx_out": None, "oracle": {"ok": False, "detail": detail}, "nontrivial": True,
            "key": "hang:" + (text if len(text) < 200 else str(hash(text))) + (":pipe" if case["input"].get("pipe") else ""),
            "tags": ["hang:did-not-return"] + tags(hang), "summary": "did not return within %.1f s CPU" % limit}


# ------------------------------------------------------------------ what the statement says about these texts besides "returns"
def surfaces(text, hang, lib):
    """(ok, detail): the syntax error of a text that cannot contain a complete block surfaces as failed block(s); raw texts occur
    in the text.  `lib` = parse_string(text) (default stack)."""
    for b in lib.failed_blocks:
        if isinstance(b.raw, str) and b.raw not in ("\n" + text):
            return False, "the raw text %s of a failed block does not occur in the text parsed" % _show(b.raw)
    if "}" not in text and not hang.get("shrunk") and hang.get("prefix") not in ("nothing", "free-text"):
        # no closing brace anywhere: no block can be complete, and the prefix has opened one
        if not lib.failed_blocks:
            return False, ("the text opens a block (%s) and holds no closing brace at all, yet no failed block is stored: the "
                           "syntax error did not surface (blocks: %s)" % (hang.get("prefix"), [type(b).__name__ for b in lib.blocks]))
        failed = set(id(b) for b in lib.failed_blocks)
        for b in lib.blocks:
            if id(b) not in failed and type(b).__name__ != "ImplicitComment":
                return False, ("the text holds no closing brace at all, yet a complete %s came out of it (raw %s)"
                               % (type(b).__name__, _show(getattr(b, "raw", "") or "")))
    return True, ""
