"""C11: reserved and magic names as ordinary data (imported by c11.py only).

The property judges every field by its OWN source value.  The library, however, gives some names a meaning of their own:
the dict-style interface of an entry answers the names `ENTRYTYPE` and `ID` with the type and the key of the entry (the
names `Entry.items()` puts in front of the fields - read here from the tree under test through that public method), the
middlewares record what they did under their metadata keys, the model classes have attributes called `key`, `fields`,
`value`, ...  A document may use all of these as field names, as entry keys, as entry types and as @string names
(`selfref.magic_for_tree()`), and a change that reads a field through a shorthand that special-cases one of them
behaves differently on exactly these documents.

    words_for_tree()    {"shim": the names the dict-style interface reserves, "words": the legal names among the magic words
                        of the tree under test, the reserved names and their other-case spellings, "cat": name -> category}

The words are read in a child process with the tree under test in front of the path (the generator runs in the checker's
own process, where `bibtexparser` is the pinned tree); if that fails, the fixed list of selfref.py and the two pinned
reserved names are used.  Nothing here is random."""
import json
import os
import re
import subprocess
import sys

from props import c11_names, selfref

PINNED_SHIM = ["ENTRYTYPE", "ID"]
CATEGORY = {}
for _cat, _ws in {
    "model-attribute": ["key", "entry_type", "fields", "raw", "start_line", "value", "comment"],
    "name-word": ["others", "Others", "OTHERS", "and", "And", "AND"],
    "block-word": ["Comment", "string", "String", "preamble", "Preamble", "article"],
    "month-or-number": ["month", "jan", "Jan", "january", "1", "01", "0", "12", "13"],
    "python-word": ["None", "True", "False", "nan", "inf", "NULL", "__class__", "__dict__", "self"],
    "enclosing-word": ["removed_enclosing", "no-enclosing"],
    "format-word": ["%s", "%d", "%(n)s", "WARNING"],
    "bibliographic": ["author", "editor", "translator", "title", "year"],
}.items():
    for _w in _ws:
        CATEGORY.setdefault(_w, _cat)

_CHILD = """
import json, sys
sys.path.insert(0, %r)
from props import selfref
shim = []
try:
    from bibtexparser.model import Entry
    shim = [k for k, _ in Entry("article", "k", []).items()]
except Exception:
    pass
print(json.dumps([shim, selfref.magic_for_tree()]))
"""
_WORDS = None


def usable(name):
    """a name that may stand as field name, entry key, @string name and bare value in the dialect"""
    return isinstance(name, str) and c11_names.legal(name)


def usable_type(name):
    """a name that may stand after the `@` of an entry (word characters; the splitter lower-cases it)"""
    low = name.lower()
    return bool(re.fullmatch(r"\w+", name)) and name.isascii() and not low.startswith(("comment", "preamble", "string"))


def case_variants(name):
    out = []
    for v in (name.lower(), name.title(), name.swapcase(), name.upper(), name[:1] + name[1:].lower(), name[:1].lower() + name[1:]):
        if v != name and v not in out:
            out.append(v)
    return out


def words_for_tree():
    global _WORDS
    if _WORDS is not None:
        return _WORDS
    harness = os.path.dirname(os.path.dirname(os.path.abspath(__file__)))
    repo = os.environ.get("VERIF_REPO", "/repo")
    shim, magic = [], None
    try:
        p = subprocess.run([sys.executable, "-B", "-c", _CHILD % harness], stdout=subprocess.PIPE, stderr=subprocess.DEVNULL, text=True,
                           timeout=120, env=dict(os.environ, PYTHONPATH=repo, PYTHONHASHSEED="0", PYTHONDONTWRITEBYTECODE="1"))
        shim, magic = json.loads(p.stdout.strip().splitlines()[-1])
    except Exception:  # noqa: BLE001
        shim, magic = [], None
    source = "tree under test"
    if not isinstance(magic, list) or not magic:
        magic, source = list(selfref.MAGIC_WORDS), "fixed list"
    shim = [s for s in shim if usable(s)] if isinstance(shim, list) else []
    if not shim:
        shim = list(PINNED_SHIM)
    cat = {}
    words = []

    def add(w, c):
        if usable(w) and w not in cat:
            cat[w] = c
            words.append(w)
    for s in shim:
        add(s, "v1-shim-name")
    for s in shim:
        for v in case_variants(s):
            add(v, "v1-shim-name-other-case")
    folded = set(s.casefold() for s in shim)
    static = set(selfref.MAGIC_WORDS)
    for w in magic:
        if not isinstance(w, str):
            continue
        if w.casefold() in folded:
            add(w, "v1-shim-name-other-case")
        elif w in CATEGORY:
            add(w, CATEGORY[w])
        elif w in static:
            add(w, "other-magic")
        else:
            add(w, "tree-defined")              # metadata keys of the shipped middlewares, attribute names, format strings
    _WORDS = {"shim": shim, "words": words, "cat": cat, "source": source}
    return _WORDS
