"""C11: the alphabet of legal @string names (imported by c11.py only).

A name of the dialect is kchar+ (DESIGN.md section 3): any non-whitespace character that is not an active delimiter
`{ } " , =` (a delimiter directly after a backslash is not active); a bare value additionally has no `#` (names with `#`
are finding K8 and stay out of the generators).  `@` is left out as well (side condition G of the grammar), and no name ends
in a backslash (it would escape the structural delimiter that follows it).

The classes below are the units (one character, or a backslash and the delimiter it escapes) names are built from; every
unit of every class is visited in every run by the bounded sweep of c11.py (first / inner / last position, and alone), and
the random stream draws names of every class together with *siblings*: names that differ from them only in such
characters (the character dropped or replaced, another Unicode normalisation form, another letter case, one more
combining mark).  Everything is drawn from the rng that is passed in."""
import unicodedata

STEMS = ["j", "CACM", "pub", "SV", "adr", "ieee", "tpami", "acm", "sig", "x", "A", "v2", "b", "Proc", "lncs", "k"]

CLASSES = {
    # ASCII punctuation that is no delimiter (and `_`, the one punctuation character of Python identifiers)
    "ascii-punct": list("-:.+/*!?&'()[];<>|^~`$%_"),
    # a backslash that escapes nothing (never last in a name)
    "backslash": ["\\"],
    # delimiters made inactive by a backslash
    "esc-delim": ["\\,", "\\=", "\\{", "\\}", '\\"'],
    "digit": list("0123456789") + ["007", "42", "1990"],
    # letters outside ASCII: Latin-1 (e acute, E acute, o slash), special casing (sharp s, capital sharp s, dotless i, dotted
    # capital I, titlecase digraph, final sigma), Greek Omega and the Ohm sign, Cyrillic, CJK, kana, Hebrew, Arabic, a
    # supplementary-plane letter, compatibility letters (fi ligature, feminine ordinal, micro sign, Angstrom sign, fullwidth
    # a, modifier letter h)
    "nonascii-letter": ["\u00e9", "\u00c9", "\u00f8", "\u00df", "\u1e9e", "\u0131", "\u0130", "\u01c5", "\u03c2", "\u03a9",
                        "\u2126", "\u044f", "\u4e2d", "\u3042", "\u05d0", "\u0639", "\U0001d49c", "\ufb01", "\u00aa",
                        "\u00b5", "\u212b", "\uff41", "\u02b0"],
    # decimal digits outside ASCII (Arabic-Indic, fullwidth, Bengali, mathematical bold), digits that are not decimals
    # (superscript two, circled one), numerics that are not digits (one half, Roman numeral eight, ideographic zero)
    "nonascii-digit": ["\u0663", "\uff13", "\u09ea", "\U0001d7d7", "\u00b2", "\u2460", "\u00bd", "\u2167", "\u3007"],
    # combining marks (Mn: acute, diaeresis, cedilla; Me: enclosing circle; Mc: visarga; variation selector 16) and invisible
    # format characters (Cf: zero width joiner / non-joiner, soft hyphen, word joiner) and the zero width space
    "combining": ["\u0301", "\u0308", "\u0327", "\u20dd", "\u0903", "\ufe0f", "\u200d", "\u200c", "\u00ad", "\u2060",
                  "\u200b"],
    # symbols and punctuation outside ASCII (among them characters Python allows inside identifiers: U+00B7, U+203F, U+212E)
    "symbol": ["\u20ac", "\u2122", "\u00a9", "\u00a7", "\u00b7", "\u2010", "\u2013", "\u2014", "\u203f", "\u212e", "\u2603",
               "\U0001f600", "\u00ab", "\u00bf", "\u00d7", "\u2212", "\u2026"],
    # look-alikes of the delimiters and of `#` / `@` (fullwidth and small forms, curly quotes, ornament bracket): ordinary
    # characters for the splitter
    "delim-lookalike": ["\uff1d", "\uff0c", "\uff5b", "\uff5d", "\uff02", "\uff03", "\uff20", "\u201c", "\u201d", "\u2774",
                        "\ufe50"],
    # control and special characters that are not whitespace (C0, DEL, C1, byte order mark, replacement character, a
    # noncharacter, a private-use character)
    "control": ["\x00", "\x01", "\x08", "\x1b", "\x7f", "\x80", "\x9f", "\ufeff", "\ufffd", "\ufffe", "\ue000"],
}
LABELS = list(CLASSES)
DELIMS = '{}",='


def legal(name):
    """kchar+ without `#` and `@`, not ending in a backslash"""
    if name == "" or name.endswith("\\"):
        return False
    prev_bs = False
    for c in name:
        if c.isspace() or c in "#@":
            return False
        if c in DELIMS and not prev_bs:
            return False
        prev_bs = c == "\\"
    return True


def label_of(name):
    """the classes a name draws from (for the distribution in the evidence)"""
    out = []
    if name.isdigit() and name.isascii():
        out.append("digits-only")
    elif name[:1].isdigit() and name[:1].isascii():
        out.append("digit-first")
    if any(u in name for u in CLASSES["esc-delim"]):
        out.append("esc-delim")
    elif "\\" in name:
        out.append("backslash")
    for lab in ("ascii-punct", "nonascii-letter", "nonascii-digit", "combining", "symbol", "delim-lookalike", "control"):
        if any(u in name for u in CLASSES[lab]):
            out.append(lab)
    return out or ["plain"]


def place(unit, pos, rng=None):
    """a name with `unit` at the given position of an ASCII stem"""
    a, b = ("a", "b") if rng is None else (rng.choice(STEMS), rng.choice(STEMS))
    return {"first": unit + a + b, "inner": a + unit + b, "last": a + b + unit, "only": unit}[pos]


def sweep_units():
    """(class, unit, position) for every unit and every position it may take"""
    for lab in LABELS:
        for u in CLASSES[lab]:
            for pos in ("first", "inner", "last", "only"):
                if lab == "digit" and pos in ("inner", "last"):
                    continue                                   # an ordinary identifier
                if legal(place(u, pos)):
                    yield lab, u, pos


def gen_name(rng, lab):
    units = CLASSES[lab]
    shape = rng.choice(["first", "inner", "inner", "last", "only", "multi", "multi", "ends", "run"])
    if lab == "digit":
        name = rng.choice([rng.choice(["0", "7", "12", "007", "1990", "2020", "%d" % rng.randint(0, 999999)]),      # digits only
                           rng.choice(units[:10]) + rng.choice(STEMS),                                              # digit first
                           "%d%s%s" % (rng.randint(0, 99), rng.choice(["-", ".", ":", "e", "x", "_", "st"]), rng.choice(STEMS + ["5", "14"]))])
    elif shape in ("first", "inner", "last", "only"):
        name = place(rng.choice(units), shape, rng)
    elif shape == "multi":
        parts = [rng.choice(STEMS) for _ in range(rng.randint(2, 4))]
        name = parts[0] + "".join(rng.choice(units) + p for p in parts[1:])
    elif shape == "ends":
        name = rng.choice(units) + rng.choice(STEMS) + rng.choice(units)
    else:
        name = "".join(rng.choice(units) for _ in range(rng.randint(2, 3)))
    if not legal(name):
        name = place(rng.choice(units), "inner", rng)
    return name


def siblings(name, rng=None):
    """legal names that differ from `name` only in characters of the classes above (or in letter case / normalisation form)"""
    out = []

    def add(s):
        if s != name and legal(s) and s not in out:
            out.append(s)
    specials = [(i, u) for i in range(len(name)) for lab in LABELS if lab != "digit" for u in CLASSES[lab] if name.startswith(u, i)]
    for i, u in specials:
        rest = name[:i] + name[i + len(u):]
        add(rest)                                              # the character dropped
        for r in ("_", "-", ".", ":"):
            add(name[:i] + r + name[i + len(u):])              # replaced by another punctuation character
        if len(u) == 2:
            add(name[:i] + name[i + 1:])                       # the backslash dropped is illegal (active delimiter) - filtered
    for form in ("NFC", "NFD", "NFKC", "NFKD"):
        add(unicodedata.normalize(form, name))
    for v in (name.lower(), name.upper(), name.casefold(), name.swapcase(), name.title(), name.capitalize()):
        add(v)
    add(name + "\u0301")
    add(name + "_")
    add("_" + name)
    add(name.lstrip("0") or "0")                               # 007 / 7
    if name.isdigit():
        add("0" + name)
        add(name + "0")
        add(name.translate({ord("0") + d: 0x0660 + d for d in range(10)}))      # the same number in Arabic-Indic digits
        add(name.translate({ord("0") + d: 0xff10 + d for d in range(10)}))      # ... in fullwidth digits
    ascii_only = "".join(c for c in name if c.isascii())
    add(ascii_only)
    add("".join(c for c in name if c.isalnum() or c == "_"))   # what an identifier-minded reader keeps
    if rng is not None:
        # the special character replaced by another one of its class
        for i, u in specials[:3]:
            for lab in LABELS:
                if u in CLASSES[lab]:
                    add(name[:i] + rng.choice(CLASSES[lab]) + name[i + len(u):])
    return out


def normal_forms(name):
    """the legal names canonically / compatibly equivalent to `name` (or, for a number, numerically equal) and different from it"""
    out = []
    for form in ("NFC", "NFD", "NFKC", "NFKD"):
        v = unicodedata.normalize(form, name)
        if v != name and legal(v) and v not in out:
            out.append(v)
    if name.isdigit() and name.isascii():                      # the same number written otherwise
        for v in (name.lstrip("0") or "0", "0" + name, name.translate({ord("0") + d: 0x0660 + d for d in range(10)}),
                  name.translate({ord("0") + d: 0xff10 + d for d in range(10)})):
            if v != name and v not in out:
                out.append(v)
    return out


def equivalence_units(rng):
    """(class, unit, position, equivalent name) for every unit that has another normalisation form, at one position drawn
    at random, once per distinct form"""
    for lab in LABELS:
        for u in CLASSES[lab]:
            if lab == "digit" and u not in ("0", "7", "007", "42", "1990"):
                continue
            poss = [pos for pos in ("first", "inner", "last", "only") if legal(place(u, pos))]
            pos = "only" if lab == "digit" else rng.choice(poss)
            if not normal_forms(place(u, pos)):
                pos = "inner"                                  # a combining mark alone has no other form, after a letter it has
            for v in normal_forms(place(u, pos)):
                yield lab, u, pos, v


def gen_pool(rng):
    """a small pool of names for one document: a name of one class, some of its siblings, now and then a name of another
    class or a plain one"""
    lab = rng.choice(LABELS)
    base = gen_name(rng, lab)
    sibs = siblings(base, rng)
    rng.shuffle(sibs)
    pool = [base] + sibs[:rng.choice([1, 2, 2, 3])]
    r = rng.random()
    if r < 0.3:
        pool.append(gen_name(rng, rng.choice(LABELS)))
    elif r < 0.45:
        pool.append(rng.choice(["abc", "Abc", "x1"]))
    return pool
