"""C19, EQUALITY ACROSS THE CLASS HIERARCHY (streams hier-exh, hier-random).

The property: fields, entries, strings, preambles and comments are equal EXACTLY when they have the SAME CLASS and the same
content.  The eq-* streams of c19.py vary the content (every single-attribute perturbation) and exchange the class only
between ExplicitComment and ImplicitComment.  An `__eq__` whose class test is one-sided (`isinstance(other, type(self))`
alone, with `NotImplemented` otherwise), compares class NAMES, looks for a common base, or drops the class test for one of
the classes keeps all of that right: it goes wrong only when the two operands have the same content and classes that are
RELATED - the situation of every application that derives its own `class AnnotatedEntry(Entry)` (seeding round 12,
C19-l).  So here every public model class meets, with the very same attribute values,

    (a) a direct subclass that overrides nothing (userclasses.SubEntry, SubField, ...; built by the constructor, or a copy
        whose __class__ is assigned), a subclass with the NAME of its base, a subclass that only adds a method;
    (b) a subclass of that subclass;
    (c) sibling classes: two trivial subclasses of the same base, and the library's own siblings (ExplicitComment vs
        ImplicitComment, Entry vs String ..., MiddlewareErrorBlock vs DuplicateFieldKeyBlock) as well as the library's own
        sub- and superclasses (ParsingFailedBlock vs MiddlewareErrorBlock, any block vs Block);
    (d) objects of unrelated classes with the same __dict__ (also one with the same class name), a namespace with the
        same public attributes, the attribute dictionary itself, None, the repr, the class object ...;
    (e) same-class copies: copy.copy, copy.deepcopy, a second constructor call - of the plain object and of the subclass
        instances (two SubEntry with the same content ARE equal: same class);
    nested: an Entry one of whose fields is a SubField with the same content (the entries have the same class, their
        content differs in the class of a field), a failed block whose inner / previous block is a SubEntry;
    a subclass twin that differs in one attribute (never equal).

Every pair is asked in BOTH operand orders with `==` and `!=`, inside lists / tuples / dict values (`[x] == [y]`), through
`in`, `.index`, `.count` on lists of blocks / fields at several positions, and through what the library's API hands out:
`entry.fields`, `entry.fields_dict` (`.values()`, `.items()`, dict equality), `library.blocks`, the typed views
(`entries`, `strings`, `preambles`, `comments`, `failed_blocks`), `entries_dict` / `strings_dict` views.

Verdict (independent oracle, stated from the property): expected equal  <=>  `type(x) is type(y)` and the content read
through the PUBLIC attributes (key, value / fields in order with the exact class of every field, type, start line, raw,
metadata) is the same.  Failed blocks (ParsingFailedBlock and subclasses) carry an exception object, and the property does
not say when two exceptions are "the same": with the very same exception object the rule above applies, otherwise (deep
copies) only consistency is required (symmetric, `!=` the negation of `==`).  `Library` is included when the tree under
test gives it an `__eq__` of its own; with object identity as its equality only the class half is stated.  Pairs of plain
modelled classes (copies, ExplicitComment vs ImplicitComment) go to the Coq model (`py_eq`, op 21) as well; subclasses and
foreign objects are beyond its class tags: Python oracle alone (the convention of the multi-* / odd-* / ident-* streams).
"""
import json

SUB_RELATIONS = ["sub", "sub-reclass", "subsub", "samename-sub", "tagged-sub"]
SUBSUB_RELATIONS = ["sub-vs-subsub", "sibling-subs", "sub-vs-samename-sub"]
EQUAL_RELATIONS = ["copy", "deepcopy", "rebuild", "twin-of-sub", "twin-of-subsub", "sub-copy", "sub-deepcopy"]
FOREIGN_RELATIONS = ["unrelated-dict", "unrelated-samename", "namespace", "foreign"]
OTHER_RELATIONS = ["lib-sibling", "lib-sub", "lib-super", "nested-sub", "sub-twin-perturbed", "perturbed"]
RELATIONS = EQUAL_RELATIONS + SUB_RELATIONS + SUBSUB_RELATIONS + FOREIGN_RELATIONS + OTHER_RELATIONS
FOREIGN = ["vars", "none", "repr", "tuple", "zero", "notimplemented", "class", "list-of-fields"]

FAILED_BIB = ("@article{dup, a = {1}, b = {2}}\n@article{dup, a = {1}, b = {2}}\n@string{s = {v}}\n@string{s = {w}}\n"
              "@book{twice, x = {1}, x = {2}, y = {3}}\n@misc{broken, title = {no end\n\n@preamble{\"p\"}\n")
FIELD_SPECS = [["k", "x", 3], ["K", "", None], ["year", {"int": 2020}, 1], ["a", {"list": ["x", "y"]}, 0], ["b", None, 2],
               ["author", {"parts": [["J"], [], ["Smith"], []]}, 7]]
FAILED_KINDS = ["pfb", "pfb-inner", "mw", "dupkey", "dupfield"]


# ------------------------------------------------------------------ generator
def subjects(base):
    """The fixed subjects of the exhaustive part (JSON descriptions; built in the child, see build_subject)."""
    subs = []
    for spec in base.BLOCK_SPECS:
        subs.append({"src": "built", "spec": spec})
    for idx in range(6):
        subs.append({"src": "parsed", "bib": base.BIB, "index": idx, "stack": "raw"})
    subs.append({"src": "parsed", "bib": base.BIB, "index": 0, "stack": "default"})
    subs.append({"src": "parsed", "bib": base.BIB, "index": 5, "stack": "default"})
    for f in FIELD_SPECS:
        subs.append({"src": "field", "field": f})
    for idx, j in ((0, 0), (0, 2), (5, 2)):
        subs.append({"src": "parsed-field", "bib": base.BIB, "index": idx, "field": j, "stack": "raw"})
    for kind in FAILED_KINDS:
        for inner in (0, 3):
            subs.append({"src": "failed", "kind": kind, "inner": base.BLOCK_SPECS[inner], "prev": base.BLOCK_SPECS[1]})
    subs.append({"src": "parsed-failed", "bib": FAILED_BIB, "index": 0})
    subs.append({"src": "parsed-failed", "bib": FAILED_BIB, "index": 1})
    subs.append({"src": "parsed-failed", "bib": FAILED_BIB, "index": 2})
    subs.append({"src": "parsed-failed", "bib": FAILED_BIB, "index": 3})
    subs.append({"src": "library", "bib": base.BIB})
    subs.append({"src": "library", "bib": ""})
    return subs


def hier_cases(rng, tier, base):
    """rng: the generator of these streams alone; base: the module props.c19"""
    cases = []
    quick = tier == "quick"
    # a. every fixed subject in every relation (the child reports relations that do not apply to a subject as such)
    for si, subj in enumerate(subjects(base)):
        for rel in RELATIONS:
            variants = [0]
            if rel == "foreign":
                variants = list(range(len(FOREIGN)))
            elif rel in ("lib-sibling", "lib-sub", "lib-super", "nested-sub", "perturbed", "sub-twin-perturbed"):
                variants = list(range(6 if rel == "lib-sibling" else 3))
            for v in variants:
                cases.append({"stream": "hier-exh", "input": {"hier": {"subject": subj, "relation": rel, "variant": v,
                                                                        "pos": (si + v) % 3, "pads": 1 + (si + v) % 2}}})
    # b. random subjects (random field lists / values / metadata, blocks of random documents in random layouts parsed with
    #    and without the default stack), random relation, random place in the containers
    vals = ["x", "", {"int": 1}, {"int": 0}, None, {"list": ["x"]}, {"list": []}, {"tuple": ["x"]}, "1", "ß",
            {"parts": [["a"], [], ["b"], []]}]
    for _ in range(1200 if quick else 15000):
        p = rng.random()
        if p < 0.3:
            spec = json.loads(json.dumps(rng.choice(base.BLOCK_SPECS)))
            if spec["cls"] == "Entry":
                spec["fields"] = [[rng.choice(base.POOL + ["title"]), rng.choice(vals), rng.choice([None, 1, 2])]
                                  for _ in range(rng.randint(0, 4))]
                spec["type"], spec["key"] = rng.choice(base.W_TYPES), rng.choice(["k", "", "ID", "a:b"])
            spec["sl"], spec["raw"] = rng.choice([None, 0, 3]), rng.choice([None, "", "@x{y}"])
            spec["meta"] = rng.choice([[], [["m", "u"]], [["m", {"int": 1}], ["n", None]]])
            subj = {"src": "built", "spec": spec}
        elif p < 0.55:
            n = rng.choice([1, 2, 3])
            doc = base.world_doc(rng, ["w%d%s" % (i, rng.choice(["", ":x", "_1"])) for i in range(n)],
                                 [rng.choice(base.W_FORMS + ["fields"]) for _ in range(n)])
            subj = {"src": "parsed", "bib": doc["text"], "index": rng.randrange(8), "stack": rng.choice(["raw", "default"])}
            if rng.random() < 0.35:
                subj = dict(subj, src="parsed-field", field=rng.randrange(4))
        elif p < 0.7:
            subj = {"src": "field", "field": [rng.choice(base.POOL + ["ID", ""]), rng.choice(vals), rng.choice([None, 0, 5])]}
        elif p < 0.9:
            subj = {"src": "failed", "kind": rng.choice(FAILED_KINDS), "inner": rng.choice(base.BLOCK_SPECS),
                    "prev": rng.choice(base.BLOCK_SPECS[:3])}
        elif p < 0.96:
            subj = {"src": "parsed-failed", "bib": FAILED_BIB, "index": rng.randrange(4)}
        else:
            subj = {"src": "library", "bib": rng.choice([base.BIB, "", "@a{k, x = {1}}\n% c\n"])}
        rel = rng.choice(RELATIONS)
        cases.append({"stream": "hier-random", "input": {"hier": {"subject": subj, "relation": rel, "variant": rng.randrange(12),
                                                                   "pos": rng.randrange(4), "pads": rng.randrange(4)}}})
    return cases


# ------------------------------------------------------------------ child: the library's public classes
_NS = {}


def ns():
    """Public names of the tree under test, and the user classes derived from them (made once per process)."""
    if _NS:
        return _NS
    import types
    from bibtexparser import model as M
    from bibtexparser.library import Library
    from props import userclasses
    uc = userclasses.get()
    names = ["Field", "Entry", "String", "Preamble", "ExplicitComment", "ImplicitComment", "ParsingFailedBlock",
             "MiddlewareErrorBlock", "DuplicateBlockKeyBlock", "DuplicateFieldKeyBlock"]
    classes = {n: getattr(M, n) for n in names}
    classes["Library"] = Library
    _NS.update({"M": M, "Library": Library, "uc": uc, "classes": classes, "derived": {}, "Block": M.Block,
                "public": [c for c in vars(M).values() if isinstance(c, type) and c.__module__ == M.__name__] + [Library]})
    _NS["types"] = types
    return _NS


def derived(base_cls, how):
    """A user class derived from the public class base_cls: sub / sub2 (siblings) / subsub / samename / tagged."""
    n = ns()
    key = (base_cls, how)
    if key in n["derived"]:
        return n["derived"][key]
    name = base_cls.__name__
    if how == "sub":
        cls = getattr(n["uc"], "Sub" + name, None)
        if cls is None or cls.__bases__ != (base_cls,):
            cls = type("Sub" + name, (base_cls,), {})
    elif how == "sub2":
        cls = type("Annotated" + name, (base_cls,), {})
    elif how == "subsub":
        cls = type("SubSub" + name, (derived(base_cls, "sub"),), {})
    elif how == "samename":
        cls = type(name, (base_cls,), {})
    else:
        cls = type("Tagged" + name, (base_cls,), {"tag": "application data", "note": lambda self: "a note on %r" % (self,)})
    n["derived"][key] = cls
    return cls


def base_of(x):
    """The public model class x is an instance of (most specific)."""
    best = None
    for c in ns()["classes"].values():
        if isinstance(x, c) and (best is None or issubclass(c, best)):
            best = c
    return best


def ctor_args(x):
    b = base_of(x).__name__
    if b == "Field":
        return (x.key, x.value, x.start_line)
    if b == "Entry":
        return (x.entry_type, x.key, list(x.fields), x.start_line, x.raw)
    if b == "String":
        return (x.key, x.value, x.start_line, x.raw)
    if b == "Preamble":
        return (x.value, x.start_line, x.raw)
    if b in ("ExplicitComment", "ImplicitComment"):
        return (x.comment, x.start_line, x.raw)
    if b == "ParsingFailedBlock":
        return (x.error, x.start_line, x.raw, x.ignore_error_block)
    if b == "MiddlewareErrorBlock":
        return (x.ignore_error_block, x.error)
    if b == "DuplicateBlockKeyBlock":
        return (x.key, x.previous_block, x.ignore_error_block, x.start_line, x.raw)
    if b == "DuplicateFieldKeyBlock":
        return (x.duplicate_keys, x.ignore_error_block)
    if b == "Library":
        return (list(x.blocks),)
    raise TypeError("no public constructor known for %r" % (type(x),))


class NotOpen(Exception):
    """this way of building the object is not open for this class"""


def retype(x, cls, how="ctor"):
    """An instance of cls (a subclass of x's public class, or that class) holding the very same attribute values as x.
    ctor: the public constructor with the values read from the public attributes, metadata carried over;
    reclass: a shallow copy whose __class__ is assigned.  Raises NotOpen when that way is not open."""
    import copy
    n = ns()
    if how == "reclass":
        y = copy.copy(x)
        try:
            y.__class__ = cls
        except TypeError:
            raise NotOpen("__class__ assignment")
        return y
    b = base_of(x)
    if b is n["Library"]:
        y = cls()
        y.add(list(x.blocks))
        if [id(v) for v in y.blocks] != [id(v) for v in x.blocks]:
            raise NotOpen("the library replaced a block on addition")
        return y
    y = cls(*ctor_args(x))
    if isinstance(x, n["Block"]):
        y.parser_metadata.clear()
        y.parser_metadata.update(x.parser_metadata)
    # a failed block built by the splitter may have a start line / raw text of its own: the constructor cannot say so
    if content(y) != content(x):
        return retype(x, cls, "reclass")
    return y


class _Id:
    """an object that is equal to itself only (stands for an exception object inside a content description)"""

    def __init__(self, obj):
        self.obj = obj

    def __eq__(self, other):
        return isinstance(other, _Id) and self.obj is other.obj

    def __hash__(self):
        return id(self.obj)


def content(x, errors=None):
    """What the property calls the content of x, read through the public attributes; nested model objects with their exact
    class.  Exception objects of failed blocks are collected in errors (when given) instead of being part of the result."""
    n = ns()
    C = n["classes"]

    def nested(v):
        return None if v is None else (type(v), content(v, errors))

    def err(e):
        if errors is not None:
            errors.append(e)
            return "error"
        return _Id(e)
    if isinstance(x, C["Field"]):
        return ("field", x.key, x.value, x.start_line)
    if isinstance(x, C["Library"]):
        return ("library", [nested(v) for v in x.blocks])
    if not isinstance(x, n["Block"]):
        return ("foreign", _Id(x))
    head = (x.start_line, x.raw, dict(x.parser_metadata))
    if isinstance(x, C["Entry"]):
        return ("entry", head, x.entry_type, x.key, [nested(f) for f in x.fields])
    if isinstance(x, C["String"]):
        return ("string", head, x.key, x.value)
    if isinstance(x, C["Preamble"]):
        return ("preamble", head, x.value)
    if isinstance(x, C["ExplicitComment"]):
        return ("explicit", head, x.comment)
    if isinstance(x, C["ImplicitComment"]):
        return ("implicit", head, x.comment)
    if isinstance(x, C["DuplicateBlockKeyBlock"]):
        return ("dupkey", head, err(x.error), x.key, nested(x.previous_block), nested(x.ignore_error_block))
    if isinstance(x, C["DuplicateFieldKeyBlock"]):
        return ("dupfield", head, err(x.error), x.duplicate_keys, nested(x.ignore_error_block))
    if isinstance(x, C["ParsingFailedBlock"]):
        return ("failed", head, err(x.error), nested(x.ignore_error_block))
    return ("block", head)


def expected(x, y):
    """True / False from the property; None where it does not speak (same class, same content up to exception objects
    that are not the very same object; libraries with identity equality)."""
    n = ns()
    if type(x) is not type(y):
        return False
    if isinstance(x, n["Library"]) and type(x).__eq__ is object.__eq__:
        return True if x is y else None
    ex, ey = [], []
    if content(x, ex) != content(y, ey):
        return False
    if len(ex) != len(ey) or any(a is not b for a, b in zip(ex, ey)):
        return None
    return True


# ------------------------------------------------------------------ child: subjects
def parse(bib, stack):
    import bibtexparser
    return bibtexparser.parse_string(bib, parse_stack=[]) if stack == "raw" else bibtexparser.parse_string(bib)


def build_subject(subj, base):
    """-> the object, or None when the description yields none (a document without blocks, an entry without fields)"""
    n = ns()
    C = n["classes"]
    src = subj["src"]
    if src == "built":
        return base.build_block(subj["spec"])
    if src == "field":
        k, v, ln = subj["field"]
        return C["Field"](k, base.unjv(v), ln)
    if src in ("parsed", "parsed-field"):
        blocks = parse(subj["bib"], subj["stack"]).blocks
        if not blocks:
            return None
        b = blocks[subj["index"] % len(blocks)]
        if src == "parsed":
            return b
        if not isinstance(b, C["Entry"]):
            ents = [v for v in blocks if isinstance(v, C["Entry"])]
            if not ents:
                return None
            b = ents[subj["index"] % len(ents)]
        return b.fields[subj["field"] % len(b.fields)] if b.fields else None
    if src == "parsed-failed":
        failed = parse(subj["bib"], "raw").failed_blocks
        return failed[subj["index"] % len(failed)] if failed else None
    if src == "library":
        return parse(subj["bib"], "raw")
    inner = base.build_block(subj["inner"])
    kind = subj["kind"]
    if kind == "pfb":
        return C["ParsingFailedBlock"](ValueError("bad block"), 4, "@x{")
    if kind == "pfb-inner":
        # what a MiddlewareErrorBlock holds, in the base class
        return C["ParsingFailedBlock"](KeyError("k"), inner.start_line, inner.raw, inner)
    if kind == "mw":
        return C["MiddlewareErrorBlock"](inner, RuntimeError("middleware failed"))
    if kind == "dupkey":
        prev = base.build_block(subj["prev"])
        return C["DuplicateBlockKeyBlock"](getattr(inner, "key", "k"), prev, inner, inner.start_line, inner.raw)
    ent = inner if isinstance(inner, C["Entry"]) else base.build_block(subj["prev"])
    return C["DuplicateFieldKeyBlock"]({"a", "b"}, ent)


def perturbed(x, variant, base):
    """A deep copy of x that differs from it in one attribute, or None."""
    import copy
    from props import pubapi
    n = ns()
    C = n["classes"]
    y = copy.deepcopy(x)
    if isinstance(x, C["Library"]):
        y.add(C["Preamble"]("one more"))
        return y
    if isinstance(x, C["Field"]):
        if variant % 3 == 0:
            y.key = x.key + "x"
        elif variant % 3 == 1:
            y.value = [x.value]
        else:
            pubapi.set_backing(y, "field.start_line", (x.start_line or 0) + 1)
        return y
    which = variant % 3
    if which == 0:
        pubapi.set_backing(y, "block.start_line", (x.start_line or 0) + 1)
    elif which == 1:
        y.set_parser_metadata("extra", "1")
    else:
        for attr in ("key", "value", "comment"):
            if isinstance(getattr(type(x), attr, None), property) and getattr(type(x), attr).fset is not None:
                v = getattr(x, attr)
                setattr(y, attr, (v + "x") if isinstance(v, str) else [v])
                break
        else:
            pubapi.set_backing(y, "block.raw", (x.raw or "") + " ")
    return y


def make_pair(x, rel, variant, base):
    """-> (left, right, same content by construction) or None when the relation does not apply to x"""
    import copy
    n = ns()
    C = n["classes"]
    b = base_of(x)
    if rel == "copy":
        return x, copy.copy(x), True
    if rel == "deepcopy":
        return x, copy.deepcopy(x), True
    if rel == "rebuild":
        return x, retype(x, type(x)), True
    if rel in ("twin-of-sub", "twin-of-subsub"):
        cls = derived(b, "sub" if rel == "twin-of-sub" else "subsub")
        return retype(x, cls), retype(x, cls, "reclass" if variant % 2 else "ctor"), True
    if rel in ("sub-copy", "sub-deepcopy"):
        s = retype(x, derived(b, ("sub", "subsub", "samename")[variant % 3]))
        return s, (copy.copy(s) if rel == "sub-copy" else copy.deepcopy(s)), True
    if rel in SUB_RELATIONS:
        how = {"sub": "sub", "sub-reclass": "sub", "subsub": "subsub", "samename-sub": "samename", "tagged-sub": "tagged"}[rel]
        return x, retype(x, derived(b, how), "reclass" if rel == "sub-reclass" or variant % 4 == 3 else "ctor"), True
    if rel in SUBSUB_RELATIONS:
        other = {"sub-vs-subsub": "subsub", "sibling-subs": "sub2", "sub-vs-samename-sub": "samename"}[rel]
        return retype(x, derived(b, "sub")), retype(x, derived(b, other), "reclass" if variant % 2 else "ctor"), True
    if rel in ("lib-sibling", "lib-sub", "lib-super"):
        pub = n["public"]
        if rel == "lib-sibling":
            cands = [c for c in pub if c is not b and c.__bases__ == b.__bases__]
        elif rel == "lib-sub":
            cands = [c for c in pub if c is not b and issubclass(c, b)]
        else:
            cands = [c for c in pub if c is not b and issubclass(b, c)]
        if not cands:
            return None
        cands.sort(key=lambda c: c.__name__)
        cls = cands[variant % len(cands)]
        if variant >= len(cands) and rel != "lib-sibling":
            return None
        y = None
        # the natural construction where the two classes take the same arguments, else the same attribute dictionary
        if {b.__name__, cls.__name__} == {"ExplicitComment", "ImplicitComment"}:
            y = cls(x.comment, x.start_line, x.raw)
            y.parser_metadata.update(x.parser_metadata)
        elif (b.__name__, cls.__name__) == ("ParsingFailedBlock", "MiddlewareErrorBlock") and x.ignore_error_block is not None \
                and (x.start_line, x.raw) == (x.ignore_error_block.start_line, x.ignore_error_block.raw):
            y = cls(x.ignore_error_block, x.error)
            y.parser_metadata.update(x.parser_metadata)
        elif (b.__name__, cls.__name__) == ("MiddlewareErrorBlock", "ParsingFailedBlock"):
            y = cls(x.error, x.start_line, x.raw, x.ignore_error_block)
            y.parser_metadata.update(x.parser_metadata)
        if y is None:
            y = retype(x, cls, "reclass")
        return x, y, True
    if rel in FOREIGN_RELATIONS:
        try:
            d = dict(vars(x))
        except TypeError:
            d = {}
        if rel == "unrelated-dict" or rel == "unrelated-samename":
            cls = type(type(x).__name__ if rel == "unrelated-samename" else "Plain", (), {})
            y = cls()
            y.__dict__.update(d)
        elif rel == "namespace":
            pub = {a: getattr(x, a) for a in dir(type(x)) if isinstance(getattr(type(x), a, None), property)}
            y = n["types"].SimpleNamespace(**pub)
        else:
            what = FOREIGN[variant % len(FOREIGN)]
            y = {"vars": d, "none": None, "repr": repr(x), "tuple": (x,), "zero": 0, "notimplemented": NotImplemented,
                 "class": type(x), "list-of-fields": list(getattr(x, "fields", [])) if not isinstance(x, C["Library"]) else list(x.blocks)}[what]
        return x, y, True
    if rel == "nested-sub":
        if isinstance(x, C["Entry"]):
            if not x.fields:
                return None
            j = variant % len(x.fields)
            fs = list(x.fields)
            fs[j] = retype(fs[j], derived(C["Field"], ("sub", "subsub", "samename")[variant % 3]))
            y = type(x)(x.entry_type, x.key, fs, x.start_line, x.raw)
        elif isinstance(x, C["Library"]):
            if not x.blocks:
                return None
            bl = list(x.blocks)
            j = variant % len(bl)
            if base_of(bl[j]) is None:
                return None
            bl[j] = retype(bl[j], derived(base_of(bl[j]), "sub"))
            y = type(x)(bl)
            if len(y.blocks) != len(bl) or any(p is not q for p, q in zip(y.blocks, bl)):
                return None
            return x, y, False
        elif isinstance(x, C["ParsingFailedBlock"]):
            inner = x.ignore_error_block
            if inner is None or isinstance(inner, C["ParsingFailedBlock"]):
                return None
            inner2 = retype(inner, derived(base_of(inner), "sub"))
            bn = b.__name__
            if bn == "MiddlewareErrorBlock":
                y = type(x)(inner2, x.error)
            elif bn == "DuplicateFieldKeyBlock":
                y = type(x)(x.duplicate_keys, inner2)
            elif bn == "DuplicateBlockKeyBlock":
                if variant % 2:
                    prev2 = retype(x.previous_block, derived(base_of(x.previous_block), "sub"))
                    y = type(x)(x.key, prev2, inner, x.start_line, x.raw)
                else:
                    y = type(x)(x.key, x.previous_block, inner2, x.start_line, x.raw)
            else:
                y = type(x)(x.error, x.start_line, x.raw, inner2)
            if (y.start_line, y.raw) != (x.start_line, x.raw):
                return None
        else:
            return None
        y.parser_metadata.update(x.parser_metadata)
        return x, y, False
    if rel == "perturbed":
        y = perturbed(x, variant, base)
        return (x, y, False) if y is not None else None
    if rel == "sub-twin-perturbed":
        cls = derived(b, ("sub", "subsub", "samename")[variant % 3])
        y = perturbed(x, variant, base)
        return (retype(x, cls), retype(y, cls), False) if y is not None else None
    return None


# ------------------------------------------------------------------ child: the questions asked about one pair
def proper(v):
    """v is a model object all of whose public attributes can be read (a copy whose __class__ was exchanged for a sibling
    class has the attribute dictionary of another class: it can be compared, not used)"""
    try:
        content(v)
    except Exception:  # noqa: BLE001
        return False
    return base_of(v) is not None


def ask(x, y, pos, pads, failures, asked):
    """Every way of asking whether x equals y; returns (x == y, y == x); a failure: (question, answer, must be)."""
    n = ns()
    C = n["classes"]
    E = expected(x, y)

    def verdict(what, got, want):
        asked[0] += 1
        if want is not None and got != want:
            failures.append("%s gave %r, the property says %r" % (what, got, want))

    ab, ba = bool(x == y), bool(y == x)
    nab, nba = bool(x != y), bool(y != x)
    verdict("left == right", ab, E)
    verdict("right == left", ba, E)
    verdict("left != right", nab, None if E is None else not E)
    verdict("right != left", nba, None if E is None else not E)
    if E is None:
        # the property is silent on the answer, not on its consistency
        verdict("right == left (left == right gave %r)" % ab, ba, ab)
        verdict("left != right (left == right gave %r)" % ab, nab, not ab)
        verdict("right != left (right == left gave %r)" % ba, nba, not ba)
        return ab, ba
    verdict("[left] == [right]", [x] == [y], E)
    verdict("(right,) != (left,)", (y,) != (x,), not E)
    verdict("{'k': left} == {'k': right}", {"k": x} == {"k": y}, E)
    # lists of blocks / fields: the padding differs from both in content
    for a, b, who in ((x, y, "right in a list holding left"), (y, x, "left in a list holding right")):
        if isinstance(a, C["Field"]):
            padding = [C["Field"]("pad%d" % i, "pad", 900 + i) for i in range(pads)]
        else:
            padding = [C["Preamble"]("pad%d" % i, 900 + i, "pad") for i in range(pads)]
        lst = list(padding)
        at = pos % (len(lst) + 1)
        lst.insert(at, a)
        verdict(who + ": in", b in lst, E)
        verdict(who + ": count", lst.count(b), int(E))
        if proper(b) or base_of(b) is None:
            # (list.index formats its argument for the message of the ValueError: the __repr__ of a copy whose __class__
            # was exchanged for a sibling class finds none of its attributes - an artefact of the harness, not asked)
            try:
                got = lst.index(b)
            except ValueError:
                got = "ValueError"
            verdict(who + ": index", got, at if E else "ValueError")
        # what the library's API hands out
        if not proper(a):
            continue
        if isinstance(a, C["Field"]) and all(f.key != a.key for f in padding) and isinstance(a.key, str):
            e = C["Entry"]("misc", "holder", list(lst))
            verdict(who + ": in entry.fields", b in e.fields, E)
            verdict(who + ": in entry.fields_dict.values()", b in e.fields_dict.values(), E)
            verdict(who + ": (key, it) in entry.fields_dict.items()", (a.key, b) in e.fields_dict.items(), E)
            other = {f.key: f for f in lst}
            other[a.key] = b
            verdict(who + ": entry.fields_dict == the dict with it in place", e.fields_dict == other, E)
            if isinstance(b, C["Field"]):
                e2 = C["Entry"]("misc", "holder", [b if f is a else f for f in lst])
                verdict(who + ": entries holding the one / the other", e == e2, E)
        elif isinstance(a, n["Block"]) and not isinstance(a, C["ParsingFailedBlock"]):
            lib = C["Library"](list(lst))
            if len(lib.blocks) == len(lst) and all(p is q for p, q in zip(lib.blocks, lst)):
                verdict(who + ": in library.blocks", b in lib.blocks, E)
                verdict(who + ": library.blocks.count", lib.blocks.count(b), int(E))
                for view in ("entries", "strings", "preambles", "comments"):
                    got = getattr(lib, view)
                    if any(v is a for v in got):
                        verdict(who + ": in library.%s" % view, b in got, E)
                for view in ("entries_dict", "strings_dict"):
                    got = getattr(lib, view)
                    if any(v is a for v in got.values()):
                        verdict(who + ": in library.%s.values()" % view, b in got.values(), E)
                        verdict(who + ": (key, it) in library.%s.items()" % view, (a.key, b) in got.items(), E)
        elif isinstance(a, C["ParsingFailedBlock"]):
            lib = C["Library"](list(lst))
            if len(lib.blocks) == len(lst) and all(p is q for p, q in zip(lib.blocks, lst)):
                verdict(who + ": in library.blocks", b in lib.blocks, E)
                verdict(who + ": in library.failed_blocks", b in lib.failed_blocks, E)
    return ab, ba


def impl_hier(case, base):
    import enc
    import implutil
    inp = case["input"]["hier"]
    rel = inp["relation"]
    key = json.dumps(inp, sort_keys=True)
    n = ns()
    C = n["classes"]

    def na(why):
        return {"sx_in": None, "sx_out": None, "oracle": {"ok": True, "detail": ""}, "nontrivial": False, "key": key,
                "tags": ["hier:not-applicable", "hier:not-applicable:" + why], "summary": "n/a"}
    x = build_subject(inp["subject"], base)
    if x is None:
        return na("no-such-object")
    try:
        pair = make_pair(x, rel, inp["variant"], base)
    except NotOpen:
        pair = None
    if pair is None:
        return na(rel)
    a, b, same = pair
    bname = base_of(x).__name__
    tags = ["hier", "hier:" + rel, "hier:class:" + bname, "hier:source:" + inp["subject"]["src"]]
    E = expected(a, b)
    tags.append("hier:expected-%s" % {True: "equal", False: "unequal", None: "unspecified"}[E])
    if rel == "foreign":
        tags.append("hier:foreign:" + FOREIGN[inp["variant"] % len(FOREIGN)])
    if type(a) is not type(b) and base_of(b) is not None and base_of(a) is not None:
        if issubclass(type(b), type(a)) or issubclass(type(a), type(b)):
            tags.append("hier:one-class-derives-from-the-other")
        else:
            tags.append("hier:neither-class-derives-from-the-other")
    failures, asked = [], [0]
    # the generator's own claim about the pair, as a check of the oracle's reading of the content
    if type(a) is type(b) and E is not None and E is not same:
        failures.append("harness: the relation %s was built to have %s content, the public attributes say otherwise" % (
            rel, "the same" if same else "different"))
    r = implutil.guarded(lambda: ask(a, b, inp["pos"], inp["pads"], failures, asked))
    rec = {"sx_in": None, "sx_out": None, "key": key, "tags": tags, "nontrivial": E is not None}
    what = "%s from %s, relation %s (%s vs %s)" % (bname, inp["subject"]["src"], rel, type(a).__name__, type(b).__name__)
    if r[0] == "exc":
        rec["oracle"] = {"ok": False, "detail": "%s: a comparison raised %s" % (what, r[2])}
        rec["summary"] = "raised " + r[2]
        return rec
    ab, ba = r[1]
    rec["summary"] = "a==b %r, b==a %r (%d questions)" % (ab, ba, asked[0])
    rec["oracle"] = {"ok": not failures, "detail": "" if not failures else "%s, same class %r, same content %r: %s" % (
        what, type(a) is type(b), same, "; ".join(failures[:6]))}
    # plain modelled classes on both sides: py_eq of the Coq model as well (op 21)
    plain = ("Entry", "String", "Preamble", "ExplicitComment", "ImplicitComment")
    natural = rel in ("copy", "deepcopy", "rebuild", "perturbed") or (
        rel == "lib-sibling" and {type(a).__name__, type(b).__name__} == {"ExplicitComment", "ImplicitComment"})
    if not failures and natural and all(type(v) is C.get(type(v).__name__) for v in (a, b)):
        if type(a).__name__ in plain and type(b).__name__ in plain and base.block_modelled(a) and base.block_modelled(b) \
                and all(type(f) is C["Field"] for v in (a, b) for f in getattr(v, "fields", [])):
            rec["sx_in"], rec["sx_out"] = [21, 0, enc.enc_block(a), enc.enc_block(b)], implutil.r_ok([int(ab), int(ba)])
            rec["tags"] = tags + ["hier:compared-with-model"]
        elif type(a) is C["Field"] and type(b) is C["Field"] and base.value_modelled(a.value) and base.value_modelled(b.value):
            rec["sx_in"], rec["sx_out"] = [21, 1, enc.enc_field(a), enc.enc_field(b)], implutil.r_ok([int(ab), int(ba)])
            rec["tags"] = tags + ["hier:compared-with-model"]
    return rec
