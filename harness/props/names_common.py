"""Independent Python oracles shared by C12, C13, C14 (written from the property texts, not from names.py),
the token alphabets, and the loader of the repository's own BibTeX-derived corpus."""
import ast
import itertools
import os

WS4 = " \r\n\t"        # whitespace for co-author splitting ('~' is NOT whitespace there)
WS5 = " ~\r\n\t"       # whitespace between the words of one name

C12_TOKENS = ["Ab", "and", "AND", "aNd", "an", "d", " ", "\t", "\n", "~", "{", "}", "\\", "\\'", ","]
# characters whose lower()/upper()/casefold() changes the length or is context dependent: any code that folds case and
# then indexes back into the original text misplaces every later offset
UNI_EDGE = ["\u0130smail", "Stra\u00dfe", "\u0149x", "\ufb03", "\u212aelvin", "\u0391\u03a3", "I\u0307x", "\u01c5x", "\u1e9e"]
C13_TOKENS = ["Aa", "bb", "11", "{Cc}", "{dd}", "{\\'E}x", "{\\'e}x", "\\'E", "\\", ",", " ", "~", "{", "}"]


# ------------------------------------------------------------------ C12
def balanced(s):
    d = 0
    i = 0
    while i < len(s):
        c = s[i]
        if c == "\\":
            i += 2
            continue
        if c == "{":
            d += 1
        elif c == "}":
            d -= 1
            if d < 0:
                return False
        i += 1
    return d == 0


def top_words(s, ws=WS4):
    """(start, end) of the top-level words: maximal runs without whitespace of (clamped) brace depth 0;
    an escape pair is two ordinary characters of its word."""
    out = []
    d = 0
    i = 0
    start = None
    n = len(s)
    while i < n:
        c = s[i]
        if c == "\\":
            if start is None:
                start = i
            i += 2
            continue
        if c == "{":
            if start is None:
                start = i
            d += 1
        elif c == "}":
            if start is None:
                start = i
            if d:
                d -= 1
        elif d == 0 and c in ws:
            if start is not None:
                out.append((start, i))
                start = None
        else:
            if start is None:
                start = i
        i += 1
    if start is not None:
        out.append((start, n))
    return out


def is_and(w):
    return len(w) == 3 and w[0] in "aA" and w[1] in "nN" and w[2] in "dD"


def ref_split(s):
    """word-level reference: a word 'and' closes the current piece iff the piece is non-empty and a further word follows"""
    s = s.strip(WS4)
    if not s:
        return []
    ws = top_words(s)
    pieces = []
    cur = []
    for k, (a, b) in enumerate(ws):
        if is_and(s[a:b]) and cur and k + 1 < len(ws):
            pieces.append(s[cur[0][0]:cur[-1][1]])
            cur = []
        else:
            cur.append((a, b))
    if cur:
        pieces.append(s[cur[0][0]:cur[-1][1]])
    return pieces


def conserved(s, pieces):
    """stripped text = p1 sep p2 sep ... pn with every sep = ws+ 'and' ws+ ; pieces non-empty"""
    t = s.strip(WS4)
    if not t:
        return pieces == []
    if not pieces or any((not isinstance(p, str)) or p == "" for p in pieces):
        return False
    i = 0
    for k, p in enumerate(pieces):
        if not t.startswith(p, i):
            return False
        i += len(p)
        if k + 1 < len(pieces):
            j = i
            while j < len(t) and t[j] in WS4:
                j += 1
            if j == i or not is_and(t[j:j + 3]):
                return False
            j += 3
            k2 = j
            while k2 < len(t) and t[k2] in WS4:
                k2 += 1
            if k2 == j:
                return False
            i = k2
    return i == len(t)


# ------------------------------------------------------------------ C13: BibTeX's name algorithm, compositionally
def atoms(s):
    """escape pairs and single characters; a backslash before whitespace or at the end is an ordinary character"""
    out = []
    i = 0
    n = len(s)
    while i < n:
        c = s[i]
        if c == "\\" and i + 1 < n and s[i + 1] not in WS5:
            out.append(s[i:i + 2])
            i += 2
        else:
            out.append(c)
            i += 1
    return out


def atoms_balanced(a):
    d = 0
    for x in a:
        if x == "{":
            d += 1
        elif x == "}":
            d -= 1
            if d < 0:
                return False
    return d == 0


def cut(a, seps):
    """cut an atom list at the separator characters of brace depth 0"""
    out = [[]]
    d = 0
    for x in a:
        if x == "{":
            d += 1
        elif x == "}":
            d = max(0, d - 1)
        elif d == 0 and len(x) == 1 and x in seps:
            out.append([])
            continue
        out[-1].append(x)
    return out


UPPER, LOWER, CASELESS = 1, 0, -1


def word_case(w):
    """the case of a word (list of atoms): the first letter that counts.
    depth 0: any letter; the letter of an escape pair counts at any depth, except for the pair directly after an
    opening brace, which opens a special character {\\cmd ...}: in it, after the control word, the first letter counts;
    letters in ordinary groups do not count."""
    mode = "top"
    d = 0
    for x in w:
        if x == "{":
            d += 1
            mode = "start"
            continue
        if x == "}":
            d = max(0, d - 1)
            mode = "top" if d == 0 else "group"
            continue
        if len(x) == 2:
            c = x[1]
            if mode == "start":
                mode = "ctrl" if c.isalpha() else "special"
            elif c.isalpha():
                return UPPER if c.isupper() else LOWER
            continue
        c = x
        if mode in ("top", "special"):
            if c.isalpha():
                return UPPER if c.isupper() else LOWER
        elif mode == "start":
            mode = "group"
        elif mode == "ctrl":
            if not c.isalpha():
                mode = "special"
    return CASELESS


def spec_parse(name):
    """None for an invalid name, else dict first/von/last/jr"""
    a = atoms(name)
    if not atoms_balanced(a):
        return None
    secs_a = cut(a, ",")
    if len(secs_a) > 3:
        return None
    secs = [[("".join(w), word_case(w)) for w in cut(sec, WS5) if w] for sec in secs_a]
    if len(secs) > 1 and not secs[-1]:
        return None
    res = {"first": [], "von": [], "last": [], "jr": []}
    if not any(secs):
        return res

    def von_end(sec):
        k = 0
        for i, (_, cs) in enumerate(sec[:-1]):
            if cs == LOWER:
                k = i + 1
        return k
    ws = lambda l: [x for x, _ in l]
    if len(secs) == 1:
        sec = secs[0]
        n = len(sec)
        if n == 1:
            res["last"] = ws(sec)
        elif n == 2:
            res["first"], res["last"] = ws(sec[:1]), ws(sec[1:])
        else:
            f = 0
            while f < n - 1 and sec[f][1] != LOWER:
                f += 1
            k = max(f, von_end(sec))
            res["first"], res["von"], res["last"] = ws(sec[:f]), ws(sec[f:k]), ws(sec[k:])
    else:
        k = von_end(secs[0])
        res["von"], res["last"] = ws(secs[0][:k]), ws(secs[0][k:])
        res["first"] = ws(secs[-1])
        if len(secs) == 3:
            res["jr"] = ws(secs[1])
    return res


def top_words5(name):
    """per comma section, the top-level words of a name (source order)"""
    return [["".join(w) for w in cut(sec, WS5) if w] for sec in cut(atoms(name), ",")]


# ------------------------------------------------------------------ C14
def ends_odd_backslash(w):
    return (len(w) - len(w.rstrip("\\"))) % 2 == 1


def parts_dict(p):
    return {"first": list(p.first), "von": list(p.von), "last": list(p.last), "jr": list(p.jr)}


def all_words(d):
    return d["first"] + d["von"] + d["last"] + d["jr"]


def in_k3(dicts):
    """Known finding K3, as narrowly as it can be told from the input: some top-level word of some name is `and` (any case)
    AND, read by the word-level REFERENCE splitter (ref_split, the specification of C12), the last-name-first texts of the
    persons joined by ` and ` do not split back into those texts one by one.  `And One` (-> `One, And`: the word ends the
    field) or `{Aa and,}`-like cases where no separator arises are NOT in the class, so a change that breaks them is
    reported (seeding round 9, C14-i).  When the reference cannot read the merged text (unbalanced braces), the word test
    alone decides, as before."""
    if not any(is_and(w) for d in dicts for w in all_words(d)):
        return False
    try:
        merged = []
        for d in dicts:
            vl = " ".join(d["von"] + d["last"])
            merged.append(", ".join(x for x in [vl, " ".join(d["jr"]), " ".join(d["first"])] if x))
        text = " and ".join(merged)
        if not balanced(text):
            return True
        return ref_split(text) != merged
    except Exception:  # noqa: BLE001
        return True


# ------------------------------------------------------------------ token sequences
def token_sequences(tokens, max_full, sample_len, n_sample, rng):
    """all sequences of length <= max_full, plus n_sample random ones for each length in sample_len"""
    for L in range(0, max_full + 1):
        for seq in itertools.product(tokens, repeat=L):
            yield "".join(seq)
    for L in sample_len:
        for _ in range(n_sample):
            yield "".join(rng.choice(tokens) for _ in range(L))


# ------------------------------------------------------------------ the repository's corpus
def load_repo_corpus(repo):
    """(regular, strict) from tests/middleware_tests/test_names.py, read with ast (no import of pytest):
    regular = [(name, {first,von,last,jr})], strict = [(name, reason)]"""
    path = os.path.join(repo, "tests", "middleware_tests", "test_names.py")
    tree = ast.parse(open(path, encoding="utf-8").read())
    regular, strict, coauthors = [], [], []
    for node in tree.body:
        if isinstance(node, ast.Assign) and any(isinstance(t, ast.Name) and t.id == "REGULAR_NAME_PARTS_PARSING_TEST_CASES"
                                                for t in node.targets):
            regular = [tuple(x) for x in ast.literal_eval(node.value)]
        if isinstance(node, ast.FunctionDef) and node.name in ("test_name_splitting_strict_mode",
                                                                "test_split_coauthors_consistent_with_bibtex"):
            for dec in node.decorator_list:
                if isinstance(dec, ast.Call) and len(dec.args) == 2:
                    try:
                        vals = ast.literal_eval(dec.args[1])
                    except ValueError:
                        continue
                    if node.name == "test_name_splitting_strict_mode":
                        strict = [tuple(x) for x in vals]
                    else:
                        coauthors = [tuple(x) for x in vals]
    return regular, strict, coauthors
