"""C11 - @string references resolve exactly: bare matching identifiers only (middleware level; the default-parse
framing is checked by the Python oracle through the real parse_string)."""
import json

from props import c11_names, c11_reserved

ENGINE = "interpolate"
RULE = ("documents generated as text from a spec: 0-4 @string definitions (before / after / duplicated / absent; values "
        "quoted, braced, bare number, another key, concatenation, nothing at all / blanks after the `=`, i.e. the empty content) "
        "and 1-3 entries (occasionally a duplicate entry key, a "
        "duplicate field name, a malformed block) whose field values are drawn from {bare defined key, bare undefined key, "
        "'{key}', '\"key\"', other-case key, 'key # key', numbers, braced text}; split with parse_stack=[], then three "
        "operations: resolve alone, default stack (real parse_string), swapped order; plus a two-call stream (oracle only): "
        "some of the @string definitions are parsed by a first default parse_string call and the rest of the document by a second "
        "parse_string(..., library=first) call, so that references are resolved against strings whose enclosing was already "
        "removed. Source layout: about half of the documents (and every document of the bounded `layout` grid: keyword spelling x "
        "gap before the `{` of the @string x gap before the `{` of the entry) carry a per-block layout instead of one of the four "
        "fixed styles: the keyword in any letter case, blanks / tabs between `@type` and `{` (for @string, entries, @comment and "
        "@preamble alike), and independent whitespace (nothing, blanks, tabs, LF, CRLF, CR, form feed, vertical tab, U+0085, "
        "U+00A0, U+2028, blank lines) before and after every key, `=`, value, `,` and before the closing `}`, with or without a "
        "trailing comma, entries without fields included; the oracle expectation depends on the spec only, never on the layout. "
        "Alphabet of names (c11_names.py): the @string names and the values referring to them are drawn from every class of "
        "kchar of the dialect (any non-whitespace character that is no active delimiter; without `#`, finding K8, and `@`): ASCII "
        "punctuation - : . + / * ! ? & ' ( ) [ ] ; < > | ^ ~ ` $ % _, a backslash, delimiters made inactive by a backslash, digits in "
        "first position and names of digits only, letters and digits outside ASCII (special casing, compatibility forms, "
        "non-decimal digits and numerics, supplementary plane), combining marks and invisible format characters, symbols, "
        "look-alikes of the delimiters, non-whitespace control characters; stream `alphabet`: the documents above over a pool "
        "made of such a name and 1-3 siblings differing from it only in such characters (character dropped / replaced, NFC / "
        "NFD / NFKC / NFKD, letter case, one more combining mark, other digits), some defined, some not, all three operations "
        "and the two-call stream; stream `alphabet-sweep`, bounded: EVERY unit of every class x position in the name (first / "
        "inner / last / the whole name), the name referenced bare, enclosed and concatenated next to a bare sibling, with the name, "
        "the sibling, both, none or the name twice defined before / after / around the entry (default stack; thorough: resolve "
        "alone too). A bare value naming an @string is expected to resolve whatever its characters (pure digits included, as "
        "in C11_doc_fields'). "
        "Stream `copy-placement` (after all the others): the default parse stack AND ITS PARTS IN COPY MODE x the PLACEMENT of the "
        "definition. Documents: one name referenced bare by 2-4 entries (next to enclosed / concatenated / other-case / undefined "
        "look-alikes and a second name placed at random), its @string definition before all uses / after all uses / before and "
        "after (duplicated with another content, the first wins) / twice after / between two uses / never, with or without "
        "failed or foreign blocks (unterminated entry, @string without `=`, entry with a duplicated key, entry with a duplicated "
        "field name, comments, preamble) standing between the definition and the uses; a bounded grid (every placement x with / "
        "without separators, each parsed with EVERY stack below) and a random part (each document parsed with the first and the "
        "last-but-one stack below and four of the others), names from the plain pool or from the alphabet. Stacks: parse_stack=default_parse_stack(allow_inplace_modification=False), default_parse_stack(True), "
        "[Resolve(False), RemoveEnclosing(True)], [Resolve(False), RemoveEnclosing(False)], [Resolve(True), RemoveEnclosing(False)], "
        "append_middleware=[NormalizeFieldKeys(True / False)], [a caller's identity BlockMiddleware in copy mode], [a caller's "
        "LibraryMiddleware returning a deep copy] after the default stack (all judged by the default-parsing oracle and compared "
        "with model operation 111), parse_stack=[Resolve(False)] and Resolve(False).transform(split library) (judged by the same "
        "oracle without the enclosing removal: a resolved field holds the @string's source value, every other field its own, "
        "resolved keys recorded, strings as split; compared with model operation 110). "
        "Stream `reserved-names` (after all the others): RESERVED AND MAGIC NAMES AS ORDINARY DATA (c11_reserved.py). The names the "
        "dict-style interface of an entry reserves (`ENTRYTYPE`, `ID`: whatever Entry.items() of the tree under test puts in front "
        "of the fields), their other-case spellings and the magic words of selfref.magic_for_tree() read from the tree under "
        "test (attribute names of the model classes, metadata keys of every shipped middleware, block words, Python words, numbers, "
        "bibliographic names) stand as FIELD NAMES, ENTRY KEYS, ENTRY TYPES, @STRING NAMES and bare VALUES. Bounded grid, one "
        "document per word w: @string w defined (alone / next to another word / twice, sometimes an @string named like the "
        "entry type, contents also a bare or enclosed other name), four entries each with a field NAMED w holding a bare "
        "reference to a defined @string / an enclosed look-alike or text / a concatenation / an undefined or other-case name "
        "(plus fields named by reserved names and other words, keys `eN` or words), and one entry whose KEY is w (a defined "
        "@string name) and whose TYPE is w or another defined @string name, with every reserved name as a field holding an "
        "enclosed value / a concatenation / an undefined name / a bare reference, next to an ordinary field referring to w; "
        "default parse plus one copy-mode stack (thorough: resolve alone too). Random part: 1-4 definitions, 1-3 entries, names, "
        "keys, types and values drawn from the same pools (reserved names weighted), all three operations, the two-call stream "
        "and two of the stacks above (those that keep field names as written). Every field is judged by its own source value "
        "only (the same oracle as everywhere else; model operations 110 / 111 / 112 as for the other streams). "
        "distinct = distinct (text, operation[, stack]); "
        "non-trivial = some field value is a bare identifier or an enclosed look-alike of a defined key")
TRUSTED = ["the splitter is not modelled in this engine: the model starts from the split library, the Python oracle checks "
           "the property on parse_string(text) with the default stack against the document spec"]
ASSUMPTIONS = ["dict preserves insertion order; str equality is code-point list equality"]

SKEYS = ["abc", "Abc", "ABC", "jan", "x1", "clé"]
STRING_SRCS = ['"Value A"', "{Value {B}}", "1234", "abc", '"p" # abc', '"{q}"', "{}", '""', '"a" # "b"', "{x} # {y}", "{ sp }",
               "", " ", '"0"', "{ }"]            # nothing after the `=`: the content is the empty string
FNAMES = ["title", "author", "journal", "month", "year", "note"]
# source layout (the dialect: only blanks and tabs may stand between `@type` and `{`; keys and values are stripped of any
# whitespace, line breaks included)
STRING_WORDS = ["@string", "@String", "@STRING", "@sTRing"]
GAPS = ["", " ", "  ", "\t", " \t", "\t ", "      ", "\t\t"]
WS = ["", "", "", " ", " ", " ", "  ", "\t", "\n", "\n  ", "\n\t", "\r\n", " \n ", "\n\n", "\r", "\f", "\v", "\u00a0", "\u0085", "\u2028",
      " \t \n"]
RAW_TEXTS = ["@comment{abc}", "abc", "@article{bad, title = abc", "@preamble{abc}", "% abc = x",
             "@comment {abc}", "@Comment\t{abc = x}", "@preamble {abc}", "@PREAMBLE \t{\"abc\" # abc}", "@string {abc}", "@ {abc, title = abc}"]


def ws(rng):
    return rng.choice(WS)


def string_layout(rng, word=None, gap=None):
    return {"word": rng.choice(STRING_WORDS) if word is None else word, "gap": rng.choice(GAPS) if gap is None else gap,
            "k0": ws(rng), "k1": ws(rng), "v0": ws(rng), "v1": ws(rng)}


def entry_layout(rng, nfields, gap=None):
    return {"gap": rng.choice(GAPS) if gap is None else gap, "k0": ws(rng), "k1": ws(rng),
            "f": [[ws(rng), ws(rng), ws(rng), ws(rng)] for _ in range(nfields)],
            "comma": rng.random() < 0.5,          # a comma after the last field (after the key, when there are no fields)
            "c1": ws(rng), "end": ws(rng)}


def add_layout(doc, rng):
    """give every @string and entry of the document its own source layout"""
    for it in doc["items"]:
        if it["t"] == "string":
            it["lay"] = string_layout(rng)
        elif it["t"] == "entry":
            it["lay"] = entry_layout(rng, len(it["fields"]))
    return doc


def gen_doc(rng, skeys=None):
    SKEYS = skeys or globals()["SKEYS"]
    nstr = rng.choice([0, 1, 1, 2, 2, 3, 4])
    defined = [rng.choice(SKEYS) for _ in range(nstr)]           # may repeat: duplicated definitions
    strings = [{"t": "string", "key": k, "src": rng.choice(STRING_SRCS)} for k in defined]
    ents = []
    nent = rng.choice([1, 1, 2, 3])
    ekeys = []
    for i in range(nent):
        if ekeys and rng.random() < 0.12:
            key = rng.choice(ekeys)                               # duplicate entry key
        else:
            key = "e%d" % i
        ekeys.append(key)
        nf = rng.choice([1, 2, 2, 3] * 4 + [0])                 # no fields at all: `@article{key}` / `@article{key,}`
        names = rng.sample(FNAMES, nf)
        if nf >= 2 and rng.random() < 0.06:
            names[1] = names[0]                                   # duplicate field name -> DuplicateFieldKeyBlock
        fields = []
        for n in names:
            k = rng.choice(defined) if defined and rng.random() < 0.7 else rng.choice(SKEYS)
            kind = rng.choice(["bare", "bare", "bare", "braced", "quoted", "case", "concat", "number", "text", "undef", "spaced"])
            if kind == "bare":
                src = k
            elif kind == "braced":
                src = "{%s}" % k
            elif kind == "quoted":
                src = '"%s"' % k
            elif kind == "case":
                src = k.swapcase()
            elif kind == "concat":
                src = "%s # %s" % (k, rng.choice(SKEYS + ['"lit"', "{lit}"]))
            elif kind == "number":
                src = rng.choice(["1990", "12", "0"])
            elif kind == "text":
                src = rng.choice(["{Some {T}itle}", '"Q text"', "{%s} # %s" % (k, k), '"%s" # "%s"' % (k, k), "{{%s}}" % k])
            elif kind == "undef":
                src = rng.choice(["undefinedkey", "zz", k + "x"])
            else:
                src = k
            fields.append([n, src])
        ents.append({"t": "entry", "type": rng.choice(["article", "Book"]), "key": key, "fields": fields})
    # placement of the definitions
    items = []
    place = rng.choice(["before", "after", "mixed", "mixed"])
    if place == "before":
        items = strings + ents
    elif place == "after":
        items = ents + strings
    else:
        items = strings + ents
        rng.shuffle(items)
    if rng.random() < 0.15:
        items.insert(rng.randint(0, len(items)), {"t": "raw", "text": rng.choice(RAW_TEXTS)})
    # two-call stream: the definitions marked "early" are parsed by a first parse_string call, everything else by a second
    # call on the library of the first (the mark is ignored by the single-call operations)
    for it in strings:
        if rng.random() < 0.6:
            it["early"] = True
    doc = {"items": items, "style": rng.randint(0, 3)}
    if rng.random() < 0.5:
        add_layout(doc, rng)
    return doc


def grid_docs(rng):
    """bounded grid: every keyword spelling x gap before the `{` of the @string x gap before the `{` of the entry, the rest of
    the layout and the small document around it drawn at random"""
    for word in STRING_WORDS:
        for sgap in GAPS:
            for egap in GAPS:
                k, other = rng.sample(SKEYS, 2)
                strings = [{"t": "string", "key": k, "src": rng.choice(STRING_SRCS), "lay": string_layout(rng, word, sgap)}]
                if rng.random() < 0.3:
                    strings.append({"t": "string", "key": rng.choice([k, other]), "src": rng.choice(STRING_SRCS),
                                    "lay": string_layout(rng)})
                names = rng.sample(FNAMES, rng.choice([0, 1, 2, 3, 3]))
                srcs = [k, "{%s}" % k, '"%s"' % k, k.swapcase(), "%s # %s" % (k, k), other, "12"]
                fields = [[n, k if i == 0 else rng.choice(srcs)] for i, n in enumerate(names)]
                ent = {"t": "entry", "type": rng.choice(["article", "Book", "MISC"]), "key": rng.choice(["e0", "a:b", "k-1"]),
                       "fields": fields, "lay": entry_layout(rng, len(fields), egap)}
                items = strings + [ent] if rng.random() < 0.5 else [ent] + strings
                yield {"items": items, "style": rng.randint(0, 3)}


def alphabet_doc(rng):
    """a document of gen_doc over a pool of names of one class of the alphabet and their siblings"""
    pool = c11_names.gen_pool(rng)
    doc = gen_doc(rng, pool)
    doc["alpha"] = {"pool": pool}
    return doc


def sweep_docs(rng):
    """bounded sweep: every unit of every class of the alphabet x its position in the name; the name is ALWAYS defined
    (alone, next to a sibling with another content, or twice) and referenced bare, enclosed and concatenated, the sibling
    bare; then every unit that has another Unicode normalisation form, once per form: the equivalent name is the sibling
    and either both are defined (with different contents) or the sibling alone (the name must then keep its own text)"""
    todo = [(lab, unit, pos, None) for lab, unit, pos in c11_names.sweep_units()]
    todo += list(c11_names.equivalence_units(rng))
    for lab, unit, pos, equiv in todo:
        name = c11_names.place(unit, pos)
        if equiv is None:
            sibs = c11_names.siblings(name, rng)
            sib = rng.choice(sibs) if sibs else name + "x"
            how = rng.choice(["name", "name", "name", "both", "both", "both", "twice"])
        else:
            sib = equiv
            how = rng.choice(["both", "sib"])
            pos = "equivalent"
        c1, c2 = rng.sample(STRING_SRCS[:4] + STRING_SRCS[5:6], 2)          # two different contents
        strings = {"name": [(name, c1)], "both": [(name, c1), (sib, c2)], "sib": [(sib, c2)], "none": [],
                   "twice": [(name, c1), (name, c2)]}[how]
        if how == "both" and rng.random() < 0.5:
            strings.reverse()
        strings = [{"t": "string", "key": k, "src": v} for k, v in strings]
        others = ["{%s}" % name, '"%s"' % name, "%s # %s" % (name, name), '%s # "lit"' % name, "{%s} # %s" % (sib, name),
                  name.swapcase(), name + "x", "x" + name, "{{%s}}" % name, "12", '"%s" # "%s"' % (name, sib)]
        srcs = [name, sib] + rng.sample(others, 4)
        if rng.random() < 0.5:
            srcs[0], srcs[1] = srcs[1], srcs[0]
        ent = {"t": "entry", "type": rng.choice(["article", "Book"]), "key": "e0", "fields": [[n, v] for n, v in zip(FNAMES, srcs)]}
        cut = rng.randint(0, len(strings))
        items = strings[:cut] + [ent] + strings[cut:]
        if rng.random() < 0.2:
            items.append({"t": "entry", "type": "misc", "key": "e1", "fields": [["note", name]]})     # a second reference, after everything
        doc = {"items": items, "style": rng.randint(0, 3), "alpha": {"pool": [name, sib], "sweep": [lab, pos, how]}}
        if rng.random() < 0.5:
            add_layout(doc, rng)
        yield doc


# ---------------------------------------------------------------- copy mode x placement of the definition
PLACEMENTS = ["before", "after", "both", "twice-after", "twice-before", "between", "never"]
STACKS = [("dflt-copy", 111), ("dflt-inplace", 111), ("copy+remove-inplace", 111), ("copy+remove-copy", 111),
          ("inplace+remove-copy", 111), ("append-normalize-inplace", 111), ("append-normalize-copy", 111),
          ("append-user-block-copy", 111), ("append-user-library-copy", 111), ("resolve-copy", 110), ("resolve-copy-transform", 110)]
STACK_OP = dict(STACKS)
CONTENTS = ['"Value A"', "{Value {B}}", "1234", '"{q}"', "{ sp }", '"p" # "q"', "{}", '"0"']


def look_alike(rng, k, k2):
    kind = rng.choice(["braced", "quoted", "case", "concat", "number", "text", "undef", "other", "other"])
    if kind == "braced":
        return "{%s}" % k
    if kind == "quoted":
        return '"%s"' % k
    if kind == "case":
        return k.swapcase()
    if kind == "concat":
        return rng.choice(["%s # %s" % (k, k2), '%s # "lit"' % k, "{lit} # %s" % k, "%s # %s" % (k, k)])
    if kind == "number":
        return rng.choice(["1990", "12", "0"])
    if kind == "text":
        return rng.choice(["{Some {T}itle}", '"Q text"', "{{%s}}" % k, '"%s" # "%s"' % (k, k2)])
    if kind == "undef":
        return rng.choice(["undefinedkey", k + "x", "x" + k])
    return k2


def separator(rng, k, plain, ekeys, counter):
    """a block that is no definition and no live use: failed blocks of every kind, comments, a preamble"""
    kind = rng.choice(["unterminated", "string-no-eq", "dup-key", "dup-field", "dup-field", "foreign"])
    if kind == "dup-key" and not ekeys:
        kind = "unterminated"
    if kind == "unterminated":
        return {"t": "raw", "text": "@article{bad%d, title = %s" % (counter, k if plain else "abc")}
    if kind == "string-no-eq":
        return {"t": "raw", "text": rng.choice(["@string{%s}", "@string {%s}", "@STRING{%s }"]) % (k if plain else "abc")}
    if kind == "dup-key":
        return {"t": "entry", "type": "misc", "key": rng.choice(ekeys), "fields": [["note", k], ["title", "{%s}" % k]][:rng.choice([1, 2])]}
    if kind == "dup-field":
        n = rng.choice(FNAMES)
        return {"t": "entry", "type": "misc", "key": "df%d" % counter, "fields": [[n, k], [n, rng.choice([k, "{x}", "12"])]]}
    return {"t": "raw", "text": rng.choice(RAW_TEXTS)}


def placement_doc(rng, place=None, sep=None):
    """one name `k` referenced bare by several entries x where its @string stands x what stands between them"""
    plain = rng.random() < 0.75
    pool = list(SKEYS) if plain else c11_names.gen_pool(rng)
    k = rng.choice(pool)
    rest = [x for x in pool if x != k]
    k2 = rng.choice(rest) if rest else k + "x"
    place = place or rng.choice(PLACEMENTS)
    sep = (rng.random() < 0.5) if sep is None else sep
    nuse = rng.choice([2, 2, 3, 4])
    uses = []
    for i in range(nuse):
        names = rng.sample(FNAMES, rng.choice([1, 2, 2, 3]))
        fields = [[n, look_alike(rng, k, k2)] for n in names]
        if i < 2 or rng.random() < 0.7:
            fields[rng.randrange(len(fields))][1] = k                 # several entries refer to the same name
        uses.append({"t": "entry", "type": rng.choice(["article", "Book"]), "key": "e%d" % i, "fields": fields})
    c1, c2 = rng.sample(CONTENTS, 2)
    d1, d2 = {"t": "string", "key": k, "src": c1}, {"t": "string", "key": k, "src": c2}
    cut = rng.randint(1, nuse - 1)
    layouts = {"before": ([d1], [], []), "after": ([], [], [d1]), "both": ([d1], [], [d2]), "twice-after": ([], [], [d1, d2]),
               "twice-before": ([d1, d2], [], []), "between": ([], [d1], []), "never": ([], [], [])}
    head, mid, tail = layouts[place]
    groups = [head, uses[:cut], mid, uses[cut:], tail]
    if sep:
        # failed / foreign blocks on the boundaries between definitions and uses (for `never`: between the uses)
        nsep = 0
        out = []
        for gi, g in enumerate(groups):
            out.extend(g)
            if gi < len(groups) - 1 and (g or gi == 1) and rng.random() < 0.8:
                ekeys = [it["key"] for it in out if it["t"] == "entry" and it["key"].startswith("e")]
                for _ in range(rng.choice([1, 1, 2])):
                    out.append(separator(rng, k, plain, ekeys, nsep))
                    nsep += 1
        items = out
    else:
        items = [it for g in groups for it in g]
    # the second name: defined nowhere, somewhere, or twice
    for _ in range(rng.choice([0, 1, 1, 2])):
        items.insert(rng.randint(0, len(items)), {"t": "string", "key": k2, "src": rng.choice(STRING_SRCS)})
    doc = {"items": items, "style": rng.randint(0, 3), "cls": {"place": place, "sep": bool(sep), "uses": nuse}}
    if not plain:
        doc["alpha"] = {"pool": pool}
    if rng.random() < 0.4:
        add_layout(doc, rng)
    return doc


def placement_cases(rng, tier):
    """bounded grid: every placement x with / without separators x EVERY stack; random part: every document with the two
    central copy-mode stacks (whole default stack, resolution alone) and four of the nine others"""
    names = [st for st, _ in STACKS]
    for place in PLACEMENTS:
        for sep in (False, True):
            doc = placement_doc(rng, place, sep)
            for stack in names:
                yield {"stream": "copy-placement", "input": {"doc": doc, "op": 114, "stack": stack}}
    central = ["dflt-copy", "resolve-copy"]
    others = [st for st in names if st not in central]
    for _ in range(100 if tier == "quick" else 3000):
        doc = placement_doc(rng)
        for stack in central + rng.sample(others, 4):
            yield {"stream": "copy-placement", "input": {"doc": doc, "op": 114, "stack": stack}}


# ---------------------------------------------------------------- reserved and magic names as ordinary data
RSV_STACKS = [st for st, _ in STACKS if "normalize" not in st]          # stacks that keep the field names as written
RSV_KINDS = ["bare-defined", "bare-defined", "braced", "quoted", "concat", "undefined", "other-case", "text", "number"]
RSV_ENCLOSED = ["braced", "quoted", "text"]


def rsv_value(rng, kind, defined, words):
    """a source value of the given kind about one of the defined names (about any word when nothing is defined)"""
    k = rng.choice(defined) if defined else rng.choice(words)
    k2 = rng.choice(defined + words[:12])
    if kind == "bare-defined":
        return k
    if kind == "braced":
        return "{%s}" % k
    if kind == "quoted":
        return '"%s"' % k
    if kind == "concat":
        return rng.choice(["%s # %s" % (k, k2), '%s # "lit"' % k, "{lit} # %s" % k, "%s # %s" % (k, k), '"%s" # "%s"' % (k, k2)])
    if kind == "undefined":
        free = [x for x in words if x not in defined]
        return rng.choice([rng.choice(free) if free else k + "x", k + "x", "x" + k, "undefinedkey"])
    if kind == "other-case":
        vs = [v for v in c11_reserved.case_variants(k) if v not in defined]
        return rng.choice(vs) if vs else k + "X"
    if kind == "text":
        return rng.choice(["{X-123}", '"preprint"', "{{%s}}" % k, "{Some {T}itle}", "{%s %s}" % (k, k2), "{}", '""'])
    return rng.choice(["1990", "12", "0"])


def rsv_name(rng, R, taken):
    """a field name: a reserved name, one of its other-case spellings, a magic word, now and then an ordinary name"""
    other = [w for w in R["words"] if R["cat"][w] == "v1-shim-name-other-case"]
    for _ in range(20):
        r = rng.random()
        if r < 0.35:
            n = rng.choice(R["shim"])
        elif r < 0.5 and other:
            n = rng.choice(other)
        elif r < 0.9:
            n = rng.choice(R["words"])
        else:
            n = rng.choice(FNAMES)
        if n not in taken:
            return n
    return "f%d" % len(taken)


def rsv_type(rng, name):
    """the entry type `name` as written in the source (the splitter lower-cases it)"""
    return rng.choice([name, name, name.upper(), name.title()])


def rsv_finish(rng, strings, ents, R, part, word=None, early=False):
    how = rng.choice(["before", "after", "around", "mixed"])
    if how == "before":
        items = strings + ents
    elif how == "after":
        items = ents + strings
    elif how == "around":
        cut = rng.randint(0, len(strings))
        items = strings[:cut] + ents + strings[cut:]
    else:
        items = strings + ents
        rng.shuffle(items)
    if rng.random() < 0.1:
        items.insert(rng.randint(0, len(items)), {"t": "raw", "text": rng.choice(RAW_TEXTS)})
    if early:
        for it in strings:
            if rng.random() < 0.5:
                it["early"] = True
    used = set()
    for it in items:
        if it["t"] == "string":
            used.add(it["key"])
        elif it["t"] == "entry":
            used.update([it["key"], it["type"].lower()] + [n for n, _ in it["fields"]])
    rs = {"part": part, "shim": list(R["shim"]), "cat": {w: R["cat"][w] for w in sorted(used) if w in R["cat"]}}
    if word is not None:
        rs["word"] = word
    doc = {"items": items, "style": rng.randint(0, 3), "rsv": rs}
    if rng.random() < 0.4:
        add_layout(doc, rng)
    return doc


def reserved_grid_doc(rng, R, w):
    """the word w as @string name, as field name (four entries: one per kind of value) and as entry key / type (one entry
    with every reserved name as a field)"""
    words, shim = R["words"], R["shim"]
    o = rng.choice([x for x in words if x.casefold() != w.casefold()])
    c = rng.sample(CONTENTS + [o, "{%s}" % w, '"%s"' % o], 3)
    defs = [(w, c[0])]
    how = rng.choice(["w", "w", "both", "both", "twice"])
    if how == "both":
        defs.append((o, c[1]))
    elif how == "twice":
        defs.append((w, c[1]))
    type_b = w.lower() if c11_reserved.usable_type(w) else rng.choice(["article", "book", "misc"])
    if type_b != w and rng.random() < 0.6:
        defs.append((type_b, c[2]))                       # the TYPE of the last entry is a defined @string name, too
    if how != "twice":
        rng.shuffle(defs)
    defined = [k for k, _ in defs]
    strings = [{"t": "string", "key": k, "src": v} for k, v in defs]
    principal = ["bare-defined", rng.choice(RSV_ENCLOSED), "concat", rng.choice(["undefined", "other-case"])]
    rng.shuffle(principal)
    free_keys = [x for x in words if x != w]
    rng.shuffle(free_keys)
    ents = []
    for i, kind in enumerate(principal):
        fields = [[w, rsv_value(rng, kind, defined, words)]]
        taken = {w}
        for _ in range(rng.choice([0, 1, 1, 2])):
            n = rsv_name(rng, R, taken)
            taken.add(n)
            fields.append([n, rsv_value(rng, rng.choice(RSV_KINDS), defined, words)])
        rng.shuffle(fields)
        key = "e%d" % i if rng.random() < 0.5 else free_keys.pop()
        ents.append({"t": "entry", "type": rng.choice(["article", "Book", "misc"]), "key": key, "fields": fields})
    fields = []
    for r in rng.sample(shim, len(shim)):
        kind = rng.choice(["braced", "quoted", "text", "text", "concat", "undefined", "bare-defined", "other-case"])
        fields.append([r, rsv_value(rng, kind, defined, words)])
    plain = [n for n in FNAMES if n not in shim]
    fields.insert(rng.randint(0, len(fields)), [rng.choice(plain), w])
    ents.append({"t": "entry", "type": rsv_type(rng, type_b), "key": w, "fields": fields})
    rng.shuffle(ents)
    return rsv_finish(rng, strings, ents, R, "grid", word=w)


def reserved_doc(rng, R):
    """random part: names, keys, types and values from the reserved names and the magic words"""
    words, shim = R["words"], R["shim"]
    nstr = rng.choice([1, 1, 2, 2, 3, 4])
    defined = []
    for _ in range(nstr):
        r = rng.random()
        defined.append(rng.choice(shim) if r < 0.15 else rng.choice(defined) if defined and r < 0.25 else rng.choice(words))
    nent = rng.choice([1, 1, 2, 3])
    types = []
    for _ in range(nent):
        r = rng.random()
        usable = [d for d in defined if c11_reserved.usable_type(d) and d == d.lower()]
        if r < 0.25 and usable:
            types.append(rng.choice(usable))                          # the type is a defined @string name
        elif r < 0.45:
            t = rng.choice(["article", "book", "misc"])
            defined.append(t)                                         # ... an ordinary type that an @string is named after
            types.append(t)
        elif r < 0.6:
            types.append(rng.choice([x for x in words if c11_reserved.usable_type(x)]).lower())
        else:
            types.append(rng.choice(["article", "book", "misc"]))
    contents = CONTENTS + STRING_SRCS[:6] + ["{%s}" % rng.choice(words), rng.choice(words)]
    strings = [{"t": "string", "key": k, "src": rng.choice(contents)} for k in defined]
    rng.shuffle(strings)
    keys = set()
    ents = []
    for i in range(nent):
        r = rng.random()
        cands = [d for d in defined if d not in keys]
        if r < 0.4 and cands:
            key = rng.choice(cands)                                   # the key is a defined @string name
        elif r < 0.6:
            key = rng.choice([x for x in words if x not in keys])
        else:
            key = "e%d" % i
        keys.add(key)
        taken = set()
        fields = []
        for _ in range(rng.choice([1, 2, 2, 3, 3, 4])):
            n = rsv_name(rng, R, taken)
            taken.add(n)
            fields.append([n, rsv_value(rng, rng.choice(RSV_KINDS), defined, words)])
        ents.append({"t": "entry", "type": rsv_type(rng, types[i]), "key": key, "fields": fields})
    return rsv_finish(rng, strings, ents, R, "random", early=True)


def reserved_cases(rng, tier):
    R = c11_reserved.words_for_tree()
    for w in R["words"]:
        doc = reserved_grid_doc(rng, R, w)
        yield {"stream": "reserved-names", "input": {"doc": doc, "op": 111}}
        if tier != "quick":
            yield {"stream": "reserved-names", "input": {"doc": doc, "op": 110}}
        yield {"stream": "reserved-names", "input": {"doc": doc, "op": 114, "stack": rng.choice(RSV_STACKS)}}
    for _ in range(120 if tier == "quick" else 3000):
        doc = reserved_doc(rng, R)
        for op in (110, 111, 112):
            yield {"stream": "reserved-names", "input": {"doc": doc, "op": op}}
        if any(it["t"] == "string" and it.get("early") for it in doc["items"]):
            yield {"stream": "reserved-names", "input": {"doc": doc, "op": 113}}
        for stack in rng.sample(RSV_STACKS, 2):
            yield {"stream": "reserved-names", "input": {"doc": doc, "op": 114, "stack": stack}}


def value_kind(src, defined):
    """how a source value relates to the defined @string names (for the distribution only)"""
    from props.c10 import outer_pair
    s = src.strip()
    if is_bare_ident(s):
        if s in defined:
            return "bare-defined"
        if s.casefold() in set(d.casefold() for d in defined):
            return "bare-other-case"
        return "number" if s.isdigit() else "bare-undefined"
    op = outer_pair(s)
    if op:
        return "enclosed-look-alike" if op[1] in defined else "enclosed-text"
    return "concatenation" if "#" in s else "other"


def reserved_tags(doc):
    """the distribution of the reserved-names stream, from the document spec"""
    rs = doc.get("rsv")
    if not rs:
        return []
    cat = rs["cat"]
    defined = set(it["key"] for it in doc["items"] if it["t"] == "string")
    tags = {"reserved:part:" + rs["part"]}
    for it in doc["items"]:
        if it["t"] == "string":
            tags.add("reserved:string-name:" + cat.get(it["key"], "plain"))
        if it["t"] != "entry":
            continue
        coincide = []
        if it["key"] in defined:
            coincide.append("key")
            tags.add("reserved:entry-key-is-a-defined-string-name")
        elif it["key"] in cat:
            tags.add("reserved:entry-key:" + cat[it["key"]])
        if it["type"].lower() in defined:
            coincide.append("type")
            tags.add("reserved:entry-type-is-a-defined-string-name")
        elif it["type"].lower() in cat:
            tags.add("reserved:entry-type:" + cat[it["type"].lower()])
        for n, src in it["fields"]:
            c, kind = cat.get(n, "plain"), value_kind(src, defined)
            tags.add("reserved:field-name:" + c)
            tags.add("reserved:value:" + kind)
            if c.startswith("v1-shim-name"):
                tags.add("reserved:%s-field/%s" % (c, kind))
                if coincide:
                    tags.add("reserved:%s-field/%s/entry-%s-is-a-defined-string-name" % (c, kind, "-and-".join(coincide)))
            if n in defined:
                tags.add("reserved:field-name-is-a-defined-string-name/" + kind)
            if n == src.strip():
                tags.add("reserved:field-name-equals-its-bare-value")
    return sorted(tags)


def two_calls(doc):
    """the documents of the two-call stream: (early @string definitions, everything else)"""
    early = [it for it in doc["items"] if it["t"] == "string" and it.get("early")]
    rest = [it for it in doc["items"] if not (it["t"] == "string" and it.get("early"))]
    return dict(doc, items=early), dict(doc, items=rest)


def render(doc):
    st = doc["style"]
    out = []
    for it in doc["items"]:
        lay = it.get("lay")
        if it["t"] == "string" and lay:
            out.append("%s%s{%s%s%s=%s%s%s}" % (lay["word"], lay["gap"], lay["k0"], it["key"], lay["k1"], lay["v0"], it["src"], lay["v1"]))
        elif it["t"] == "entry" and lay:
            body = ",".join("%s%s%s=%s%s%s" % (a, n, b, c, src, d) for (n, src), (a, b, c, d) in zip(it["fields"], lay["f"]))
            if it["fields"]:
                body = "," + body
            out.append("@%s%s{%s%s%s%s%s%s}" % (it["type"], lay["gap"], lay["k0"], it["key"], lay["k1"], body,
                                                 "," + lay["c1"] if lay["comma"] else "", lay["end"]))
        elif it["t"] == "entry" and not it["fields"]:
            out.append("@%s{%s}" % (it["type"], it["key"]))
        elif it["t"] == "string":
            out.append(["@string{%s = %s}", "@STRING{ %s=%s }", "@String{%s =  %s}", "@string{%s = %s}"][st] % (it["key"], it["src"]))
        elif it["t"] == "entry":
            sep = [",\n  ", ", ", ",\n\t", ",\n"][st]
            body = sep.join(["%s = %s" % (n, s) if st != 1 else "%s=%s" % (n, s) for n, s in it["fields"]])
            tail = [",\n}", "}", "\n}", " }"][st]
            out.append("@%s{%s%s%s%s" % (it["type"], it["key"], sep, body, tail))
        else:
            out.append(it["text"])
    return ("\n\n" if st != 1 else "\n").join(out) + "\n"


def generate(rng, tier):
    n = 400 if tier == "quick" else 15000
    cases = []
    for _ in range(n):
        doc = gen_doc(rng)
        for op in (110, 111, 112):
            cases.append({"stream": {110: "resolve", 111: "default", 112: "swapped"}[op], "input": {"doc": doc, "op": op}})
        if any(it["t"] == "string" and it.get("early") for it in doc["items"]):
            cases.append({"stream": "two-call", "input": {"doc": doc, "op": 113}})
    for doc in grid_docs(rng):
        cases.append({"stream": "layout", "input": {"doc": doc, "op": 111}})
        if tier != "quick":
            cases.append({"stream": "layout", "input": {"doc": doc, "op": 110}})
    # the alphabet of names
    for _ in range(150 if tier == "quick" else 4000):
        doc = alphabet_doc(rng)
        for op in (110, 111, 112):
            cases.append({"stream": "alphabet", "input": {"doc": doc, "op": op}})
        if any(it["t"] == "string" and it.get("early") for it in doc["items"]):
            cases.append({"stream": "alphabet", "input": {"doc": doc, "op": 113}})
    for rep in range(1 if tier == "quick" else 4):
        for doc in sweep_docs(rng):
            cases.append({"stream": "alphabet-sweep", "input": {"doc": doc, "op": 111}})
            if tier != "quick":
                cases.append({"stream": "alphabet-sweep", "input": {"doc": doc, "op": 110}})
    # the default stack and its parts in copy mode x placement of the definition (appended: the streams above keep their inputs)
    cases.extend(placement_cases(rng, tier))
    # reserved and magic names as field names, entry keys, entry types, @string names and values (appended, as above)
    cases.extend(reserved_cases(rng, tier))
    return cases


def shrink(case):
    inp = case["input"]
    items = inp["doc"]["items"]
    for i in range(len(items)):
        if len(items) > 1:
            yield {"stream": case["stream"], "input": dict(inp, doc=dict(inp["doc"], items=items[:i] + items[i + 1:]))}
    for i, it in enumerate(items):
        if it["t"] == "entry" and len(it["fields"]) > 1:
            for j in range(len(it["fields"])):
                t = dict(it, fields=it["fields"][:j] + it["fields"][j + 1:])
                if "lay" in it:
                    t["lay"] = dict(it["lay"], f=it["lay"]["f"][:j] + it["lay"]["f"][j + 1:])
                yield {"stream": case["stream"], "input": dict(inp, doc=dict(inp["doc"], items=items[:i] + [t] + items[i + 1:]))}
    # plainer layouts: one whitespace position (or the keyword) at a time
    for i, it in enumerate(items):
        lay = it.get("lay")
        if not lay:
            continue
        plain = []
        for name, v in lay.items():
            if name == "f":
                for j, four in enumerate(v):
                    for q in range(4):
                        if four[q] != "":
                            plain.append(dict(lay, f=v[:j] + [four[:q] + [""] + four[q + 1:]] + v[j + 1:]))
            elif name == "word":
                if v != "@string":
                    plain.append(dict(lay, word="@string"))
            elif name == "comma":
                if v:
                    plain.append(dict(lay, comma=False))
            elif v != "":
                plain.append(dict(lay, **{name: ""}))
                if len(v) > 1:
                    plain.append(dict(lay, **{name: v[0]}))
        for l2 in plain:
            yield {"stream": case["stream"], "input": dict(inp, doc=dict(inp["doc"], items=items[:i] + [dict(it, lay=l2)] + items[i + 1:]))}


# ---------------------------------------------------------------- the property, from the document spec
def content(src):
    """src with one genuine outer pair removed (C10)"""
    from props.c10 import outer_pair
    s = src.strip()
    op = outer_pair(s)
    return op[1] if op else s


def is_bare_ident(src):
    """one bare piece of the dialect: kchar+ without `#` (no whitespace, no active delimiter; a delimiter directly after a
    backslash is not active).  Numbers are bare pieces too: whether one is a reference is decided by the @string names."""
    if src == "":
        return False
    prev_bs = False
    for c in src:
        if c.isspace() or c == "#" or (c in '{}",=' and not prev_bs):
            return False
        prev_bs = c == "\\"
    return True


def alpha_tags(doc, prefix=""):
    """the distribution of the alphabet streams: classes of the names of the pool, how the names are referred to"""
    al = doc.get("alpha")
    if not al:
        return []
    pool = al["pool"]
    tags = set()
    for lab in c11_names.label_of(pool[0]):
        tags.add("names:" + lab)
    if "sweep" in al:
        tags.add("sweep:" + al["sweep"][0])
        tags.add("sweep-position:" + al["sweep"][1])
        tags.add("sweep-defined:" + al["sweep"][2])
    items = doc["items"]
    defined = [it["key"] for it in items if it["t"] == "string"]
    if len(set(defined)) != len(defined):
        tags.add("ref:duplicated-definition")
    seen = set()
    for it in items:
        if it["t"] == "string":
            seen.add(it["key"])
        if it["t"] != "entry":
            continue
        for _, src in it["fields"]:
            if src in pool and is_bare_ident(src):
                if src not in defined:
                    tags.add("ref:bare-never-defined")
                else:
                    tags.add("ref:bare-defined-before" if src in seen else "ref:bare-defined-after")
            elif src[:1] in '{"' and src[1:-1] in pool:
                tags.add("ref:enclosed")
            elif "#" in src and any(k in src for k in pool):
                tags.add("ref:concatenated")
    return sorted(prefix + t for t in tags)


def oracle_default(doc, lib, early=None, unenclose=True):
    """the property on the library obtained by default parsing of `doc`; with `early`, on the library obtained by default
    parsing of `early` (definitions only) followed by default parsing of `doc` into the same library; with unenclose=False,
    on the library obtained by resolution alone (no enclosing removal: every value is its stripped source text)"""
    content = globals()["content"] if unenclose else (lambda src: src.strip())
    items = (early["items"] if early else []) + doc["items"]
    n_early = len(early["items"]) if early else 0
    first = {}
    for i, it in enumerate(items):
        if it["t"] == "string" and it["key"] not in first:
            first[it["key"]] = (it["src"], i < n_early)
    # strings stay, first definition per key, in order, with their own content (a definition that went through an earlier
    # call may have had an enclosing removed once per call)
    got_strings = [(s.key, s.value) for s in lib.strings]
    if [k for k, _ in got_strings] != list(first):
        return False, "library.strings = %r, expected the keys %r" % (got_strings, list(first))
    for (k, v), (src, was_early) in zip(got_strings, first.values()):
        allowed = [content(src)] + ([content(content(src))] if was_early else [])
        if not (isinstance(v, str) and v in allowed):
            return False, "library.strings = %r: @string %s (source %r) holds %r, expected %r" % (got_strings, k, src, v, allowed[-1])
    reported = dict(got_strings)                      # the content of each defined string, whatever it is ('' included)
    seen = set()
    live = {e.key: e for e in lib.entries}
    for it in items:
        if it["t"] != "entry":
            continue
        names = [n for n, _ in it["fields"]]
        if len(set(names)) != len(names):
            continue                                  # duplicate field names: a failed block, outside the property
        if it["key"] in seen:
            continue                                  # duplicate entry key: wrapped, not a live entry (C09)
        seen.add(it["key"])
        e = live.get(it["key"])
        if e is None:
            return False, "entry %s is not a live entry" % it["key"]
        if [f.key for f in e.fields] != names:
            return False, "entry %s has fields %r" % (it["key"], [f.key for f in e.fields])
        resolved = e.parser_metadata.get("ResolveStringReferences", [])
        exp_resolved = []
        for f, (n, src) in zip(e.fields, it["fields"]):
            why = ""
            if is_bare_ident(src) and src in first:
                exp = reported[src]
                exp_resolved.append(n)
                why = " (the content of the first @string %s, source %r)" % (src, first[src][0])
            else:
                exp = content(src)
            if not (isinstance(f.value, str) and f.value == exp):
                return False, "entry %s field %s (source %r) holds %r, expected %r%s" % (it["key"], n, src, f.value, exp, why)
        if list(resolved) != exp_resolved:
            return False, "entry %s records resolved fields %r, expected %r" % (it["key"], resolved, exp_resolved)
    return True, ""


def impl_two_calls(doc):
    """oracle only: the early definitions are parsed first, the rest of the document into the same library"""
    import implutil
    import bibtexparser
    early, rest = two_calls(doc)
    t1, t2 = render(early), render(rest)
    rec = {"sx_in": None, "sx_out": None, "key": json.dumps([t1, t2, 113]), "tags": []}
    keys = set(it["key"] for it in doc["items"] if it["t"] == "string")
    rec["nontrivial"] = any(s.strip('{}"') in keys for it in rest["items"] if it["t"] == "entry" for _, s in it["fields"])
    r = implutil.guarded(lambda: bibtexparser.parse_string(t2, library=bibtexparser.parse_string(t1)))
    if r[0] == "exc":
        rec["oracle"] = {"ok": False, "detail": "parsing raised %s on %r then %r" % (r[2], t1, t2)}
        rec["summary"] = "raised " + r[2]
        return rec
    lib = r[1]
    ok, detail = oracle_default(rest, lib, early=early)
    rec["oracle"] = {"ok": ok, "detail": detail + ("" if ok else " after parse_string(%r) then parse_string(%r, library=<the first result>)" % (t1, t2))}
    rec["tags"].append("two-call-resolved-some" if any("ResolveStringReferences" in e.parser_metadata for e in lib.entries)
                       else "two-call-resolved-none")
    if doc.get("alpha"):
        rec["tags"].append("two-call-alphabet")
    if doc.get("rsv"):
        rec["tags"].append("two-call-reserved-names")
    rec["summary"] = repr([[(f.key, f.value) for f in e.fields] for e in lib.entries])[:200]
    return rec


STACK_TEXT = {
    "dflt-copy": "parse_stack=default_parse_stack(allow_inplace_modification=False)",
    "dflt-inplace": "parse_stack=default_parse_stack(allow_inplace_modification=True)",
    "copy+remove-inplace": "parse_stack=[ResolveStringReferencesMiddleware(False), RemoveEnclosingMiddleware(True)]",
    "copy+remove-copy": "parse_stack=[ResolveStringReferencesMiddleware(False), RemoveEnclosingMiddleware(False)]",
    "inplace+remove-copy": "parse_stack=[ResolveStringReferencesMiddleware(True), RemoveEnclosingMiddleware(False)]",
    "append-normalize-inplace": "append_middleware=[NormalizeFieldKeys(True)]",
    "append-normalize-copy": "append_middleware=[NormalizeFieldKeys(False)]",
    "append-user-block-copy": "append_middleware=[<identity BlockMiddleware subclass>(allow_inplace_modification=False)]",
    "append-user-library-copy": "append_middleware=[<LibraryMiddleware subclass returning deepcopy(library)>]",
    "resolve-copy": "parse_stack=[ResolveStringReferencesMiddleware(False)]",
    "resolve-copy-transform": "ResolveStringReferencesMiddleware(False).transform(parse_string(text, parse_stack=[]))",
}
_USER_MW = {}


def user_middlewares():
    """a caller's own middlewares, derived from the public base classes of the tree under test"""
    if not _USER_MW:
        from copy import deepcopy
        from bibtexparser.middlewares import BlockMiddleware, LibraryMiddleware

        class IdentityBlocks(BlockMiddleware):
            pass

        class CopyLibrary(LibraryMiddleware):
            def transform(self, library):
                return deepcopy(library)
        _USER_MW["block"] = IdentityBlocks
        _USER_MW["library"] = CopyLibrary
    return _USER_MW


def run_stack(stack, text, split):
    """parse `text` the way the stack name says (public entry points only); `split` is a fresh split library of `text`"""
    import bibtexparser
    from bibtexparser.middlewares import ResolveStringReferencesMiddleware as Resolve, RemoveEnclosingMiddleware as Remove
    from bibtexparser.middlewares import NormalizeFieldKeys, default_parse_stack
    if stack == "dflt-copy":
        return bibtexparser.parse_string(text, parse_stack=default_parse_stack(allow_inplace_modification=False))
    if stack == "dflt-inplace":
        return bibtexparser.parse_string(text, parse_stack=default_parse_stack(allow_inplace_modification=True))
    if stack == "copy+remove-inplace":
        return bibtexparser.parse_string(text, parse_stack=[Resolve(False), Remove(True)])
    if stack == "copy+remove-copy":
        return bibtexparser.parse_string(text, parse_stack=[Resolve(allow_inplace_modification=False), Remove(allow_inplace_modification=False)])
    if stack == "inplace+remove-copy":
        return bibtexparser.parse_string(text, parse_stack=[Resolve(True), Remove(False)])
    if stack == "append-normalize-inplace":
        return bibtexparser.parse_string(text, append_middleware=[NormalizeFieldKeys(True)])
    if stack == "append-normalize-copy":
        return bibtexparser.parse_string(text, append_middleware=[NormalizeFieldKeys(allow_inplace_modification=False)])
    if stack == "append-user-block-copy":
        return bibtexparser.parse_string(text, append_middleware=[user_middlewares()["block"](allow_inplace_modification=False)])
    if stack == "append-user-library-copy":
        return bibtexparser.parse_string(text, append_middleware=[user_middlewares()["library"](allow_inplace_modification=False)])
    if stack == "resolve-copy":
        return bibtexparser.parse_string(text, parse_stack=[Resolve(False)])
    if stack == "resolve-copy-transform":
        return Resolve(allow_inplace_modification=False).transform(split)
    raise ValueError(stack)


def impl(case):
    import enc
    import implutil
    import bibtexparser
    from bibtexparser.library import Library
    from bibtexparser.middlewares import ResolveStringReferencesMiddleware, RemoveEnclosingMiddleware
    inp = case["input"]
    doc, op = inp["doc"], inp["op"]
    if op == 113:
        return impl_two_calls(doc)
    stack = inp.get("stack")
    if op == 114:
        op = STACK_OP[stack]              # the model operation this stack must agree with
    text = render(doc)
    # the split library, as the block list it is built from (duplicate wrappers unwrapped)
    split0 = bibtexparser.parse_string(text, parse_stack=[])
    raw = [b.ignore_error_block if type(b).__name__ == "DuplicateBlockKeyBlock" else b for b in split0.blocks]
    sx_blocks = [enc.enc_block(b) for b in raw]
    split1 = None
    if stack is None or stack == "dflt-copy":
        # (a fact about the document, not about the stack: checked once per document of the copy-placement stream, with the
        # stack every document of that stream is parsed with)
        again = Library(raw)
        split1 = bibtexparser.parse_string(text, parse_stack=[])
        assert [enc.enc_block(b, abstract_prev=True) for b in again.blocks] == [enc.enc_block(b, abstract_prev=True) for b in split1.blocks], \
            "Library(unwrapped blocks) differs from the split library"
    elif stack == "resolve-copy-transform":
        split1 = bibtexparser.parse_string(text, parse_stack=[])
    rec = {"sx_in": [op, sx_blocks], "key": json.dumps([text, op] + ([stack] if stack else []))}

    def run():
        if stack:
            return run_stack(stack, text, split1)
        if op == 110:
            return ResolveStringReferencesMiddleware().transform(split1)
        if op == 111:
            return bibtexparser.parse_string(text)
        return bibtexparser.parse_string(text, parse_stack=[RemoveEnclosingMiddleware(), ResolveStringReferencesMiddleware()])
    r = implutil.guarded(run)
    first = set(it["key"] for it in doc["items"] if it["t"] == "string")
    srcs = [s for it in doc["items"] if it["t"] == "entry" for _, s in it["fields"]]
    rec["nontrivial"] = any(s.strip('{}"') in first for s in srcs)
    if r[0] == "exc":
        rec["sx_out"] = implutil.r_exc(r[1])
        rec["oracle"] = {"ok": False, "detail": "parsing raised %s on %r" % (r[2], text)}
        rec["summary"] = "raised " + r[2]
        return rec
    lib = r[1]
    rec["sx_out"] = implutil.r_ok([enc.enc_block(b, abstract_prev=True) for b in lib.blocks])
    tags = []
    if stack:
        ok, detail = oracle_default(doc, lib, unenclose=(op == 111))
        if ok:
            got = [(type(s).__name__, s.key, s.raw, s.start_line) for s in lib.strings]
            want = [(type(s).__name__, s.key, s.raw, s.start_line) for s in split0.strings]
            if got != want:
                ok, detail = False, "the @string blocks after parsing are %r, as split they were %r" % (got, want)
        rec["oracle"] = {"ok": ok, "detail": detail + ("" if ok else " in document %r parsed with %s" % (text, STACK_TEXT[stack]))}
        some = any("ResolveStringReferences" in e.parser_metadata for e in lib.entries)
        if "cls" in doc:
            cls = doc["cls"]
            tags += ["stack:" + stack, "place:" + cls["place"], "place:%s/%s" % (cls["place"], "separated" if cls["sep"] else "adjacent"),
                     "place:%s/%s" % (cls["place"], "resolved-some" if some else "resolved-none"), "uses-of-the-name:%d" % cls["uses"]]
            tags += alpha_tags(doc, "copy-placement:")
        else:
            tags += ["reserved:stack:" + stack, "reserved:stack-resolved-some" if some else "reserved:stack-resolved-none"]
            tags += reserved_tags(doc)
    elif op == 111:
        ok, detail = oracle_default(doc, lib)
        if ok:
            # "the @string blocks themselves stay in the library unchanged": the same blocks, source text and place as split
            got = [(type(s).__name__, s.key, s.raw, s.start_line) for s in lib.strings]
            want = [(type(s).__name__, s.key, s.raw, s.start_line) for s in split0.strings]
            if got != want:
                ok, detail = False, "the @string blocks after default parsing are %r, as split they were %r" % (got, want)
        rec["oracle"] = {"ok": ok, "detail": detail + ("" if ok else " in document %r" % text)}
        tags.append("resolved-some" if any("ResolveStringReferences" in e.parser_metadata for e in lib.entries) else "resolved-none")
        tags += alpha_tags(doc)
        tags += reserved_tags(doc)
    elif op == 110:
        # resolution alone leaves every non-entry block and every string as split
        ok = [(s.key, s.value) for s in lib.strings] == [(s.key, s.value) for s in split0.strings] and \
             [type(b).__name__ for b in lib.blocks] == [type(b).__name__ for b in split0.blocks]
        rec["oracle"] = {"ok": ok, "detail": "" if ok else "resolution changed strings or block classes in %r" % text}
    else:
        dflt = bibtexparser.parse_string(text)
        differs = [[(f.key, f.value) for f in e.fields] for e in dflt.entries] != [[(f.key, f.value) for f in e.fields] for e in lib.entries]
        tags.append("order-differs" if differs else "order-same")
        rec["oracle"] = {"ok": True, "detail": ""}
    rec["tags"] = tags
    rec["summary"] = repr([[(f.key, f.value) for f in e.fields] for e in lib.entries])[:200]
    return rec
