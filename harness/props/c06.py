"""C06 - written text obeys the BibtexFormat contract and carries every block's content."""
import itertools
import json
import re

ENGINE = "writer"
RULE = ("libraries built from the model classes (any block mix incl. plain / middleware-error / duplicate-key / duplicate-field "
        "failed blocks, 0..n fields, keys of length 0..45 incl. non-ASCII) and libraries obtained by parse_string(text, parse_stack=[]) "
        "x value_column in {0..40,'auto'} x indents x multi-character separators x trailing_comma x custom failed comments "
        "({n}, {{ }}); bounded-exhaustive key length x column x trailing grid around the padding boundary; exhaustive short strings "
        "over the line-boundary alphabet for str.splitlines; {n}-templates for str.format; sessions on ONE Library and ONE format object "
        "(oracle only): lists/dicts handed out by library.entries/strings/failed_blocks/preambles/comments/entries_dict edited by the "
        "caller (at once or after later library calls), add/remove/replace, in-place edits of entries/fields/strings/comments, format "
        "attributes changed between writes, writes that raise, a second Library sharing block objects - every write of the session is "
        "judged against the blocks the library holds at that moment (views x edits x entrypoint bounded-exhaustive on a fixed library); re-configuration of ONE format object: every attribute x every "
        "ordered pair of settings (write, set, write, set back, write - the same field keys under each setting; int -> int columns) "
        "bounded-exhaustive, and random set/write rounds over libraries with recurring field keys incl. a fresh format object "
        "replacing the dropped one. "
        "distinct = distinct (library, format); "
        "non-trivial = the library has an entry with a field or a failed block")
TRUSTED = ["oracle instances: str.splitlines (ten line boundaries) and str.format on templates whose only replacement field is {n} "
           "are modelled and compared with CPython on every run (ops 62, 63); templates outside are skipped by the model"]
ASSUMPTIONS = ["field values, keys, types, separators are str (a few libraries with non-str values check the TypeError class only)",
               "parsing_failed_comment templates use only {n} and the {{ }} escapes (DESIGN C06 Limits)"]
CASE_TIMEOUT_S = 30

BREAKS = "\n\r\x0b\x0c\x1c\x1d\x1e\x85\u2028\u2029"
BREAK_RE = re.compile("\r\n|[" + BREAKS + "]")
TEMPLATE_OK = re.compile(r"(?:[^{}]|\{\{|\}\}|\{n\})*")
TEMPLATE_TOK = re.compile(r"\{\{|\}\}|\{n\}")

INDENTS = ["", "\t", "  ", "    ", "xx", "\t\t", " \t"]
SEPS = ["\n\n", "\n", "", "\n%%\n", " ", "\r\n\r\n", "---", "\n\n\n", ",", "}\n@"]
COMMENTS = [None, "% FAIL {n}", "{{n}} {n} lines {{}}", "", "{n}{n}", "%% {{{n}}}", "no field at all", "\u2211 {n} \u00fcn\u00ef",
            "% WARNING {n}\n% second line", "{n}", "}}{{"]
KEY_ALPHA = "abcdefghijklmnopqrstuvwxyzABCXYZ0123456789_-:.\u00e9\u00df\u4e2d\U0001d518"
VAL_ALPHA = "abc XYZ019{}\"\\,=#@~\n\t\u00e9\u4e2d\U0001d518%"
RAW_ALPHA = "ab @{},=\"" + BREAKS + "\x1f\u00e9"


# ------------------------------------------------------------------ generators
def rkey(rng, maxlen=45):
    r = rng.random()
    if r < 0.03:
        n = 0
    elif r < 0.65:
        n = rng.randint(1, 9)
    elif r < 0.9:
        n = rng.randint(10, 25)
    else:
        n = rng.randint(26, max(26, maxlen))
    return "".join(rng.choice(KEY_ALPHA) for _ in range(min(n, maxlen)))


def rval(rng):
    n = rng.choice([0, 1, 2, 5, 12, 30])
    body = "".join(rng.choice(VAL_ALPHA) for _ in range(n))
    return rng.choice(["{%s}", '"%s"', "%s", "{%s} # abc"]) % body


def rraw(rng):
    r = rng.random()
    if r < 0.05:
        return ""
    n = rng.choice([1, 2, 3, 6, 15, 40])
    return "".join(rng.choice(RAW_ALPHA) for _ in range(n))


def rfields(rng, allow_bad):
    n = rng.choice([0, 0, 1, 1, 2, 3, 4, 6])
    fs = []
    for _ in range(n):
        k = rkey(rng)
        if fs and rng.random() < 0.1:
            k = fs[0][0]                        # duplicate field key in a directly built entry
        v = rval(rng)
        if allow_bad and rng.random() < 0.25:
            v = rng.choice([{"int": 7}, {"int": -3}, {"none": 1}, {"list": ["a"]}])
        fs.append([k, v])
    return fs


def rentry(rng, keys, allow_bad=False):
    key = rkey(rng, 12) or "k"
    if keys and rng.random() < 0.15:
        key = rng.choice(keys)                  # duplicate entry key -> DuplicateBlockKeyBlock
    keys.append(key)
    raw = rraw(rng) if rng.random() < 0.8 else None
    return ["entry", rng.choice(["article", "book", "misc", "Article", "x"]), key, rfields(rng, allow_bad), raw]


def rblock(rng, keys, skeys, allow_bad=False):
    r = rng.random()
    if r < 0.40:
        return rentry(rng, keys, allow_bad)
    if r < 0.50:
        k = rkey(rng, 10) or "s"
        if skeys and rng.random() < 0.2:
            k = rng.choice(skeys)
        skeys.append(k)
        v = rval(rng)
        if allow_bad and rng.random() < 0.3:
            v = {"int": 3}
        return ["string", k, v, rraw(rng)]
    if r < 0.56:
        return ["preamble", rval(rng)]
    if r < 0.62:
        return ["expl", rval(rng)]
    if r < 0.70:
        return ["impl", rng.choice(["free text", "% a comment\nsecond line", "", "x"])]
    if r < 0.82:
        return ["failed", rraw(rng) if rng.random() < 0.97 or not allow_bad else None]
    if r < 0.88:
        return ["mwerr", rraw(rng), rng.choice([["expl", "c"], rentry(rng, [], False), ["string", "s", "{v}", None]])]
    if r < 0.94:
        e = rentry(rng, [], False)
        e[4] = rraw(rng)
        return ["dupfield", e]
    return ["failed", rraw(rng)]


def rfmt(rng):
    if rng.random() < 0.04:
        return None
    return {"indent": rng.choice(INDENTS), "col": rng.choice(list(range(41)) + ["auto"] * 12), "sep": rng.choice(SEPS),
            "trailing": rng.random() < 0.5, "failed": rng.choice(COMMENTS)}


SNIPPETS = [
    "@article{<K>,\n  title = {A Title},\n  year = 2020\n}",
    "@book{<K>, author = \"A and B\", <F> = {x}, }",
    "@misc{<K>}",
    "@misc{<K>,}",
    "@string{<F> = \"value\"}",
    "@string{dup = {v}}",
    "@preamble{\"\\newcommand{\\x}{y}\"}",
    "@comment{an explicit comment}",
    "% free text line",
    "some text\nover two lines",
    "@article{<K>,\n  title = {unclosed,\n  year = 2020\n",
    "@article{<K>, title = {a}, title = {b}, <F> = {c}}",
    "@article{same, a = {1}}",
    "@article{<K>, a = {1} b = {2}}",
    "@string{broken = }",
    "@article{<K>,\r\n  title = {crlf\r\nvalue},\r\n}",
    "@article{<K>, t\u00eftle = {\u00fcnic\u00f6de \u2028 sep}}",
    "@article{<K>, note = {\x0b\x0c\x1c\x1d\x1e\x85}, title = {unclosed",
]


def rtext(rng):
    n = rng.choice([0, 1, 2, 3, 4, 6, 9])
    parts = []
    for _ in range(n):
        s = rng.choice(SNIPPETS).replace("<K>", rkey(rng, 8) or "k").replace("<F>", rkey(rng, 30) or "f")
        parts.append(s)
    return rng.choice(["\n", "\n\n", " ", "\r\n"]).join(parts) + rng.choice(["", "\n", "  "])

VIEWS = ["entries", "strings", "failed_blocks", "preambles", "comments", "entries_dict"]
VIEW_OPS = ["clear", "pop", "reverse", "append_foreign", "del_first", "double"]
FMT_ATTRS = ["indent", "col", "sep", "trailing", "failed"]
SESSION_BASE = [["entry", "article", "first", [["title", "{A title}"], ["year", "2020"], ["organization", "{Org}"]], None],
                ["expl", "between"],
                ["entry", "book", "second", [["author", "{Some One}"], ["isbn", "{123}"]], "raw second"],
                ["string", "jan", '"January"', "@string{jan = \"January\"}"],
                ["preamble", '"pre"'],
                ["failed", "@broken{x,\n y"]]


def rfmt_value(rng, attr):
    if attr == "indent":
        return rng.choice(INDENTS)
    if attr == "col":
        return rng.choice(list(range(41)) + ["auto"] * 40)
    if attr == "sep":
        return rng.choice(SEPS)
    if attr == "trailing":
        return rng.random() < 0.5
    return rng.choice(COMMENTS[1:])


def redit(rng):
    kind = rng.choice(["set_field", "set_field", "setitem", "pop", "delitem", "rename", "rename", "revalue", "fields_set",
                       "fields_clear", "fields_append", "key", "type", "other"])
    return ["edit", rng.randint(0, 7), kind, rng.randint(0, 5), rkey(rng), rval(rng)]


def rstep(rng, keys, skeys, allow_bad):
    r = rng.random()
    if r < 0.28:
        return ["view", rng.choice(VIEWS[:1] * 4 + VIEWS), rng.choice(VIEW_OPS + ["keep"])]
    if r < 0.36:
        return ["held", rng.randint(0, 3), rng.choice(VIEW_OPS)]
    if r < 0.46:
        b = rentry(rng, keys, allow_bad) if rng.random() < 0.6 else rblock(rng, keys, skeys, allow_bad)
        return ["add", [b] if rng.random() < 0.7 else [b, rblock(rng, keys, skeys, allow_bad)], rng.random() < 0.2, rng.random() < 0.5]
    if r < 0.53:
        return ["remove", rng.randint(0, 9)]
    if r < 0.60:
        return ["replace", rng.randint(0, 9), rentry(rng, keys, allow_bad) if rng.random() < 0.7 else rblock(rng, keys, skeys, allow_bad),
                rng.random() < 0.5]
    if r < 0.75:
        return redit(rng)
    if r < 0.82:
        a = rng.choice(FMT_ATTRS + ["col"] * 3)
        return ["fmt", a, rfmt_value(rng, a)]
    if r < 0.95:
        return ["write", rng.choice(["write", "write_string"])]
    return ["write_sub", rng.choice(["write", "write_string"]), [rng.randint(0, 9) for _ in range(rng.randint(0, 4))]]


def rsession(rng):
    keys, skeys = [], []
    allow_bad = rng.random() < 0.12
    blocks = [rentry(rng, keys, allow_bad) if rng.random() < 0.6 else rblock(rng, keys, skeys, allow_bad)
              for _ in range(rng.choice([0, 1, 2, 2, 3, 4, 5]))]
    f = rfmt(rng)
    if f is not None and rng.random() < 0.6:
        f["col"] = "auto"
    steps = [rstep(rng, keys, skeys, allow_bad) for _ in range(rng.randint(1, 8))]
    steps.append(["write", rng.choice(["write", "write_string"])])
    return {"mode": "session", "blocks": blocks, "fmt": f, "steps": steps}


RECONF_KEYS = ["author", "title", "year", "a", "", "organization", "k" * 17, "t\u00eftle", "ID", "Author", "x" * 30]
RECONF_VALUES = {"col": [0, 5, 9, 12, 20, "auto"], "indent": ["", "  ", "\t", "xx"], "sep": ["\n\n", "", "\n%%\n", ","],
                 "trailing": [False, True], "failed": ["% FAIL {n}", "{n}", "", "{{n}} {n}"]}


def rreconf(rng):
    """ONE format object written with, re-configured, written with again ... over a library whose field keys recur
    (in several entries and in every write): whatever is remembered per format object / per key must not outlive a setter."""
    pool = rng.sample(RECONF_KEYS, rng.randint(2, 5)) + [rkey(rng, 30)]
    blocks = []
    for i in range(rng.randint(1, 4)):
        ks = rng.sample(pool, rng.randint(1, min(4, len(pool))))
        blocks.append(["entry", rng.choice(["article", "book"]), "e%d" % i, [[k, rval(rng)] for k in ks], None])
        if rng.random() < 0.2:
            blocks.append(rblock(rng, [], []))
    f = rfmt(rng) or {"indent": "\t", "col": 0, "sep": "\n\n", "trailing": False, "failed": None}
    f["col"] = rng.randint(0, 40) if rng.random() < 0.8 else "auto"
    steps = [["write", rng.choice(["write", "write_string"])]]
    for _ in range(rng.randint(2, 5)):
        for _ in range(rng.choice([1, 1, 2])):
            a = rng.choice(["col"] * 5 + ["indent"] * 2 + FMT_ATTRS)
            v = rfmt_value(rng, a)
            if a == "col" and rng.random() < 0.75:
                v = rng.choice([0, 1, 3, 4, 5, 7, 8, 9, 12, 20, 25, 33, 40])
            steps.append(["fmt", a, v])
        r = rng.random()
        if r < 0.12:
            nf = dict(f, col=rng.choice([0, 6, 14, 30, "auto"]), indent=rng.choice(INDENTS))
            steps.append(["fmt_new", nf])        # a fresh object (possibly at the address of the dropped one)
        elif r < 0.24:
            steps.append(["add", [["entry", "misc", "n%d" % len(steps), [[k, rval(rng)] for k in rng.sample(pool, 2)], None]],
                          False, False])
        elif r < 0.34:
            steps.append(redit(rng))
        if rng.random() < 0.9:
            steps.append(["write", rng.choice(["write", "write_string"])])
        else:
            steps.append(["write_sub", rng.choice(["write", "write_string"]), [rng.randint(0, 9) for _ in range(rng.randint(1, 4))]])
    return {"mode": "session", "blocks": blocks, "fmt": f, "steps": steps}


def generate(rng, tier):
    quick = tier == "quick"
    cases = []
    # 0. the validating setter of value_column
    for v in [0, 1, 7, 40, -1, -100, 10 ** 6, "auto", "Auto", "AUTO", "", "auto ", "0", "12", True, False, {"t": "none"}]:
        cases.append({"stream": "setter", "input": {"mode": "setter", "arg": v}})
    # 1. bounded-exhaustive grid around the padding boundary: key length x column x trailing x number of fields
    for klen in range(0, 8):
        for col in list(range(0, 13)) + ["auto"]:
            for trailing in (False, True):
                for nf in ((1, 2) if quick else (0, 1, 2, 3)):
                    fields = [["k" * klen, "{v}"]] + [["ab" * j, "{w%d}" % j] for j in range(1, nf)]
                    fields = fields[:nf]
                    cases.append({"stream": "grid", "input": {
                        "mode": "build", "via": "write", "blocks": [["entry", "article", "key", fields, None]],
                        "fmt": {"indent": " ", "col": col, "sep": "\n\n", "trailing": trailing, "failed": None}}})
    # 2. auto over several entries (and keys hidden in non-entry blocks, which must not count)
    for _ in range(60 if quick else 1500):
        keys = []
        blocks = []
        for _ in range(rng.randint(1, 5)):
            blocks.append(rentry(rng, keys))
            if rng.random() < 0.4:
                e = rentry(rng, [])
                e[3].append(["k" * rng.randint(20, 60), "{hidden}"])
                e[4] = "raw"
                blocks.append(rng.choice([["dupfield", e], ["mwerr", "raw text", e]]))
        f = rfmt(rng) or {"indent": "\t", "col": "auto", "sep": "\n\n", "trailing": False, "failed": None}
        f["col"] = "auto"
        cases.append({"stream": "auto", "input": {"mode": "build", "via": rng.choice(["write", "write_string"]),
                                                  "blocks": blocks, "fmt": f}})
    # 3. random libraries x random formats
    for _ in range(1200 if quick else 100000):
        keys, skeys = [], []
        blocks = [rblock(rng, keys, skeys) for _ in range(rng.choice([0, 1, 1, 2, 3, 4, 6, 9]))]
        cases.append({"stream": "build", "input": {"mode": "build", "via": rng.choice(["write", "write_string"]),
                                                   "blocks": blocks, "fmt": rfmt(rng)}})
    # 4. libraries with non-str values / raw None: exception class
    for _ in range(80 if quick else 1500):
        keys, skeys = [], []
        blocks = [rblock(rng, keys, skeys, allow_bad=True) for _ in range(rng.choice([1, 2, 3, 5]))]
        cases.append({"stream": "badvalue", "input": {"mode": "build", "via": "write", "blocks": blocks, "fmt": rfmt(rng)}})
    # 5. parsed libraries
    for _ in range(300 if quick else 12000):
        cases.append({"stream": "parse", "input": {"mode": "parse", "via": rng.choice(["write", "write_string"]),
                                                   "text": rtext(rng), "fmt": rfmt(rng)}})
    # 6. CPython oracle instances: splitlines (exhaustive short strings), format templates
    alpha = "a" + BREAKS + "\x1f"
    for n in range(0, 4 if quick else 5):
        for t in itertools.product(alpha, repeat=n):
            cases.append({"stream": "splitlines", "input": {"mode": "lines", "s": "".join(t)}})
    toks = ["{{", "}}", "{n}", "a", "%", " ", "n", "{", "}", "{0}", "{n!r}", "{m}", "\u00e9"]
    for _ in range(300 if quick else 4000):
        t = "".join(rng.choice(toks[:7] if rng.random() < 0.7 else toks) for _ in range(rng.randint(0, 7)))
        cases.append({"stream": "template", "input": {"mode": "tmpl", "t": t, "n": rng.choice([0, 1, 7, 10, 123, 10 ** 6])}})
    # 7. sessions (oracle only): one Library and one format object used over several steps.
    #    7a. bounded-exhaustive: every copy-returning view x every edit of the returned container x entrypoint x column,
    #        with and without a write before the view is taken, and with the view taken before / edited after a library call
    for name in VIEWS:
        for op in VIEW_OPS:
            for via in ("write", "write_string"):
                for col in ("auto", 9):
                    f = {"indent": "  ", "col": col, "sep": "\n\n", "trailing": False, "failed": None}
                    for pre in ([],) if col != "auto" else ([], [["write", via]],
                                [["view", name, "keep"], ["add", [["entry", "misc", "third", [["k" * 17, "{v}"]], "r"]], False, True],
                                 ["held", 0, op]]):
                        cases.append({"stream": "session_grid", "input": {
                            "mode": "session", "blocks": SESSION_BASE, "fmt": f, "steps": pre + [["view", name, op], ["write", via]]}})
    #    7b. random sessions
    for _ in range(400 if quick else 30000):
        cases.append({"stream": "session", "input": rsession(rng)})
    #    7c. bounded-exhaustive: every format attribute x every ordered pair of settings x entrypoint on ONE format object:
    #        write, set, write, set back, write (the same field keys are written under each setting)
    for attr in FMT_ATTRS:
        vals = RECONF_VALUES[attr]
        for v1 in vals:
            for v2 in vals:
                if v1 == v2:
                    continue
                for via in ("write", "write_string"):
                    f = {"indent": "  ", "col": 9, "sep": "\n\n", "trailing": False, "failed": None}
                    f[attr] = v1
                    cases.append({"stream": "session_reconf_grid", "input": {
                        "mode": "session", "blocks": SESSION_BASE, "fmt": f,
                        "steps": [["write", via], ["fmt", attr, v2], ["write", via], ["fmt", attr, v1], ["write", via]]}})
    #    7d. random re-configuration sessions
    for _ in range(250 if quick else 20000):
        cases.append({"stream": "session_reconf", "input": rreconf(rng)})
    return cases


def shrink(case):
    inp = case["input"]
    out = []

    def mk(**kw):
        c = {"stream": case.get("stream", "shrink"), "input": dict(inp, **kw)}
        out.append(c)
    if inp.get("mode") == "build":
        bs = inp["blocks"]
        for i in range(len(bs)):
            mk(blocks=bs[:i] + bs[i + 1:])
        for i, b in enumerate(bs):
            if b[0] == "entry" and b[3]:
                for j in range(len(b[3])):
                    nb = list(b)
                    nb[3] = b[3][:j] + b[3][j + 1:]
                    mk(blocks=bs[:i] + [nb] + bs[i + 1:])
    elif inp.get("mode") == "session":
        st, bs = inp["steps"], inp["blocks"]
        for i in range(len(st)):
            mk(steps=st[:i] + st[i + 1:])
        for i in range(len(bs)):
            mk(blocks=bs[:i] + bs[i + 1:])
    elif inp.get("mode") == "parse":
        t = inp["text"]
        for k in (2, 4, 8):
            step = max(1, len(t) // k)
            for i in range(0, len(t), step):
                mk(text=t[:i] + t[i + step:])
    if inp.get("fmt"):
        f = inp["fmt"]
        for k, v in (("indent", ""), ("sep", "\n"), ("failed", None), ("trailing", False), ("col", 0)):
            if f.get(k) != v:
                mk(fmt=dict(f, **{k: v}))
    elif inp.get("mode") == "lines" and inp["s"]:
        for i in range(len(inp["s"])):
            mk(s=inp["s"][:i] + inp["s"][i + 1:])
    return out


# ------------------------------------------------------------------ building libraries
def unval(v):
    if isinstance(v, dict):
        if "int" in v:
            return v["int"]
        if "none" in v:
            return None
        if "list" in v:
            return list(v["list"])
    return v


def build_block(d):
    from bibtexparser import model as M
    t = d[0]
    if t == "entry":
        fs = [M.Field(k, unval(v), i + 1) for i, (k, v) in enumerate(d[3])]
        return M.Entry(d[1], d[2], fs, start_line=0, raw=d[4])
    if t == "string":
        return M.String(d[1], unval(d[2]), start_line=3, raw=d[3])
    if t == "preamble":
        return M.Preamble(d[1], start_line=1, raw="@preamble{" + d[1] + "}")
    if t == "expl":
        return M.ExplicitComment(d[1], start_line=None, raw=None)
    if t == "impl":
        return M.ImplicitComment(d[1], start_line=2, raw=d[1])
    if t == "failed":
        return M.ParsingFailedBlock(error=Exception("x"), start_line=5, raw=d[1])
    if t == "mwerr":
        inner = build_block(d[2])
        inner._raw = d[1]
        return M.MiddlewareErrorBlock(inner, ValueError("boom"))
    if t == "dupfield":
        e = build_block(d[1])
        ks = [f.key for f in e.fields]
        return M.DuplicateFieldKeyBlock({k for k in ks if ks.count(k) > 1}, e)
    raise ValueError(t)


def make_fmt(f):
    from bibtexparser.writer import BibtexFormat
    if f is None:
        return None
    o = BibtexFormat()
    o.indent = f["indent"]
    o.value_column = f["col"]
    o.block_separator = f["sep"]
    o.trailing_comma = f["trailing"]
    if f["failed"] is not None:
        o.parsing_failed_comment = f["failed"]
    return o


# ------------------------------------------------------------------ the property, re-derived (no writer internals)
def count_lines(s):
    n = len(BREAK_RE.findall(s))
    m = None
    for m in BREAK_RE.finditer(s):
        pass
    tail = s if m is None else s[m.end():]
    return n + (1 if tail else 0)


def expand_template(t, n):
    if not TEMPLATE_OK.fullmatch(t):
        return None
    return TEMPLATE_TOK.sub(lambda m: {"{{": "{", "}}": "}", "{n}": str(n)}[m.group()], t)


DEFAULT_COMMENT = "% WARNING Parsing failed for the following {n} lines."


def expected_text(blocks, f):
    """(kind, value, checks): kind 'text' | 'exc' | 'outside'."""
    from bibtexparser import model as M
    if f is None:
        f = {"indent": "\t", "col": 0, "sep": "\n\n", "trailing": False, "failed": None}
    comment = DEFAULT_COMMENT if f["failed"] is None else f["failed"]
    entries = [b for b in blocks if isinstance(b, M.Entry)]
    if f["col"] == "auto":
        col = 3 + max([len(fl.key) for e in entries for fl in e.fields] + [0])
    else:
        col = f["col"]
    notes = {"fields": 0, "short": 0, "long": 0, "zero_pad": 0, "failed": 0}
    texts = []
    bad = None
    for b in blocks:
        if isinstance(b, M.Entry):
            lines = []
            for i, fl in enumerate(b.fields):
                last = i == len(b.fields) - 1
                padding = " " * max(0, col - len(fl.key) - 3)
                if not isinstance(fl.value, str):
                    bad = bad or "TypeError"
                    continue
                line = f["indent"] + fl.key + padding + " = " + fl.value + ("," if (f["trailing"] or not last) else "") + "\n"
                # the column clause of the property, checked on the line itself
                start = len(f["indent"] + fl.key + padding + " = ")
                if len(fl.key) + 3 <= col:
                    assert start == len(f["indent"]) + col, "column"
                    notes["short"] += 1
                else:
                    assert padding == "" and start == len(f["indent"]) + len(fl.key) + 3
                    notes["long"] += 1
                if padding == "":
                    notes["zero_pad"] += 1
                notes["fields"] += 1
                lines.append(line)
            texts.append("@" + b.entry_type + "{" + b.key + ",\n" + "".join(lines) + "}\n")
        elif isinstance(b, M.String):
            if not isinstance(b.value, str):
                bad = bad or "TypeError"
                continue
            texts.append("@string{" + b.key + " = " + b.value + "}\n")
        elif isinstance(b, M.Preamble):
            texts.append("@preamble{" + b.value + "}\n")
        elif isinstance(b, M.ExplicitComment):
            texts.append("@comment{" + b.comment + "}\n")
        elif isinstance(b, M.ImplicitComment):
            texts.append(b.comment + "\n")
        elif isinstance(b, M.ParsingFailedBlock):
            if b.raw is None:
                return "exc", "AttributeError", notes       # outside the property: nothing to emit verbatim
            c = expand_template(comment, count_lines(b.raw))
            if c is None:
                return "outside", None, notes
            notes["failed"] += 1
            texts.append(c + "\n" + b.raw + "\n")
        else:
            return "exc", "ValueError", notes
    if bad:
        return "exc", bad, notes
    if f["col"] == "auto" and notes["fields"]:
        assert notes["zero_pad"] >= 1, "auto column is not minimal"
    return "text", f["sep"].join(texts), notes


def fmt_state(o):
    return None if o is None else {k: (type(v).__name__, v) for k, v in vars(o).items()}

# ------------------------------------------------------------------ sessions: one Library / one format object, several steps
def judge(r, blocks, f, before, after):
    """One write judged against the property: blocks = what the library held when it was written, f = the format settings."""
    kind, exp, notes = expected_text(blocks, f)
    ok, detail = True, ""
    if r[0] == "exc":
        if kind == "exc":
            if exp != r[2]:
                ok, detail = False, "writer raised %s, expected %s" % (r[2], exp)
        elif kind == "text":
            ok, detail = False, "writer raised %s on a library of str values" % r[2]
    else:
        text = r[1]
        if kind == "exc":
            ok, detail = False, "writer returned text, expected %s" % exp
        elif kind == "text" and text != exp:
            if not isinstance(text, str):
                return False, "writer returned %r" % (text,), kind, exp, notes
            k = next((i for i in range(min(len(text), len(exp))) if text[i] != exp[i]), min(len(text), len(exp)))
            ok, detail = False, "written text differs from the format contract at offset %d: got %r, contract %r" % (
                k, text[max(0, k - 30):k + 30], exp[max(0, k - 30):k + 30])
    if ok and before != after:
        ok, detail = False, "the BibtexFormat object was changed by writing: %r -> %r" % (before, after)
    return ok, detail, kind, exp, notes


def edit_view(view, op):
    """The caller edits a list / dict the library handed out.  The library itself is not touched."""
    from bibtexparser import model as M
    foreign = M.Entry("misc", "foreign", [M.Field("k" * 50, "{not in the library}")], start_line=0, raw="foreign")
    try:
        if isinstance(view, dict):
            if op in ("clear", "reverse"):
                view.clear()
            elif op in ("pop", "del_first"):
                view.pop(next(iter(view)))
            else:
                view["foreign"] = foreign
        elif op == "clear":
            while view:
                view.pop()
        elif op == "pop":
            view.pop()
        elif op == "reverse":
            view.reverse()
        elif op == "append_foreign":
            view.append(foreign)
        elif op == "del_first":
            del view[0]
        elif op == "double":
            view.extend(list(view))
    except (IndexError, KeyError, StopIteration):
        pass


def edit_block(blocks, st):
    """In-place edit of a block the library holds, through the public setters of the model classes."""
    from bibtexparser import model as M
    _, i, kind, j, k, v = st
    entries = [b for b in blocks if isinstance(b, M.Entry)]
    if kind == "other" or not entries:
        others = [b for b in blocks if isinstance(b, (M.String, M.Preamble, M.ExplicitComment, M.ImplicitComment))]
        if not others:
            return "noop"
        b = others[i % len(others)]
        if isinstance(b, M.String):
            if j % 2:
                b.key = k
            else:
                b.value = v
        elif isinstance(b, M.Preamble):
            b.value = v
        else:
            b.comment = v
        return "edit_" + type(b).__name__
    e = entries[i % len(entries)]
    fs = e.fields
    if kind == "set_field":
        e.set_field(M.Field(k, v))
    elif kind == "setitem":
        e[fs[j % len(fs)].key if (fs and j % 2) else k] = v
    elif kind == "pop":
        e.pop(fs[j % len(fs)].key if fs else k)
    elif kind == "delitem":
        del e[fs[j % len(fs)].key if fs else k]
    elif kind == "rename":
        if fs:
            fs[j % len(fs)].key = k
    elif kind == "revalue":
        if fs:
            fs[j % len(fs)].value = v
    elif kind == "fields_set":
        e.fields = [M.Field(k, v, 1)] + list(fs[:j])
    elif kind == "fields_clear":
        e.fields = []
    elif kind == "fields_append":
        fs.append(M.Field(k, v))
    elif kind == "key":
        e.key = k
    elif kind == "type":
        e.entry_type = k or "t"
    return "edit_" + kind


def set_fmt(fo, f, attr, val):
    name = {"indent": "indent", "col": "value_column", "sep": "block_separator", "trailing": "trailing_comma",
            "failed": "parsing_failed_comment"}[attr]
    setattr(fo, name, val)
    f[attr] = val


def run_session(inp):
    import bibtexparser
    import implutil
    from bibtexparser import writer
    from bibtexparser.library import Library
    lib = Library([build_block(d) for d in inp["blocks"]])
    f = None if inp.get("fmt") is None else dict(inp["fmt"])
    fo = make_fmt(f)
    held = []
    tags = set()
    agg = {"fields": 0, "failed": 0, "writes": 0, "after_edit": 0}
    dirty = False
    summary = ""
    for n, st in enumerate(inp["steps"]):
        op = st[0]
        if op == "view":
            v = getattr(lib, st[1])
            held.append(v)
            if st[2] != "keep":
                edit_view(v, st[2])
                dirty = True
            tags.add("view_" + st[1])
        elif op == "held":
            if held:
                edit_view(held[st[1] % len(held)], st[2])
                dirty = True
                tags.add("held_view_edited")
        elif op == "add":
            bs = [build_block(d) for d in st[1]]
            r = implutil.guarded(lambda: lib.add(bs if (len(bs) > 1 or st[3]) else bs[0], fail_on_duplicate_key=st[2]))
            tags.add("add" if r[0] == "ok" else "add_raised")
            dirty = True
        elif op == "remove":
            cur = list(lib.blocks)
            if cur:
                r = implutil.guarded(lambda: lib.remove(cur[st[1] % len(cur)]))
                tags.add("remove" if r[0] == "ok" else "remove_raised")
                dirty = True
        elif op == "replace":
            cur = list(lib.blocks)
            if cur:
                nb = build_block(st[2])
                r = implutil.guarded(lambda: lib.replace(cur[st[1] % len(cur)], nb, fail_on_duplicate_key=st[3]))
                tags.add("replace" if r[0] == "ok" else "replace_raised")
                dirty = True
        elif op == "edit":
            r = implutil.guarded(lambda: edit_block(list(lib.blocks), st))
            tags.add(r[1] if r[0] == "ok" and isinstance(r[1], str) else "edit_raised")
            dirty = True
        elif op == "fmt":
            if fo is not None:
                old = f[st[1]]
                set_fmt(fo, f, st[1], st[2])
                tags.add("fmt_changed_between_writes" if agg["writes"] else "fmt_set")
                if agg["writes"] and st[1] == "col" and old != st[2] and "auto" not in (old, st[2]):
                    tags.add("int_column_changed_between_writes")
                dirty = True
        elif op == "fmt_new":
            f = dict(st[1])
            fo = None                          # drop the old object first: the new one may get its address
            fo = make_fmt(f)
            tags.add("fmt_object_replaced")
            dirty = True
        elif op in ("write", "write_sub"):
            target = lib
            if op == "write_sub":
                cur = list(lib.blocks)
                target = Library([cur[i % len(cur)] for i in st[2]] if cur else [])
                tags.add("second_library_sharing_blocks")
            blocks = list(target.blocks)
            before = fmt_state(fo)
            if st[1] == "write_string":
                r = implutil.guarded(lambda: bibtexparser.write_string(target, unparse_stack=[], bibtex_format=fo))
            else:
                r = implutil.guarded(lambda: writer.write(target, fo))
            after = fmt_state(fo)
            ok, detail, kind, exp, notes = judge(r, blocks, f, before, after)
            agg["writes"] += 1
            agg["fields"] += notes["fields"]
            agg["failed"] += notes["failed"]
            if dirty and agg["writes"] > 1:
                agg["after_edit"] += 1
            dirty = False
            if r[0] == "exc":
                tags.add("write_raised_" + r[2])
                if kind == "exc":
                    tags.add("expects_" + exp)
            if f and f["col"] == "auto":
                tags.add("col_auto")
            summary = ("raised " + r[2]) if r[0] == "exc" else repr(r[1])[:120]
            if not ok:
                return False, "step %d %r of the session: %s" % (n, st[:2], detail), agg, tags, summary
    if agg["after_edit"]:
        tags.add("written_again_after_changes")
    return True, "", agg, tags, summary


def impl(case):
    import enc
    import implutil
    inp = case["input"]
    mode = inp["mode"]
    if mode == "lines":
        s = inp["s"]
        got = s.splitlines()
        return {"sx_in": [62, enc.enc_str(s)], "sx_out": implutil.r_ok([enc.enc_str(x) for x in got]),
                "oracle": {"ok": len(got) == count_lines(s), "detail": "oracle count_lines differs from CPython on %r" % s},
                "nontrivial": any(c in BREAKS for c in s), "key": "L" + json.dumps(s), "tags": ["splitlines"], "summary": repr(got)[:80]}
    if mode == "tmpl":
        t, n = inp["t"], inp["n"]
        r = implutil.guarded(lambda: t.format(n=n))
        exp = expand_template(t, n)
        rec = {"sx_in": [63, enc.enc_str(t), n], "key": "T" + json.dumps([t, n]), "tags": ["template"], "nontrivial": "{" in t}
        if r[0] == "ok":
            rec["sx_out"] = implutil.r_ok(enc.enc_str(r[1]))
            # templates the regex accepts must expand identically; templates it rejects are outside the domain
            rec["oracle"] = {"ok": exp is None or exp == r[1], "detail": "template oracle differs from str.format on %r" % t}
            rec["summary"] = repr(r[1])[:80]
        else:
            rec["sx_out"] = implutil.r_exc(r[1])
            rec["oracle"] = {"ok": exp is None, "detail": "str.format raised %s on a template of the modelled class %r" % (r[2], t)}
            rec["summary"] = "raised " + r[2]
        return rec

    if mode == "setter":
        import bibtexparser
        a = inp["arg"]
        v = None if isinstance(a, dict) else a
        f = bibtexparser.BibtexFormat()
        before = f.value_column
        r = implutil.guarded(lambda: setattr(f, "value_column", v))
        raised = r[0] == "exc"
        after = f.value_column
        legal = (isinstance(v, int) and v >= 0) or v == "auto"
        ok = (raised == (not legal)) and (not raised or r[2] == "ValueError") and (after == (v if legal else before))
        return {"sx_in": [64, enc.enc_value(v)],
                "sx_out": implutil.r_ok([int(raised), ([] if after == "auto" else [int(after)])]),
                "oracle": {"ok": ok, "detail": "value_column = %r: raised=%r after=%r" % (v, raised, after)},
                "nontrivial": True, "key": "S" + repr(v), "tags": ["setter"], "summary": "raised=%r after=%r" % (raised, after)}

    if mode == "session":
        ok, detail, agg, tags, summary = run_session(inp)
        return {"sx_in": None, "sx_out": None, "oracle": {"ok": ok, "detail": detail},
                "nontrivial": bool(agg["fields"] or agg["failed"]),
                "key": json.dumps(["session", inp["blocks"], inp.get("fmt"), inp["steps"]], sort_keys=True),
                "tags": ["session"] + sorted(tags), "summary": "%d writes; last: %s" % (agg["writes"], summary)}

    import bibtexparser
    from bibtexparser import writer
    from bibtexparser.library import Library
    if mode == "build":
        lib = Library([build_block(d) for d in inp["blocks"]])
    else:
        lib = bibtexparser.parse_string(inp["text"], parse_stack=[])
    f = inp.get("fmt")
    fo = make_fmt(f)
    blocks = list(lib.blocks)
    enc_blocks = [enc.enc_block(b) for b in blocks]
    if f is None:
        sx_in = [61, enc_blocks]
    else:
        sx_in = [60, [enc.enc_str(f["indent"]), [] if f["col"] == "auto" else [f["col"]], enc.enc_str(f["sep"]),
                      int(f["trailing"]), enc.enc_str(fo.parsing_failed_comment)], enc_blocks]
    before = fmt_state(fo)
    if inp.get("via") == "write_string":
        r = implutil.guarded(lambda: bibtexparser.write_string(lib, unparse_stack=[], bibtex_format=fo))
    else:
        r = implutil.guarded(lambda: writer.write(lib, fo))
    after = fmt_state(fo)
    ok, detail, kind, exp, notes = judge(r, blocks, f, before, after)
    rec = {"sx_in": sx_in, "key": json.dumps([inp.get("blocks"), inp.get("text"), f], sort_keys=True)}
    if r[0] == "exc":
        rec["sx_out"] = implutil.r_exc(r[1])
        rec["summary"] = "raised " + r[2]
    else:
        text = r[1]
        rec["sx_out"] = implutil.r_ok(enc.enc_str(text)) if isinstance(text, str) else implutil.r_ok([99])
        rec["summary"] = repr(text)[:200]
    if any(x == 99 for b in enc_blocks for x in b[:1]):
        rec["sx_in"] = None
    rec["oracle"] = {"ok": ok, "detail": detail}
    rec["nontrivial"] = bool(notes["fields"] or notes["failed"])
    tags = [mode, "col_auto" if (f and f["col"] == "auto") else "col_int"]
    if notes["short"]:
        tags.append("key_shorter_than_column")
    if notes["long"]:
        tags.append("key_longer_than_column")
    if notes["failed"]:
        tags.append("failed_block")
    if kind == "exc":
        tags.append("expects_" + exp)
    if not blocks:
        tags.append("empty_library")
    rec["tags"] = tags
    return rec
